#!/bin/bash
# Build the Coq development from files on disk only (offline). Run once after a fresh restore.
set -e -o pipefail
cd "$(dirname "$0")"
export VERIF_REPO="${VERIF_REPO:-/repo}"
export PYTHONPATH="$VERIF_REPO:$PWD" PYTHONHASHSEED=0 PYTHONDONTWRITEBYTECODE=1
mkdir -p build evidence coq/gen
# no axioms / admits / disabled checks anywhere in the development
if grep -rnE '\b(Admitted|admit|Axiom|Parameter|Conjecture|Unset Guard|bypass_check|Admit Obligations)\b' coq --include='*.v' | grep -v '^coq/gen/' | grep -vE '\(\*.*(Admitted|Axiom|Parameter).*\*\)'; then
  echo "forbidden vernacular found" >&2; exit 1
fi
/venv/bin/python -m harness.srcfacts > /dev/null
/venv/bin/python -c "from harness.main import ensure_makefile; ensure_makefile()"
cd coq
coq_makefile -f _CoqProject -o Makefile > /dev/null
timeout 3000 make -j12 2>&1 | tail -5
