"""Inserts / refreshes an "As built" block under each per-property heading of DESIGN.md section 5
(markers <!-- ASBUILT:Cxx:BEGIN/END -->) from harness CONFIG + the theorem statements' comments in coq/Cxx.v.
python -m tools.gen_asbuilt"""
import os, re, sys
ROOT = os.path.dirname(os.path.dirname(os.path.abspath(__file__)))
sys.path.insert(0, ROOT)
from harness.registry import REGISTRY

def theorems(pid):
    out = []
    for f in REGISTRY[pid]["coq"]:
        src = open(os.path.join(ROOT, "coq", f + ".v")).read()
        for m in re.finditer(r"(?:\(\*(?P<c>(?:[^*]|\*(?!\)))*)\*\)\s*)?(?:Theorem|Corollary)\s+(?P<n>\w+)", src):
            c = " ".join((m.group("c") or "").split())
            out.append((m.group("n"), c[:330] + ("…" if len(c) > 330 else "")))
    return out

def block(pid):
    cfg = REGISTRY[pid]
    lines = ["<!-- ASBUILT:%s:BEGIN -->" % pid, "**As built (%s).** %s" % (pid, cfg["claim"])]
    if cfg.get("NOTES"):
        lines.append("*Builder's notes:* " + " ".join(str(cfg["NOTES"]).split()))
    lines.append("*Theorems in `coq/%s.v`* (all closed under the global context):" % pid)
    for n, c in theorems(pid):
        lines.append("- `%s`%s" % (n, (" — " + c) if c else ""))
    if cfg.get("unproved_legs"):
        lines.append("*Not proved (runtime comparison only):* " + "; ".join(cfg["unproved_legs"]))
    if cfg.get("assumptions"):
        lines.append("*Assumptions:* " + "; ".join(cfg["assumptions"]))
    lines.append("<!-- ASBUILT:%s:END -->" % pid)
    return "\n".join(lines) + "\n"

def main():
    p = os.path.join(ROOT, "DESIGN.md")
    s = open(p).read()
    for pid in sorted(REGISTRY):
        s = re.sub(r"<!-- ASBUILT:%s:BEGIN -->.*?<!-- ASBUILT:%s:END -->\n" % (pid, pid), "", s, flags=re.S)
    # headings: "### C10 — ..." or "### C18 / C19 — ..." or "### C01 / C02 / C20 — ..."
    def repl(m):
        ids = re.findall(r"C\d\d", m.group(1))
        return m.group(0) + "\n" + "\n".join(block(i) for i in ids if i in REGISTRY)
    s = re.sub(r"(?m)^### ((?:C\d\d(?: / )?)+) — [^\n]*\n", repl, s)
    open(p, "w").write(s)
    print("ok")
main()
