#!/bin/bash
# tools/kill_try.sh <name> : stop everything still running under /tmp/try/<name> and remove it
# (a script so that the pattern does not match the invoking shell's own command line)
n=$1
for pid in $(ps -eo pid,args | awk -v pat="/tmp/try/$n/" '$0 ~ pat && $0 !~ /kill_try/ {print $1}'); do kill $pid 2>/dev/null; done
sleep 1
git -C /repo worktree remove --force /tmp/try/$n/wt 2>/dev/null
rm -rf /tmp/try/$n
git -C /repo worktree prune
