"""Rewrites the region between <!-- SEEDS:BEGIN --> and <!-- SEEDS:END --> of DESIGN.md from
seeded/*/meta.json and build/seedruns/summary*.txt.  python -m tools.gen_seeds_table"""
import glob, json, os, re
ROOT = os.path.dirname(os.path.dirname(os.path.abspath(__file__)))

def runs(path):
    out = {}
    if os.path.exists(path):
        for l in open(path):
            m = re.match(r"(C\d+)-(?:change)?(\d+) suite=\[(.*?)\] violations=(\d+) :: (.*)", l)
            if m:
                out["%s-%s" % (m.group(1), m.group(2))] = (m.group(3), int(m.group(4)), m.group(5).strip())
    return out

def main():
    first = runs(os.path.join(ROOT, "build", "seedruns", "summary_round1.txt"))
    last = runs(os.path.join(ROOT, "build", "seedruns", "summary.txt"))
    keep = os.path.join(ROOT, "seeded", "results.json")
    prev = json.load(open(keep)) if os.path.exists(keep) else {}
    rows = ["| seed | what was changed | needs | first run | after strengthening (quick check) |", "|---|---|---|---|---|"]
    for d in sorted(glob.glob(os.path.join(ROOT, "seeded", "C*-*"))):
        name = os.path.basename(d)
        m = json.load(open(os.path.join(d, "meta.json")))
        r = prev.get(name, {})
        if name in first:
            r["first"] = "caught" if first[name][1] else "MISSED"
        if name in last:
            r["last"] = ("caught: " if last[name][1] else "MISSED: ") + re.sub(r"^C\d+ \[quick\] ", "", last[name][2])[:150]
            r.setdefault("first", "caught" if last[name][1] else "MISSED")
        prev[name] = r
        summ = str(m.get("summary", "")).replace("|", "/").replace("\n", " ")[:260]
        needs = str(m.get("needs", "")).replace("|", "/").replace("\n", " ")[:220]
        rows.append("| %s | %s | %s | %s | %s |" % (name, summ, needs, r.get("first", "?"), r.get("last", "?")))
    json.dump(prev, open(keep, "w"), indent=1)
    p = os.path.join(ROOT, "DESIGN.md")
    s = open(p).read()
    s = re.sub(r"<!-- SEEDS:BEGIN -->.*?<!-- SEEDS:END -->", "<!-- SEEDS:BEGIN -->\n" + "\n".join(rows) + "\n<!-- SEEDS:END -->", s, flags=re.S)
    open(p, "w").write(s)
    print("\n".join(rows)[:1500])
main()
