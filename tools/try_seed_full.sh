#!/bin/bash
# like try_seed.sh but keeps the complete output of each check in build/seedruns/<name>.<prop>.log
name=$1; patch=$2; shift 2
d=/tmp/try/$name
rm -rf $d; mkdir -p $d
git -C /repo worktree add -q --detach $d/wt HEAD || exit 2
( cd $d/wt && ( git apply $patch 2>/dev/null || git apply --3way $patch ) ) || { echo "PATCH DOES NOT APPLY"; git -C /repo worktree remove --force $d/wt; exit 2; }
rsync -a --exclude build/cases --exclude build/replay --exclude .git /verif/ $d/verif/
mkdir -p /verif/build/seedruns
for p in "$@"; do
  ( cd $d/verif && VERIF_REPO=$d/wt timeout 3400 ./check $p --tier quick > /verif/build/seedruns/$name.$p.log 2>&1; echo "rc=$?" >> /verif/build/seedruns/$name.$p.log )
  echo "== $name $p: $(grep -c '^VIOLATION' /verif/build/seedruns/$name.$p.log) violation lines; $(grep theorems /verif/build/seedruns/$name.$p.log | cut -c1-230); $(tail -1 /verif/build/seedruns/$name.$p.log)"
  mkdir -p /verif/build/seedruns/$name; cp -r $d/verif/build/replay /verif/build/seedruns/$name/ 2>/dev/null
done
git -C /repo worktree remove --force $d/wt; rm -rf $d
