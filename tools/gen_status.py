"""Rewrites the region between <!-- STATUS:BEGIN --> and <!-- STATUS:END --> of DESIGN.md from the
harness registry, the evidence files and build/seedruns/summary.txt.  python -m tools.gen_status"""
import json, os, re, sys
ROOT = os.path.dirname(os.path.dirname(os.path.abspath(__file__)))
sys.path.insert(0, ROOT)
from harness.registry import REGISTRY

def main():
    claimed = [l.strip() for l in open(os.path.join(ROOT, "tools", "claimed.txt")) if l.strip()]
    rows = []
    for pid in sorted(REGISTRY):
        cfg = REGISTRY[pid]
        ev = {}
        try:
            ev = json.load(open(os.path.join(ROOT, "evidence", pid + ".json")))
        except Exception:
            pass
        cov = ev.get("coverage", {})
        thms = cov.get("theorems", [])
        rows.append("| %s | %s | %d | %s | %s / %s | %s | %s |" % (
            pid, "yes" if pid in claimed else "no", len(thms),
            ", ".join("`%s`" % t for t in thms[:40]),
            cov.get("evaluations", "?"), cov.get("distinct_nontrivial", "?"),
            ev.get("wall_s", "?"),
            "; ".join(cfg.get("unproved_legs", [])) or "-"))
    seeds = []
    sp = os.path.join(ROOT, "build", "seedruns", "summary.txt")
    table = ["| property | claimed | #thm | theorems (Cxx.v) | impl. runs / non-trivial cases in Coq (last quick run) | wall s | not proved (runtime comparison only) |",
             "|---|---|---|---|---|---|---|"] + rows
    text = "\n".join(table) + "\n"
    p = os.path.join(ROOT, "DESIGN.md")
    s = open(p).read()
    s2 = re.sub(r"<!-- STATUS:BEGIN -->.*?<!-- STATUS:END -->", "<!-- STATUS:BEGIN -->\n" + text + "<!-- STATUS:END -->", s, flags=re.S)
    open(p, "w").write(s2)
    print(text[:600])
main()
