#!/bin/bash
# run every delivered seed under /tmp/seed against its property's quick check; log to build/seedruns/summary.txt
mkdir -p /verif/build/seedruns
for d in /tmp/seed/C*/change*; do
  p=$(basename $(dirname $d)); k=$(basename $d)
  [ -f $d/patch.diff ] || continue
  tag=$p-$k
  grep -q "^$tag " /verif/build/seedruns/summary.txt 2>/dev/null && continue
  out=$(/verif/tools/try_seed.sh $tag $d/patch.diff $p 2>&1)
  suite=$(echo "$out" | grep -E "passed|failed" | head -1)
  nviol=$(echo "$out" | grep -c "^VIOLATION")
  line=$(echo "$out" | grep "theorems" | head -1)
  echo "$tag suite=[$suite] violations=$nviol :: $line" >> /verif/build/seedruns/summary.txt
done
