#!/bin/bash
# run every stored seed (/verif/seeded/Cxx-k/patch.diff) against its property's quick check (or the checks
# named in meta.json "checks"); results appended to build/seedruns/summary.txt (seeds already listed are skipped)
mkdir -p /verif/build/seedruns
for d in /verif/seeded/${PROP_GLOB:-C*}-${SEED_GLOB:-*}; do
  name=$(basename $d); p=${name%%-*}
  [ -f $d/patch.diff ] || continue
  grep -q "^$name " /verif/build/seedruns/summary.txt 2>/dev/null && continue
  props=$(/venv/bin/python -c "import json,sys; print(' '.join(json.load(open('$d/meta.json')).get('checks',['$p'])))" 2>/dev/null || echo $p)
  out=$(/verif/tools/try_seed.sh $name $d/patch.diff $props 2>&1)
  suite=$(echo "$out" | grep -E "passed|failed" | head -1)
  nviol=$(echo "$out" | grep -c "^VIOLATION")
  line=$(echo "$out" | grep "theorems" | tr '\n' ' ' | cut -c1-600)
  echo "$name suite=[$suite] violations=$nviol :: $line" >> /verif/build/seedruns/summary.txt
done
