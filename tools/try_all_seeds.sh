#!/bin/bash
# run every stored seed (/verif/seeded/Cxx-k/patch.diff) against its property's quick check;
# results appended to build/seedruns/summary.txt (seeds already listed there are skipped)
mkdir -p /verif/build/seedruns
for d in /verif/seeded/C*-${SEED_GLOB:-*}; do
  name=$(basename $d); p=${name%%-*}
  [ -f $d/patch.diff ] || continue
  grep -q "^$name " /verif/build/seedruns/summary.txt 2>/dev/null && continue
  out=$(/verif/tools/try_seed.sh $name $d/patch.diff $p 2>&1)
  suite=$(echo "$out" | grep -E "passed|failed" | head -1)
  nviol=$(echo "$out" | grep -c "^VIOLATION")
  line=$(echo "$out" | grep "theorems" | head -1)
  echo "$name suite=[$suite] violations=$nviol :: $line" >> /verif/build/seedruns/summary.txt
done
