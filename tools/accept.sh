#!/bin/bash
# tools/accept.sh Cxx : run the quick check, validate evidence, add to claimed list + MANIFEST
cd /verif
p=$1
timeout 1800 ./check $p --tier quick > /tmp/accept_$p.log 2>&1; rc=$?
tail -3 /tmp/accept_$p.log
if [ $rc -ne 0 ]; then echo "NOT ACCEPTED rc=$rc"; exit 1; fi
python3-vt -c "
import json,jsonschema,sys
jsonschema.validate(json.load(open('evidence/$p.json')),json.load(open('/root/.vp/EVIDENCE.schema.json')))" || { echo "evidence invalid"; exit 1; }
grep -qx $p tools/claimed.txt || echo $p >> tools/claimed.txt
sort -o tools/claimed.txt tools/claimed.txt
/venv/bin/python -m tools.gen_manifest >/dev/null && python3-vt -c "
import json,jsonschema
jsonschema.validate(json.load(open('MANIFEST.json')),json.load(open('/root/.vp/MANIFEST.schema.json')));print('manifest ok')"
