#!/bin/bash
# tools/try_seed.sh <name> <patch.diff> <prop> [<prop>...] : run checks against a patched scratch copy of /repo
# (uses a private copy of /verif so that evidence and build output of /verif itself are untouched)
name=$1; patch=$2; shift 2
d=/tmp/try/$name
rm -rf $d; mkdir -p $d
git -C /repo worktree add -q --detach $d/wt HEAD || exit 2
( cd $d/wt && ( git apply $patch 2>/dev/null || git apply --3way $patch ) ) || { echo "PATCH DOES NOT APPLY"; git -C /repo worktree remove --force $d/wt; exit 2; }
( cd $d/wt && PYTHONPATH=$d/wt timeout 900 /venv/bin/python -m pytest -q -p no:cacheprovider 2>&1 | tail -1 ) 
rsync -a --exclude build/cases --exclude build/replay --exclude .git /verif/ $d/verif/
for p in "$@"; do
  ( cd $d/verif && VERIF_REPO=$d/wt timeout 3000 ./check $p --tier quick 2>&1 | grep -E "VIOLATION|KNOWN|theorems|Error|Traceback" | head -8 )
  echo "== $p rc=${PIPESTATUS[0]}"
  mkdir -p /verif/build/seedruns/$name; cp -r $d/verif/build/replay /verif/build/seedruns/$name/ 2>/dev/null
done
git -C /repo worktree remove --force $d/wt; rm -rf $d
