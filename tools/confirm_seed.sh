#!/bin/bash
# tools/confirm_seed.sh <seeddir> <name> : confirm demo passes clean / fails patched / suite passes patched; copy into /verif/seeded/<name>
src=$1; name=$2
d=/tmp/confirm/$name; rm -rf $d; mkdir -p $d
git -C /repo worktree add -q --detach $d/wt HEAD || exit 2
cd $d/wt
PYTHONPATH=$d/wt timeout 300 /venv/bin/python $src/demo.py > $d/clean.out 2>&1; rc_clean=$?
( git apply $src/patch.diff 2>/dev/null || git apply --3way $src/patch.diff ) || { echo "$name: patch does not apply"; cd /; git -C /repo worktree remove --force $d/wt; exit 1; }
suite=$(PYTHONPATH=$d/wt timeout 900 /venv/bin/python -m pytest -q -p no:cacheprovider 2>&1 | tail -1)
PYTHONPATH=$d/wt timeout 300 /venv/bin/python $src/demo.py > $d/patched.out 2>&1; rc_patched=$?
cd /; git -C /repo worktree remove --force $d/wt
echo "$name: demo clean rc=$rc_clean, demo patched rc=$rc_patched, suite: $suite"
if [ $rc_clean -eq 0 ] && [ $rc_patched -ne 0 ] && echo "$suite" | grep -q "52 passed"; then
  mkdir -p /verif/seeded/$name
  cp $src/patch.diff $src/demo.py /verif/seeded/$name/
  /venv/bin/python - "$src/meta.json" "/verif/seeded/$name/meta.json" "$suite" "$rc_clean" "$rc_patched" "$(git -C /repo rev-parse --short HEAD)" <<'PY'
import json,sys
src,dst,suite,rc_c,rc_p,head=sys.argv[1:7]
try: m=json.load(open(src))
except Exception: m={}
m["confirmed_by_coordinator"]={"repo_commit":head,"suite_with_patch":suite,"demo_without_patch_rc":int(rc_c),"demo_with_patch_rc":int(rc_p),
  "how":"tools/confirm_seed.sh: scratch worktree of /repo HEAD; demo run clean, patch applied, suite run, demo run again"}
json.dump(m,open(dst,"w"),indent=1)
PY
  echo "  kept in /verif/seeded/$name"
else
  echo "  NOT kept"
fi
rm -rf $d
