#!/bin/bash
# tools/try_harmless.sh <k>... : run every check against the negative controls seeded/harmless-<k>/patch.diff
# (the three with-machine checks only when the patch touches _lowlevel*); one summary line per (control, check)
# is appended to build/seedruns/harmless_summary.txt
mkdir -p /verif/build/seedruns
for k in "$@"; do
  d=/verif/seeded/harmless-$k
  props="C03 C04 C05 C06 C07 C08 C09 C10 C11 C12 C13 C14 C15 C16 C17 C18 C19"
  grep -q "_lowlevel" $d/patch.diff && props="$props C01 C02 C20"
  out=$(/verif/tools/try_seed_full.sh harmless-$k $d/patch.diff $props 2>&1)
  echo "$out" | grep "^==" | while read -r line; do echo "$line" | cut -c1-260 >> /verif/build/seedruns/harmless_summary.txt; done
done
