"""Regenerate MANIFEST.json from harness REGISTRY: python -m tools.gen_manifest C10 C05 ...
(the list of claimed properties lives in tools/claimed.txt; not_applicable in tools/not_applicable.json)"""
import json, os, sys
ROOT = os.path.dirname(os.path.dirname(os.path.abspath(__file__)))
sys.path.insert(0, ROOT)
from harness.registry import REGISTRY

def main():
    claimed = [l.strip() for l in open(os.path.join(ROOT, "tools", "claimed.txt")) if l.strip() and not l.startswith("#")]
    na_path = os.path.join(ROOT, "tools", "not_applicable.json")
    na = json.load(open(na_path)) if os.path.exists(na_path) else []
    all_ids = [json.loads(l)["id"] for l in open(os.path.join(ROOT, "properties.jsonl"))]
    checks = []
    for pid in claimed:
        cfg = REGISTRY[pid]
        checks.append({
            "property_id": pid,
            "quick_cmd": f"./check {pid} --tier quick",
            "thorough_cmd": f"./check {pid} --tier thorough",
            "evidence_file": f"/verif/evidence/{pid}.json",
            "replay_cmd_template": f"./check {pid} --replay {{path}}",
            "engine": "coq-proof+correspondence",
            "level_claimed": {"category": cfg["level"], "text": cfg["claim"], "design_ref": cfg.get("design_ref", "DESIGN.md")},
            "level_note": "Trusted: Coq 8.16.1 kernel + vm_compute, hand-written models (validated only by the correspondence), harness abstraction/printer, srcfacts translator. "
                          + " ".join(cfg.get("trusted_base", [])) + (" Assumptions: " + "; ".join(cfg.get("assumptions", [])) if cfg.get("assumptions") else "")
                          + (" Not proved (runtime comparison only): " + "; ".join(cfg.get("unproved_legs", [])) if cfg.get("unproved_legs") else ""),
            "technique": cfg.get("technique", "Rocq/Coq proof over executable model + model/implementation correspondence"),
        })
    named = set(claimed) | {e["property_id"] for e in na}
    for pid in all_ids:
        if pid not in named:
            na.append({"property_id": pid, "reason": "not yet claimed: model, theorems and correspondence for this property are still being built (see DESIGN.md section 7); Coq proof is applicable"})
    old = json.load(open(os.path.join(ROOT, "MANIFEST.json")))
    man = {"version": 1, "setup_cmd": "./setup.sh", "hooks": old["hooks"],
           "engines": [{"name": "coq-proof+correspondence", "path": "/verif/check", "serves_properties": claimed,
                        "kind_free_text": "Coq 8.16.1 development (coq/), regenerated source facts, Python correspondence drivers (harness/)"}],
           "checks": checks, "not_applicable": na,
           "notes": "properties are added as their model, theorems and correspondence land"}
    json.dump(man, open(os.path.join(ROOT, "MANIFEST.json"), "w"), indent=1)
    print("claimed", claimed, "n/a", [e["property_id"] for e in na])
main()
