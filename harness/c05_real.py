"""C05 real-scenario leg (under construction)."""


def run(tier, seed):
    return dict(evaluations=0, violations=[], info={"status": "under construction"})
