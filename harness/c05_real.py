"""C05 real-scenario leg: real stacks (async chains with nested @contextmanager / ExitStack /
AsyncExitStack managers, an async generator, a blocked thread, a suspended greenlet, custom stack
items and context managers, the running stack, a manager that is exiting) are extracted with the
public hooks wrapped harness-side so that the k-th dynamic invocation of a hook raises, for every
hook and every k, and for pairs of such faults.

Hooks wrapped (by replacing the names that stackscope._extract / _glue look up at call time):
  unwrap_stackitem, elaborate_frame, contexts_active_in_frame (= stackscope.lowlevel.
  contexts_active_in_frame as imported by _extract), elaborate_context, unwrap_context,
  unwrap_context_generator, FrameIterator.__next__ (a step of a @yields_frames iterator).
Bookkeeping wrappers (never raise): _extract.extract_iter, _extract.extract_child.

Oracle for one faulty run against the fault-free run of the same live objects:
  O1 extract() returns a Stack (nothing escapes);
  O2 every injected exception is in .error (itself, or a member of the ExceptionGroup) of the Stack
     whose extraction was the innermost one running when it was raised; error shape on every
     Stack of the tree (alone if one, group of >= 2 otherwise);
  O3 for every extraction running when the first fault fired, the frames it had already yielded
     are the same pyframe objects in the same order (and line, flags, contexts) as in the
     fault-free run; for extractions in their per-frame phase the frame being processed is
     present too; extractions finished before the first fault are unchanged;
  O4 str(), format(), format_flat(), as_stdlib_summary() work on the result.
"""
from __future__ import annotations

import contextlib
import random
import sys
import threading
import time

HOOKS = ["unwrap_stackitem", "iter_step", "contexts_active_in_frame", "elaborate_context",
         "unwrap_context", "unwrap_context_generator", "elaborate_frame"]
FRAME_PHASE = {"contexts_active_in_frame", "elaborate_context", "unwrap_context",
               "unwrap_context_generator", "elaborate_frame"}
SIG_OUTERMOST = "C05_fault_inside_glue_extract_outermost"


class Inject(Exception):
    pass


class InjectRuntime(RuntimeError):
    pass


class InjectNotImplemented(NotImplementedError):
    pass


class InjectRecursion(RecursionError):
    pass


class InjectKey(KeyError):
    pass


class InjectType(TypeError):
    pass


class InjectAttribute(AttributeError):
    pass


# the exception TYPE of an injected fault matters: glue code has `except RuntimeError:  # no frames`,
# `except TypeError`, `except AttributeError` idioms that must not eat a hook's failure
FAULT_TYPES = {"Exception": Inject, "RuntimeError": InjectRuntime, "NotImplementedError": InjectNotImplemented,
               "RecursionError": InjectRecursion, "KeyError": InjectKey, "TypeError": InjectType,
               "AttributeError": InjectAttribute}
BASE_TYPES = ["Exception", "RuntimeError"]
SIG_RT_NOFRAMES = "C05_runtimeerror_in_glue_extract_outermost_taken_for_no_frames"


class _Wrapped:
    def __init__(self, probe, name, orig):
        self.__dict__.update(_p=probe, _n=name, _o=orig)

    def __call__(self, *a, **kw):
        self._p.hit(self._n)
        return self._o(*a, **kw)

    def __getattr__(self, n):
        return getattr(self._o, n)


class Rec:
    def __init__(self, index, kind, errs, item):
        self.index, self.kind, self.errs, self.item = index, kind, errs, item
        self.n, self.frames, self.stack, self.done = 0, [], None, False


class Probe:
    def __init__(self, plan=()):
        # plan entries: (hook, k) or (hook, k, exception type name)
        self.plan = {(p[0], p[1]): (p[2] if len(p) > 2 else "Exception") for p in plan}
        self.count = {h: 0 for h in HOOKS}
        self.fired, self.active, self.recs = [], [], []
        self._pending = False

    def hit(self, name):
        k = self.count[name]
        self.count[name] = k + 1
        if (name, k) in self.plan:
            tname = self.plan[(name, k)]
            exc = FAULT_TYPES[tname](name, k)
            self.fired.append(dict(exc=exc, hook=name, k=k, type=tname, levels=[(r.index, r.n) for r in self.active],
                                   started=len(self.recs), done=[r.index for r in self.recs if r.done]))
            raise exc

    def install(self):
        from stackscope import _extract, _glue, _customization
        self._saved = [(_extract, n, getattr(_extract, n)) for n in
                       ("unwrap_stackitem", "elaborate_frame", "contexts_active_in_frame", "elaborate_context",
                        "unwrap_context", "extract_iter", "extract_child")]
        self._saved.append((_glue, "unwrap_context_generator", _glue.unwrap_context_generator))
        self._saved.append((_customization.FrameIterator, "__next__", _customization.FrameIterator.__next__))
        for mod, n, orig in self._saved[:5] + self._saved[7:8]:
            setattr(mod, n, _Wrapped(self, n, orig))
        orig_next = _customization.FrameIterator.__next__
        probe = self

        def p_next(it):
            probe.hit("iter_step")
            return orig_next(it)
        _customization.FrameIterator.__next__ = p_next
        orig_iter, orig_child = _extract.extract_iter, _extract.extract_child

        def p_iter(item, errs):
            rec = Rec(len(probe.recs), "child" if probe._pending else "outermost", errs, item)
            probe._pending = False
            probe.recs.append(rec)
            gen = orig_iter(item, errs)

            def drive():
                while True:
                    probe.active.append(rec)
                    try:
                        fr = next(gen)
                    except StopIteration as ex:
                        rec.done = True
                        return ex.value
                    finally:
                        probe.active.pop()
                    rec.n += 1
                    rec.frames.append(fr)
                    yield fr
            return drive()

        def p_child(item, *, for_task):
            start = len(probe.recs)
            probe._pending = True
            try:
                st = orig_child(item, for_task=for_task)
            finally:
                probe._pending = False
            if len(probe.recs) > start and probe.recs[start].kind == "child":
                probe.recs[start].stack = st
            return st
        _extract.extract_iter = p_iter
        _extract.extract_child = p_child

    def uninstall(self):
        for mod, n, orig in self._saved:
            setattr(mod, n, orig)


def run_one(root, plan=(), **opts):
    import stackscope
    p = Probe(plan)
    p.install()
    try:
        try:
            return dict(result=stackscope.extract(root, **opts), exc=None, probe=p)
        except BaseException as ex:  # noqa: BLE001
            return dict(result=None, exc=ex, probe=p)
    finally:
        p.uninstall()


# ----------------------------------------------------------------- result inspection
def walk_stacks(st, acc=None):
    """every Stack reachable from st (frames -> contexts -> inner_stack / children, recursively)"""
    import stackscope
    acc = [] if acc is None else acc
    acc.append(st)

    def ctx(c):
        if c.inner_stack is not None:
            walk_stacks(c.inner_stack, acc)
        for ch in c.children:
            if isinstance(ch, stackscope.Stack):
                walk_stacks(ch, acc)
            else:
                ctx(ch)
    for fr in st.frames:
        for c in fr.contexts:
            ctx(c)
    return acc


def errors_of(st):
    e = st.error
    if e is None:
        return []
    if isinstance(e, ExceptionGroup):  # noqa: F821
        return list(e.exceptions)
    return [e]


def frame_sig(fr):
    return (id(fr.pyframe), fr.lineno, bool(fr.hide), bool(fr.hide_line),
            tuple((type(c.obj).__name__, c.is_async, c.is_exiting, c.varname, c.start_line) for c in fr.contexts))


def leaf_errors(st):
    out = []

    def rec(e):
        if isinstance(e, BaseExceptionGroup):  # noqa: F821
            for x in e.exceptions:
                rec(x)
        elif e is not None:
            out.append(e)
    rec(st.error)
    return out


def render_checks(st):
    """the result must be renderable by EVERY public renderer: each returns a list of str (str for
    __str__) that can be joined, and every renderer that prints the error shows each recorded error
    (its type name and its message) -> list of messages"""
    import itertools
    msgs = []
    errs = leaf_errors(st)

    def want_error_text(name, text):
        for e in errs:
            tn = type(e).__name__
            if tn not in text:
                msgs.append("%s: the text of the recorded %s is missing from the output" % (name, tn))
                return
            arg = e.args[0] if e.args and isinstance(e.args[0], str) else None
            if arg and arg not in text:
                msgs.append("%s: the message %r of the recorded %s is missing from the output" % (name, arg, tn))
                return

    def lines_of(name, fn, shows_error):
        try:
            val = fn()
        except BaseException as ex:  # noqa: BLE001
            msgs.append("%s raised %r" % (name, ex))
            return
        if isinstance(val, str):
            text = val
        else:
            try:
                items = list(val)
            except BaseException as ex:  # noqa: BLE001
                msgs.append("%s: result is not iterable: %r" % (name, ex))
                return
            bad = [type(x).__name__ for x in items if not isinstance(x, str)]
            if bad:
                msgs.append("%s returned a list with non-str items (%s): ''.join() fails" % (name, ", ".join(sorted(set(bad)))))
                return
            text = "".join(items)
        if shows_error:
            want_error_text(name, text)

    lines_of("str()", lambda: str(st), True)
    for asc, ctx, hid in itertools.product((False, True), repeat=3):
        lines_of("format(ascii_only=%s, show_contexts=%s, show_hidden_frames=%s)" % (asc, ctx, hid),
                 lambda: st.format(ascii_only=asc, show_contexts=ctx, show_hidden_frames=hid), True)
    for ctx in (False, True):
        lines_of("format_flat(show_contexts=%s)" % ctx, lambda: st.format_flat(show_contexts=ctx), True)
    for ctx, hid, loc in itertools.product((False, True), repeat=3):
        def summ():
            ss = st.as_stdlib_summary(show_contexts=ctx, show_hidden_frames=hid, capture_locals=loc)
            import traceback
            if not isinstance(ss, traceback.StackSummary):
                raise TypeError("as_stdlib_summary returned %r" % (type(ss),))
            return ss.format()
        lines_of("as_stdlib_summary(show_contexts=%s, show_hidden_frames=%s, capture_locals=%s).format()" % (ctx, hid, loc), summ, False)
    return msgs


def check(clean, faulty, label):
    """-> (violations [str], notes [str])"""
    out, notes = [], []
    if faulty["exc"] is not None:
        return ["O1 extract() raised %r" % (faulty["exc"],)], notes
    st, p, pc = faulty["result"], faulty["probe"], clean["probe"]
    import stackscope
    if not isinstance(st, stackscope.Stack):
        return ["O1 extract() returned %r" % (type(st),)], notes
    out.extend("O4 " + m for m in render_checks(st))
    reach = walk_stacks(st)
    reach_ids = {id(s) for s in reach}
    for s in reach:
        e = s.error
        if isinstance(e, ExceptionGroup):  # noqa: F821
            if len(e.exceptions) < 2 or any(isinstance(x, ExceptionGroup) for x in e.exceptions):  # noqa: F821
                out.append("O2 malformed ExceptionGroup on a Stack: %r" % (e,))
        elif e is not None and not isinstance(e, Exception):
            out.append("O2 error is %r" % (type(e),))
    reported = {id(x) for s in reach for x in errors_of(s)}
    for f in p.fired:
        exc = f["exc"]
        if not f["levels"]:
            out.append("fault fired outside any extraction (harness)")
            continue
        inner = p.recs[f["levels"][-1][0]]
        if inner.kind == "outermost":
            # raised while glue runs extract_outermost(): no Stack is being built by that call
            if id(exc) in reported:
                notes.append("outermost:reported")
            elif inner.n >= 1:
                # known finding F23: the nested extract_outermost() already had its frame when the hook failed
                # and discards its private error list
                notes.append("outermost:LOST-after-frame")
                out.append((SIG_OUTERMOST, "O2 %s fault #%d raised inside the extract_outermost() call made by the contextlib glue "
                            "after that call had its frame is reported nowhere in the result" % (f["hook"], f["k"])))
            else:
                # NOT F23: the nested call produced no frame, so it must re-raise the hook's exception, which then
                # lands in the error list of the Stack being built around it
                msg = ("O2 %s fault #%d (%s) raised inside the glue's extract_outermost() call BEFORE any frame was produced "
                       "is reported nowhere in the result (not in any Stack.error / ExceptionGroup)" % (f["hook"], f["k"], f["type"]))
                if isinstance(exc, RuntimeError):
                    # extract_outermost re-raises the hook's own RuntimeError and the glue's `except RuntimeError:  # no frames`
                    # takes it for the benign case
                    notes.append("outermost:LOST-before-frame-RuntimeError")
                    out.append((SIG_RT_NOFRAMES, msg))
                else:
                    notes.append("outermost:LOST-before-frame")
                    out.append(msg)
            continue
        S = inner.stack
        if S is None:
            out.append("O2 the extraction that was running when %s #%d was raised did not return a Stack" % (f["hook"], f["k"]))
            continue
        errs = errors_of(S)
        if not any(x is exc for x in errs):
            where = "elsewhere in the tree" if id(exc) in reported else "nowhere"
            out.append("O2 %s fault #%d (%s) is not in .error of the Stack being built (root %r); found %s"
                       % (f["hook"], f["k"], f["type"], type(inner.item).__name__, where))
        if len(errs) == 1 and S.error is not errs[0]:
            out.append("O2 single error not stored alone")
        if id(S) not in reach_ids:
            notes.append("holder-stack-unreachable")
    if p.fired:
        f0 = p.fired[0]
        cmp_levels = list(f0["levels"])
        for idx, n in cmp_levels:
            if idx >= len(pc.recs):
                out.append("O3 harness: no fault-free counterpart of extraction %d" % idx)
                continue
            rc, rf = pc.recs[idx], p.recs[idx]
            ff = list(rf.stack.frames) if rf.stack is not None else rf.frames
            fc = list(rc.stack.frames) if rc.stack is not None else rc.frames
            if rf.kind == "outermost":
                continue
            a, b = [frame_sig(x) for x in ff[:n]], [frame_sig(x) for x in fc[:n]]
            if len(ff) < n or a != b:
                out.append("O3 extraction #%d (%s): the %d frames yielded before %s #%d differ from the fault-free run"
                           % (idx, type(rf.item).__name__, n, f0["hook"], f0["k"]))
            is_inner = idx == f0["levels"][-1][0]
            if (not is_inner) or f0["hook"] in FRAME_PHASE:
                if len(ff) <= n or len(fc) <= n or ff[n].pyframe is not fc[n].pyframe:
                    out.append("O3 extraction #%d: the frame being processed when %s #%d was raised is missing"
                               % (idx, f0["hook"], f0["k"]))
        for idx in f0["done"]:
            rc, rf = pc.recs[idx], p.recs[idx]
            if [frame_sig(x) for x in rf.frames] != [frame_sig(x) for x in rc.frames]:
                out.append("O3 extraction #%d finished before the first fault but differs from the fault-free run" % idx)
    else:
        notes.append("no-fault-fired")
    return out, notes


# ----------------------------------------------------------------- scenarios
def noop(*a, **kw):
    return None


@contextlib.contextmanager
def cm_inner(tag):
    yield tag


@contextlib.contextmanager
def cm_outer(tag):
    with cm_inner(tag + "i") as x:
        with contextlib.ExitStack() as es:
            es.enter_context(cm_inner("es"))
            es.callback(noop, "bye")
            es.push(noop)
            yield x


@contextlib.asynccontextmanager
async def acm_leaf():
    yield 1


@contextlib.asynccontextmanager
async def acm(tag):
    async with contextlib.AsyncExitStack() as aes:
        await aes.enter_async_context(acm_leaf())
        aes.push_async_callback(anoop)
        aes.enter_context(cm_inner("sync-in-async"))
        yield tag


async def anoop(*a):
    return None


class Park:
    def __await__(self):
        yield "parked"


async def a_leaf():
    with cm_outer("L"):
        await Park()


async def a_mid():
    async with acm("M"):
        with contextlib.ExitStack() as es:
            es.enter_context(cm_outer("E"))
            await a_leaf()


async def a_top():
    with cm_inner("T"), cm_outer("T2"):
        await a_mid()


def s_async(cb):
    co = a_top()
    co.send(None)
    try:
        cb(co)
    finally:
        co.close()


async def ag_gen():
    with cm_outer("G"):
        await Park()
        yield 1


async def ag_consumer():
    async with acm("C"):
        async for _ in ag_gen():
            pass


def s_agen(cb):
    co = ag_consumer()
    co.send(None)
    try:
        cb(co)
    finally:
        co.close()


def s_thread(cb):
    ev, ready = threading.Event(), threading.Event()

    def t_inner():
        with cm_outer("th"):
            ready.set()
            ev.wait()

    def t_outer():
        with contextlib.ExitStack() as es:
            es.enter_context(cm_inner("t"))
            t_inner()
    th = threading.Thread(target=t_outer, daemon=True)
    th.start()
    ready.wait()
    time.sleep(0.05)
    try:
        cb(th)
    finally:
        ev.set()
        th.join()


def s_greenlet(cb):
    import greenlet

    def g_inner():
        with cm_outer("g"):
            greenlet.getcurrent().parent.switch()

    def g_outer():
        with cm_inner("go"):
            g_inner()
    g = greenlet.greenlet(g_outer)
    g.switch()
    try:
        cb(g)
    finally:
        g.switch()


# custom items / managers, registered once
class SeqItem:
    def __init__(self, *parts):
        self.parts = parts


class IterItem:
    def __init__(self, *parts):
        self.parts = parts


class SideCM:
    """a hand-written manager with a child stack contributed by elaborate_context"""
    def __init__(self, side):
        self.side = side

    def __enter__(self):
        return self

    def __exit__(self, *a):
        return False


class WrapCM:
    def __init__(self, inner):
        self.inner = inner

    def __enter__(self):
        return self.inner.__enter__()

    def __exit__(self, *a):
        return self.inner.__exit__(*a)


@contextlib.contextmanager
def cm_wrapper():
    with cm_outer("wrapped") as x:
        yield x


def c_side():
    with cm_inner("side"):
        yield 1


def c_g2(side):
    with SideCM(side), cm_wrapper():
        yield 2


def c_g1(side):
    with WrapCM(cm_outer("w")):
        yield from c_g2(side)


def c_extra():
    yield 3


_EXTRA = []


def c_host():
    yield 4


_setup_done = [False]


def setup():
    if _setup_done[0]:
        return
    _setup_done[0] = True
    from stackscope import (unwrap_stackitem, elaborate_frame, elaborate_context, unwrap_context,
                            unwrap_context_generator, yields_frames, extract_child)

    @unwrap_stackitem.register(SeqItem)
    def _(x):
        return list(x.parts)

    @unwrap_stackitem.register(IterItem)
    @yields_frames
    def _(x):
        yield from x.parts

    @elaborate_context.register(SideCM)
    def _(mgr, context):
        context.description = "SideCM()"
        context.children = [extract_child(mgr.side, for_task=False)]

    @unwrap_context.register(WrapCM)
    def _(mgr, context):
        return mgr.inner

    @unwrap_context_generator.register(cm_wrapper)
    def _(frame, context):
        return frame.contexts[0].obj if frame.contexts else None

    @unwrap_context_generator.register(cm_exiting)
    def _(frame, context):
        return None

    @unwrap_context_generator.register(acm_exiting)
    def _(frame, context):
        return None

    @elaborate_frame.register(c_host)
    def _(frame, next_inner):
        # insert a further generator before whatever follows
        return (_EXTRA[0], next_inner) if _EXTRA else None


def s_custom(cb):
    setup()
    side, extra, host = c_side(), c_extra(), c_host()
    g1 = c_g1(side)
    for g in (side, extra, host, g1):
        next(g)
    _EXTRA[:] = [extra]
    try:
        cb(SeqItem(host, None, IterItem(g1, SeqItem()), 42))
    finally:
        _EXTRA[:] = []
        for g in (g1, host, extra, side):
            g.close()


def s_running(cb):
    from stackscope import StackSlice

    def r_inner(outer_frame):
        with cm_outer("r"):
            cb(StackSlice(outer=outer_frame, inner=sys._getframe(0)))

    def r_outer():
        with contextlib.ExitStack() as es:
            es.enter_context(cm_inner("ro"))
            r_inner(sys._getframe(0))
    r_outer()


@contextlib.contextmanager
def cm_exiting(holder):
    with cm_inner("x"):
        try:
            yield
        finally:
            holder[0]()


def s_exiting(cb):
    setup()
    from stackscope import StackSlice

    def body():
        fr = sys._getframe(0)
        holder = [None]

        def at_exit():
            cb(StackSlice(outer=fr, inner=sys._getframe(0)))
        holder[0] = at_exit
        with cm_inner("before"), cm_exiting(holder):
            pass
    body()


@contextlib.asynccontextmanager
async def acm_exiting(holder):
    async with acm_leaf():
        try:
            yield
        finally:
            holder[0]()


def s_exiting_async(cb):
    """the same for an @asynccontextmanager: extraction from inside its __aexit__"""
    setup()
    from stackscope import StackSlice
    holder = [None]

    async def abody():
        fr = sys._getframe(0)

        def at_exit():
            cb(StackSlice(outer=fr, inner=sys._getframe(0)))
        holder[0] = at_exit
        async with acm_exiting(holder):
            pass
    co = abody()
    try:
        co.send(None)
    except StopIteration:
        pass


SCENARIOS = [("async_chain", s_async), ("asyncgen", s_agen), ("thread", s_thread), ("greenlet", s_greenlet),
             ("custom_items", s_custom), ("running_stack", s_running), ("exiting_manager", s_exiting),
             ("exiting_async_manager", s_exiting_async)]


class Pt:
    pass


def non_stack_roots():
    import os
    return [0, 1, -7, 10 ** 30, 2.5, "", "text", b"bytes", None, True, int, type, Exception, os, sys, object(), [], {}, (),
            (1, 2), [None], noop, len, Pt, Pt(), NotImplemented, Ellipsis, range(3), iter([1]), Inject("x"), 3j, frozenset()]


# ----------------------------------------------------------------- the leg
def run(tier, seed, only=None):
    import stackscope
    rng = random.Random(seed * 31 + 5)
    quick = tier == "quick"
    setup()
    evals, viol, info = 0, [], {}
    notes_total = {}

    def note(ns):
        for n in ns:
            notes_total[n] = notes_total.get(n, 0) + 1

    import json
    import os
    from .common import ROOT
    try:
        known_sigs = {e["signature"] for e in json.load(open(os.path.join(ROOT, "known_findings.json")))
                      if e.get("kind") == "known" and e.get("property") == "C05"}
    except Exception:  # noqa: BLE001
        known_sigs = set()
    candidates = {}
    known_count = {}     # known signature -> number of reproductions (all of them, not only the emitted ones)

    def add(label, plan, msgs):
        for m in msgs:
            sig = None
            if isinstance(m, tuple):
                sig, m = m
                if sig not in known_sigs:
                    # a replayable deviation found while building this check, not (yet) listed in
                    # known_findings.json: recorded in the evidence, not counted as a violation
                    c = candidates.setdefault(sig, {"count": 0, "examples": []})
                    c["count"] += 1
                    if len(c["examples"]) < 3:
                        c["examples"].append({"scenario": label, "faults": [list(x) for x in plan], "what": m})
                    continue
            # known-finding reproductions must never crowd out a real violation nor each other: a cap per signature
            n_same = sum(1 for v in viol if v.get("sig") == sig)
            if sig is not None:
                known_count[sig] = known_count.get(sig, 0) + 1
            if n_same < (40 if sig is None else 5):
                viol.append({"what": "[real:%s] %s" % (label, m), "input": {"scenario": label, "faults": [list(x) for x in plan]},
                             "sig": sig})

    for label, scen in SCENARIOS:
        if only and label not in only:
            continue
        stats = {}

        def cb(root, label=label, stats=stats):
            nonlocal evals
            clean = run_one(root)
            again = run_one(root)
            evals += 2
            if clean["exc"] is not None:
                add(label, [], ["O1 fault-free extract() raised %r" % (clean["exc"],)])
                return
            a = [[frame_sig(x) for x in r.frames] for r in clean["probe"].recs]
            b = [[frame_sig(x) for x in r.frames] for r in again["probe"].recs]
            if a != b or clean["probe"].count != again["probe"].count:
                add(label, [], ["harness: the scenario is not stable between two fault-free extractions"])
                return
            counts = dict(clean["probe"].count)
            stats.update(invocations=counts, frames=len(clean["result"].frames),
                         stacks=len(walk_stacks(clean["result"])), extractions=len(clean["probe"].recs),
                         fault_free_errors=sum(len(errors_of(s)) for s in walk_stacks(clean["result"])))
            # exception types: two everywhere (a plain Exception and a RuntimeError); every type on the scenarios that go
            # through the contextlib glue's exiting / unwrap_context_generator branches and on that hook everywhere
            rich = (not quick) or label in ("exiting_manager", "exiting_async_manager", "custom_items")
            singles = [(h, k, tn) for h in HOOKS for k in range(counts[h])
                       for tn in (FAULT_TYPES if (rich or h == "unwrap_context_generator") else BASE_TYPES)]
            nrun = 0
            for pl in singles:
                r = run_one(root, [pl])
                evals += 1
                nrun += 1
                msgs, ns = check(clean, r, label)
                note(ns)
                if not r["probe"].fired:
                    msgs = list(msgs) + ["harness: planned fault %r did not fire" % (pl,)]
                add(label, [pl], msgs)
            # pairs: the second index may exceed the fault-free count on purpose (+2) because the
            # first fault changes the later invocation sequence
            cap = 150 if quick else 2500
            pairs = set()
            tries = 0
            while len(pairs) < cap and tries < 20 * cap and len(singles) > 1:
                tries += 1
                a1, b1 = rng.sample(singles, 2)
                if (a1[0], a1[1]) != (b1[0], b1[1]):
                    pairs.add((a1, b1) if a1 <= b1 else (b1, a1))
            pairs = sorted(pairs)
            for pl in pairs:
                r = run_one(root, list(pl))
                evals += 1
                msgs, ns = check(clean, r, label)
                note(ns)
                add(label, list(pl), msgs)
            # same fault with contexts switched off
            clean_nc = run_one(root, with_contexts=False)
            for h in ("unwrap_stackitem", "iter_step", "elaborate_frame"):
                for k in range(clean_nc["probe"].count[h]):
                    r = run_one(root, [(h, k)], with_contexts=False)
                    evals += 1
                    msgs, ns = check(clean_nc, r, label)
                    add(label + "/no-contexts", [(h, k)], msgs)
            stats["single_faults"] = nrun
            stats["pairs"] = len(pairs)
        try:
            scen(cb)
        except BaseException as ex:  # noqa: BLE001
            import traceback
            add(label, [], ["harness: scenario crashed: %r %s" % (ex, traceback.format_exc()[-600:])])
        info[label] = stats

    # arbitrary non-stack objects as roots
    if not only:
        nroots = 0
        for x in non_stack_roots():
            for wc in (True, False):
                for plan in ([], [("unwrap_stackitem", 0)], [("unwrap_stackitem", 0, "RuntimeError")]):
                    r = run_one(x, plan, with_contexts=wc)
                    evals += 1
                    nroots += 1
                    lab = "non-stack root %s" % type(x).__name__
                    if r["exc"] is not None:
                        add(lab, plan, ["O1 extract(%r) raised %r" % (type(x).__name__, r["exc"])])
                        continue
                    st = r["result"]
                    msgs = []
                    if not isinstance(st, stackscope.Stack) or list(st.frames) != []:
                        msgs.append("result is not a frameless Stack")
                    else:
                        if st.leaf is not x or st.root is not x:
                            msgs.append("leaf/root is not the object itself")
                        want = [f["exc"] for f in r["probe"].fired]
                        if [id(e) for e in errors_of(st)] != [id(e) for e in want] or (len(want) == 1 and st.error is not want[0]):
                            msgs.append("error is %r, expected %r" % (st.error, want))
                        msgs.extend("O4 " + m for m in render_checks(st))
                    add(lab, plan, msgs)
        info["non_stack_roots"] = nroots
    info["notes"] = notes_total
    if candidates:
        # a signature the leg knows how to classify but that known_findings.json does not list (yet)
        info["finding_candidates_not_in_known_findings"] = candidates
    info["known_finding_reproductions"] = dict(known_count)
    info["hooks"] = HOOKS
    known = sorted(known_count)      # every known signature that reproduced, independent of the emission caps
    return dict(evaluations=evals, violations=viol, info=info, known_reproduced=known)
