"""Source facts for C13 (option scoping), re-extracted from stackscope/_extract.py with `ast`.

Fail-closed: every recogniser returns False for a shape it does not understand.  The
recognisers are structural (names of locals do not matter), so renaming `prev` or reordering
the two attribute writes inside `push` raises no alarm, while turning `threading.local` into a
plain base class, or moving the write-back out of the `finally`, flips a fact and with it the
instance theorems of coq/C13.v.

  c13_options_thread_local      class ExtractOptions derives from threading.local, both options
                                default to None at class level, and `current_options` is the single
                                module-level instance `ExtractOptions()`
  c13_push_restores_in_finally  ExtractOptions.push is a @contextmanager generator that saves
                                (self.with_contexts, self.recurse_child_tasks) in a local, yields
                                inside a `try` whose `finally` writes exactly that local back to
                                the same two attributes, in the same order
  c13_entry_points_push         extract / extract_outermost run their body inside
                                `with current_options.push(with_contexts=with_contexts,
                                recurse_child_tasks=recurse_child_tasks)`; fill_context pushes
                                (True, False) under `if current_options.with_contexts is None`;
                                extract_since / extract_until take both options and EVERY return path
                                is an `extract(...)` call that forwards them (same-named keywords, or
                                `**d` with d = {"with_contexts": with_contexts, "recurse_child_tasks":
                                recurse_child_tasks} bound once in the function)
  c13_fresh_result_lists        every Stack built in _extract.py owns a fresh `frames` list: no function
                                of the module has a mutable default argument, the module (and its class
                                bodies) binds no list/dict/set at top level apart from __all__, and the
                                `frames` argument of every `Stack(...)` call is a list display /
                                comprehension / list(...) call or a local bound only to such expressions
                                (never a parameter) -- so a for_task stub can never share its list with
                                another stub, a later extraction or another thread
"""
from __future__ import annotations

import ast
import os

from .common import REPO

ATTRS = ("with_contexts", "recurse_child_tasks")


def _parse():
    with open(os.path.join(REPO, "stackscope", "_extract.py")) as fh:
        return ast.parse(fh.read())


def _top(tree, kind, name):
    for n in tree.body:
        if isinstance(n, kind) and getattr(n, "name", None) == name:
            return n
    return None


def _is_none_value(v):
    """None, or cast(<type>, None)"""
    if isinstance(v, ast.Constant) and v.value is None:
        return True
    if (isinstance(v, ast.Call) and isinstance(v.func, ast.Name) and v.func.id == "cast"
            and len(v.args) == 2 and isinstance(v.args[1], ast.Constant) and v.args[1].value is None):
        return True
    return False


def _threading_local_names(tree):
    """expressions that denote threading.local in this module: (module aliases, direct names)"""
    mods, names = set(), set()
    for n in tree.body:
        if isinstance(n, ast.Import):
            for a in n.names:
                if a.name == "threading":
                    mods.add(a.asname or "threading")
        elif isinstance(n, ast.ImportFrom) and n.module == "threading":
            for a in n.names:
                if a.name == "local":
                    names.add(a.asname or "local")
    return mods, names


def thread_local(tree) -> bool:
    cls = _top(tree, ast.ClassDef, "ExtractOptions")
    if cls is None or len(cls.bases) != 1 or cls.keywords:
        return False
    mods, names = _threading_local_names(tree)
    b = cls.bases[0]
    ok = ((isinstance(b, ast.Attribute) and b.attr == "local" and isinstance(b.value, ast.Name) and b.value.id in mods)
          or (isinstance(b, ast.Name) and b.id in names))
    if not ok:
        return False
    # class-level defaults None for both options; no __init__/__slots__/__getattr__ games
    defaults = {}
    for n in cls.body:
        if isinstance(n, ast.AnnAssign) and isinstance(n.target, ast.Name) and n.value is not None:
            defaults[n.target.id] = n.value
        elif isinstance(n, ast.Assign) and len(n.targets) == 1 and isinstance(n.targets[0], ast.Name):
            defaults[n.targets[0].id] = n.value
        elif isinstance(n, ast.FunctionDef) and n.name != "push":
            return False
    if not all(a in defaults and _is_none_value(defaults[a]) for a in ATTRS):
        return False
    # exactly one module-level binding of current_options, to ExtractOptions()
    binds = []
    for n in ast.walk(tree):
        tg = []
        if isinstance(n, ast.Assign):
            tg = n.targets
        elif isinstance(n, (ast.AnnAssign, ast.AugAssign)):
            tg = [n.target]
        for t in tg:
            for x in ast.walk(t):
                if isinstance(x, ast.Name) and x.id == "current_options":
                    binds.append(n)
        if isinstance(n, ast.Global) and "current_options" in n.names:
            return False
    if len(binds) != 1 or binds[0] not in tree.body:
        return False
    v = binds[0].value
    return (isinstance(v, ast.Call) and isinstance(v.func, ast.Name) and v.func.id == "ExtractOptions"
            and not v.args and not v.keywords)


def _self_attr(x, selfname):
    if isinstance(x, ast.Attribute) and isinstance(x.value, ast.Name) and x.value.id == selfname and x.attr in ATTRS:
        return x.attr
    return None


def _attr_tuple(x, selfname):
    """('with_contexts', 'recurse_child_tasks') in some order if x is a 2-tuple of self attributes"""
    if isinstance(x, ast.Tuple) and len(x.elts) == 2:
        names = tuple(_self_attr(e, selfname) for e in x.elts)
        if set(names) == set(ATTRS):
            return names
    return None


def push_restores(tree) -> bool:
    cls = _top(tree, ast.ClassDef, "ExtractOptions")
    if cls is None:
        return False
    push = None
    for n in cls.body:
        if isinstance(n, ast.FunctionDef) and n.name == "push":
            push = n
    if push is None or not push.args.args:
        return False
    if not any((isinstance(d, ast.Name) and d.id == "contextmanager")
               or (isinstance(d, ast.Attribute) and d.attr == "contextmanager") for d in push.decorator_list):
        return False
    selfname = push.args.args[0].arg
    kw = [a.arg for a in push.args.kwonlyargs] + [a.arg for a in push.args.args[1:]]
    if set(kw) != set(ATTRS):
        return False
    body = [s for s in push.body if not (isinstance(s, ast.Expr) and isinstance(s.value, ast.Constant))]
    # 1. save: <local> = (self.a, self.b)
    if not body or not isinstance(body[0], ast.Assign) or len(body[0].targets) != 1:
        return False
    tgt = body[0].targets[0]
    saved_order = _attr_tuple(body[0].value, selfname)
    if not isinstance(tgt, ast.Name) or saved_order is None:
        return False
    local = tgt.id
    # 2. set both attributes from the same-named parameters (any order, single or tuple assignment)
    sets = {}
    i = 1
    while i < len(body) and isinstance(body[i], ast.Assign):
        st = body[i]
        if len(st.targets) != 1:
            return False
        a = _self_attr(st.targets[0], selfname)
        if a is not None and isinstance(st.value, ast.Name):
            sets[a] = st.value.id
        else:
            names = _attr_tuple(st.targets[0], selfname)
            if names and isinstance(st.value, ast.Tuple) and len(st.value.elts) == 2 and all(
                    isinstance(e, ast.Name) for e in st.value.elts):
                for nm, e in zip(names, st.value.elts):
                    sets[nm] = e.id
            else:
                return False
        i += 1
    if sets != {a: a for a in ATTRS}:
        return False
    # 3. try: yield  finally: (self.a, self.b) = <local>   -- and nothing else
    if i != len(body) - 1 or not isinstance(body[i], ast.Try):
        return False
    tr = body[i]
    if tr.handlers or tr.orelse or len(tr.body) != 1 or len(tr.finalbody) != 1:
        return False
    y = tr.body[0]
    if not (isinstance(y, ast.Expr) and isinstance(y.value, ast.Yield) and y.value.value is None):
        return False
    fin = tr.finalbody[0]
    if not isinstance(fin, ast.Assign) or len(fin.targets) != 1:
        return False
    restored_order = _attr_tuple(fin.targets[0], selfname)
    if restored_order is None or restored_order != saved_order:
        return False
    return isinstance(fin.value, ast.Name) and fin.value.id == local


def _push_with(fn, expect):
    """the `with current_options.push(**expect)` statements of fn whose keywords are `expect`
    (values: parameter name or constant)"""
    found = []
    for x in ast.walk(fn):
        if isinstance(x, ast.With) and len(x.items) == 1:
            c = x.items[0].context_expr
            if (isinstance(c, ast.Call) and isinstance(c.func, ast.Attribute) and c.func.attr == "push"
                    and isinstance(c.func.value, ast.Name) and c.func.value.id == "current_options" and not c.args):
                got = {}
                for k in c.keywords:
                    if isinstance(k.value, ast.Name):
                        got[k.arg] = ("name", k.value.id)
                    elif isinstance(k.value, ast.Constant):
                        got[k.arg] = ("const", k.value.value)
                if got == expect:
                    found.append(x)
    return found


def _forwards_options(fn) -> bool:
    """every return of fn is `extract(...)` forwarding both options of fn unchanged"""
    params = {a.arg for a in fn.args.kwonlyargs + fn.args.args}
    if not set(ATTRS) <= params:
        return False
    # dicts that hold exactly the two options: name -> number of bindings
    binds, good = {}, set()
    for x in ast.walk(fn):
        tg = []
        if isinstance(x, ast.Assign):
            tg = [(t, x.value) for t in x.targets]
        elif isinstance(x, (ast.AnnAssign, ast.AugAssign)):
            tg = [(x.target, x.value)]
        elif isinstance(x, (ast.For, ast.AsyncFor, ast.comprehension)):
            tg = [(x.target, None)]
        for t, v in tg:
            for nm in ast.walk(t):
                if isinstance(nm, ast.Name):
                    binds[nm.id] = binds.get(nm.id, 0) + 1
                    if (t is nm and isinstance(v, ast.Dict) and len(v.keys) == 2
                            and all(isinstance(k, ast.Constant) for k in v.keys)
                            and all(isinstance(w, ast.Name) for w in v.values)
                            and {k.value: w.id for k, w in zip(v.keys, v.values)} == {a: a for a in ATTRS}):
                        good.add(nm.id)
        if isinstance(x, ast.Subscript) and isinstance(x.ctx, (ast.Store, ast.Del)):
            return False          # d[...] = ... / del d[...]
        if isinstance(x, ast.Call) and isinstance(x.func, ast.Attribute) and x.func.attr in (
                "update", "pop", "clear", "setdefault", "popitem"):
            return False
    if any(a in binds for a in ATTRS):
        return False              # an option parameter is re-bound

    def ok_call(c):
        if not (isinstance(c, ast.Call) and isinstance(c.func, ast.Name) and c.func.id == "extract"):
            return False
        got = {}
        for k in c.keywords:
            if k.arg is None:
                if isinstance(k.value, ast.Name) and k.value.id in good and binds.get(k.value.id) == 1:
                    for a in ATTRS:
                        if a in got:
                            return False
                        got[a] = a
                else:
                    return False
            elif k.arg in ATTRS:
                if k.arg in got or not (isinstance(k.value, ast.Name) and k.value.id == k.arg):
                    return False
                got[k.arg] = k.arg
        return got == {a: a for a in ATTRS}
    rets = [x for x in ast.walk(fn) if isinstance(x, ast.Return)]
    calls = [x for x in ast.walk(fn) if isinstance(x, ast.Call) and isinstance(x.func, ast.Name)
             and x.func.id in ("extract", "extract_child", "extract_iter", "extract_outermost")]
    return bool(rets) and all(ok_call(r.value) for r in rets) and all(ok_call(c) for c in calls)


def entry_points(tree) -> bool:
    for name in ("extract_since", "extract_until"):
        fn = _top(tree, ast.FunctionDef, name)
        if fn is None or not _forwards_options(fn):
            return False
    same = {a: ("name", a) for a in ATTRS}
    for name in ("extract", "extract_outermost"):
        fn = _top(tree, ast.FunctionDef, name)
        if fn is None:
            return False
        body = [s for s in fn.body if not (isinstance(s, ast.Expr) and isinstance(s.value, ast.Constant))]
        ws = _push_with(fn, same)
        # the whole body is the with-statement
        if len(ws) != 1 or len(body) != 1 or body[0] is not ws[0]:
            return False
    fc = _top(tree, ast.FunctionDef, "fill_context")
    if fc is None:
        return False
    ws = _push_with(fc, {"with_contexts": ("const", True), "recurse_child_tasks": ("const", False)})
    if len(ws) != 1:
        return False
    # it sits directly under `if current_options.with_contexts is None:` and the branch returns
    for x in ast.walk(fc):
        if isinstance(x, ast.If) and ws[0] in x.body:
            t = x.test
            if (isinstance(t, ast.Compare) and len(t.ops) == 1 and isinstance(t.ops[0], ast.Is)
                    and isinstance(t.comparators[0], ast.Constant) and t.comparators[0].value is None
                    and isinstance(t.left, ast.Attribute) and t.left.attr in ATTRS
                    and isinstance(t.left.value, ast.Name) and t.left.value.id == "current_options"
                    and isinstance(x.body[-1], ast.Return)):
                return True
    return False


def _immutable_default(v) -> bool:
    if isinstance(v, ast.Constant):
        return True
    if isinstance(v, ast.Tuple):
        return all(_immutable_default(e) for e in v.elts)
    if isinstance(v, ast.UnaryOp) and isinstance(v.op, (ast.USub, ast.UAdd, ast.Not)):
        return _immutable_default(v.operand)
    return False


def _fresh_list_expr(v) -> bool:
    if isinstance(v, (ast.List, ast.ListComp)):
        return True
    return (isinstance(v, ast.Call) and isinstance(v.func, ast.Name) and v.func.id == "list"
            and not v.keywords and len(v.args) <= 1)


def _mutable_literal(v) -> bool:
    if isinstance(v, (ast.List, ast.Dict, ast.Set, ast.ListComp, ast.DictComp, ast.SetComp)):
        return True
    return (isinstance(v, ast.Call) and isinstance(v.func, (ast.Name, ast.Attribute))
            and (v.func.id if isinstance(v.func, ast.Name) else v.func.attr)
            in ("list", "dict", "set", "deque", "defaultdict", "OrderedDict", "bytearray"))


def fresh_result_lists(tree) -> bool:
    # 1. no mutable default argument anywhere in the module
    for n in ast.walk(tree):
        if isinstance(n, (ast.FunctionDef, ast.AsyncFunctionDef, ast.Lambda)):
            for d in list(n.args.defaults) + [k for k in n.args.kw_defaults if k is not None]:
                if not _immutable_default(d):
                    return False
    # 2. no list/dict/set bound at module or class level (apart from __all__)
    def top_level(body):
        for n in body:
            if isinstance(n, ast.ClassDef):
                if not top_level(n.body):
                    return False
            elif isinstance(n, (ast.Assign, ast.AnnAssign)) and n.value is not None:
                tg = n.targets if isinstance(n, ast.Assign) else [n.target]
                names = [t.id for t in tg if isinstance(t, ast.Name)]
                if names != ["__all__"] and _mutable_literal(n.value):
                    return False
        return True
    if not top_level(tree.body):
        return False
    # 3. every Stack(...) call sits in a function and gets a fresh list as `frames`
    funcs = [n for n in tree.body if isinstance(n, (ast.FunctionDef, ast.AsyncFunctionDef))]
    for c in tree.body:
        if isinstance(c, ast.ClassDef):
            funcs += [n for n in c.body if isinstance(n, (ast.FunctionDef, ast.AsyncFunctionDef))]
    in_funcs = set()
    n_calls = 0
    in_extract_child = 0
    for fn in funcs:
        params = {a.arg for a in fn.args.args + fn.args.kwonlyargs + fn.args.posonlyargs}
        if fn.args.vararg:
            params.add(fn.args.vararg.arg)
        if fn.args.kwarg:
            params.add(fn.args.kwarg.arg)
        bound = {}     # name -> list of value expressions (None = bound by something else)
        for x in ast.walk(fn):
            if isinstance(x, ast.Assign):
                for t in x.targets:
                    for nm in ast.walk(t):
                        if isinstance(nm, ast.Name):
                            bound.setdefault(nm.id, []).append(x.value if t is nm else None)
            elif isinstance(x, ast.AnnAssign) and isinstance(x.target, ast.Name) and x.value is not None:
                bound.setdefault(x.target.id, []).append(x.value)
            elif isinstance(x, (ast.For, ast.AsyncFor, ast.comprehension)):
                for nm in ast.walk(x.target):
                    if isinstance(nm, ast.Name):
                        bound.setdefault(nm.id, []).append(None)
            elif isinstance(x, (ast.With, ast.AsyncWith)):
                for it in x.items:
                    if it.optional_vars is not None:
                        for nm in ast.walk(it.optional_vars):
                            if isinstance(nm, ast.Name):
                                bound.setdefault(nm.id, []).append(None)
            elif isinstance(x, ast.NamedExpr) and isinstance(x.target, ast.Name):
                bound.setdefault(x.target.id, []).append(None)
            elif isinstance(x, (ast.Global, ast.Nonlocal)):
                return False
        for x in ast.walk(fn):
            if isinstance(x, ast.Call) and isinstance(x.func, ast.Name) and x.func.id == "Stack":
                in_funcs.add(id(x))
                n_calls += 1
                if fn.name == "extract_child":
                    in_extract_child += 1
                if any(isinstance(a, ast.Starred) for a in x.args) or any(k.arg is None for k in x.keywords):
                    return False
                fr = None
                for k in x.keywords:
                    if k.arg == "frames":
                        fr = k.value
                if fr is None and len(x.args) >= 2:
                    fr = x.args[1]
                if fr is None:
                    return False
                if _fresh_list_expr(fr):
                    continue
                if (isinstance(fr, ast.Name) and fr.id not in params and bound.get(fr.id)
                        and all(v is not None and _fresh_list_expr(v) for v in bound[fr.id])):
                    continue
                return False
    for x in ast.walk(tree):
        if isinstance(x, ast.Call) and isinstance(x.func, ast.Name) and x.func.id == "Stack" and id(x) not in in_funcs:
            return False          # built at module level or inside a nested scope we did not analyse
    return n_calls >= 2 and in_extract_child >= 2


def compute():
    try:
        tree = _parse()
    except Exception:
        return {"c13_options_thread_local": False, "c13_push_restores_in_finally": False,
                "c13_entry_points_push": False, "c13_fresh_result_lists": False}
    out = {}
    for name, fn in (("c13_options_thread_local", thread_local),
                     ("c13_push_restores_in_finally", push_restores),
                     ("c13_entry_points_push", entry_points),
                     ("c13_fresh_result_lists", fresh_result_lists)):
        try:
            out[name] = bool(fn(tree))
        except Exception:
            out[name] = False
    return out
