"""C18 — tree formatting is well-formed; reading it back recovers the Stack's structure.
Correspondence: Stack/Frame/Context trees built directly from stackscope's dataclasses over real
frame objects; Stack.format / Frame.format / Context.format under all 8 option sets; the rendered
lines are compared code point by code point, inside Coq, with the string instance of the model
M_Format (which the theorems of C18.v relate to the structured lines and to read_back)."""
import random

from . import fmt_gen as G

PROP = "C18"
IMPORTS = "From SS Require Import Base M_Format.\nFrom Coq Require Import NArith String.\nOpen Scope string_scope."
KINDS = {"main": dict(imports=IMPORTS, type="fcase", mismatch="mismatches", nontrivial="count_nontrivial")}
SHARD = 40
RULE = ("random Stack trees (depth/width <= 3 quick, <= 4 thorough) over 6 real frames (plain function, method, classmethod, "
        "module without / with empty __name__, non-ASCII names and source), every field drawn independently: root/leaf None or objects "
        "with adversarial reprs (marker look-alikes, blanks, non-ASCII), error None / plain / multi-line / with traceback / chained / containing every str.splitlines() break character (\\r, \\r\\n, \\v, \\f, \\x1c-\\x1e, \\x85, \\u2028, \\u2029; F20, fixed, ordinary cases), "
        "lineno default / 0 / blank line / past EOF, hide, hide_line, contexts with obj x varname x start_line x description x async x "
        "exiting x hide, inner stack, child contexts, child stacks (stub or populated, with or without root); plus the full product of the "
        "context-line fields (as frame context and as child context) and all child sequences of length <= 3 (quick <= 2) over 8 child "
        "shapes for the blank-line rule; each tree is formatted under all 8 option sets, plus Frame.format and Context.format of its first "
        "frame/context. F12 inputs (newline in a payload) carry _sig. distinct = distinct descriptors; non-trivial = some line nested >= 2 markers deep")
CONFIG = dict(
    coq=["C18"], level="proof",
    claim=("Coq theorems about an executable model of Stack/Frame/Context._format (all trees, all option sets): the string composition "
           "with the code's startswith test equals the marker-wise rendering of structured lines, a column-state parser reads the "
           "structured lines back into the tree's visible skeleton (fuel taken from the text, proved sufficient), every element is one newline-terminated line unless a non-error payload contains a newline (F12), ascii_only is the marker-wise image, hidden/show_contexts laws; "
           "tied to the code by byte-for-byte comparison (inside Coq) of format() output on generated trees over real frames, with the "
           "marker table regenerated from _types.py on every run."),
    design_ref="DESIGN.md section 5 C18/C19",
    trusted_base=["model M_Format.v is hand-written from _types.py; reprs, linecache lookups and traceback.format_exception output "
                  "enter the model as inputs computed by the harness (harness/fmt_gen.py), not as modelled behaviour"],
    assumptions=["Frame.clsname/modname/filename/funcname are taken from the frame as stackscope reports them (not part of formatting)",
                 "line numbers are non-negative"],
    unproved_legs=["no full string-level parser is proved: C18_unicode_lex_unique shows that in unicode mode a rendered line "
                   "determines its (marker chain, body) when the body does not start with a marker string and error lines are "
                   "not empty (traceback lines such as '  File ...' do start with two blanks, so this hypothesis is real); the two "
                   "ambiguities found are theorems: C18_lex_blank_refuted (unicode, line level) and C18_ascii_ambiguous_refuted "
                   "(ascii, whole text: start_frame = start_leaf = '+ ')"],
    NOTES=("skeleton identifies inner_stack=None with an empty inner stack and treats child task stacks and child contexts both as "
           "'node = own line + frames/leaf/error + children' (the prefixes do not distinguish them; the texts do). Blank lines are "
           "decoration: a hidden child context between two populated child stacks leaves two blank lines, read_back skips any number."),
    timeout={"quick": 900, "thorough": 5400})


def make_inputs(tier, seed):
    rng = random.Random(seed * 7919 + 18)
    # known finding F12, reproduced deliberately
    yield {"spec": {"root": None, "frames": [], "leaf": ["R", "<ML\nline2>"], "error": None}, "_sig": G.F12}
    yield {"spec": G.wrap_ctx(G._ctx("d1\nd2")), "_sig": G.F12}
    from . import fmt_real
    for name in fmt_real.NAMES:
        yield {"real": name}
    quick = tier == "quick"
    for sp in G.sep_error_specials():
        yield {"spec": sp}
    for sp in G.falsy_specials():
        yield {"spec": sp}
    for sp in G.repeat_specials():
        yield {"spec": sp}
    for i, c in enumerate(G.ctx_field_product()):
        if quick and (i + seed) % 6:
            continue
        yield {"spec": G.wrap_ctx(c, t="f0")}
        yield {"spec": G.wrap_ctx(c, as_child=True, t="uni")}
    for i, s in enumerate(G.blank_rule_specials()):
        if quick and i >= 72 and (i + seed) % 9:
            continue
        yield {"spec": s}
    n = 220 if quick else 3000
    for i in range(n):
        depth = 3 if quick else rng.choice([2, 3, 4])
        width = rng.choice([1, 2, 3]) if quick else rng.choice([1, 2, 3, 4])
        nl = rng.random() < 0.06
        spec = G.gen_stack(rng, depth, width, nl=nl)
        d = {"spec": spec}
        if G.has_newline_payload(spec):
            d["_sig"] = G.F12
        yield d


def _subjects(spec, st):
    out = [("stack", st)]
    if st.frames:
        out.append(("frame", st.frames[0]))
        if st.frames[0].contexts:
            out.append(("ctx", st.frames[0].contexts[0]))
    return out


def run_case(desc):
    st = G.build(desc)
    obs = {"subjects": []}
    for name, x in _subjects(None, st):
        rows = []
        for o in G.OPTION_SETS:
            rows.append(x.format(**o))
        obs["subjects"].append({"what": name, "lines": rows, "str": str(x)})
    # no hidden state: format() again on the same object after summaries / an abandoned summary iterator
    log = []
    with G.history(st, [["flags"], ["abandon", 1]], log):
        again = [[x.format(**o) for o in G.OPTION_SETS] for _, x in _subjects(None, st)]
    obs["again_equal"] = again == [sub["lines"] for sub in obs["subjects"]]
    return obs


def coq_case(desc, obs):
    st = G.build(desc)
    spec = None
    terms = []
    for sub in obs["subjects"]:
        if sub["what"] == "stack":
            subj = "OfStack " + G.c_stack(spec, st)
        elif sub["what"] == "frame":
            subj = "OfFrame " + G.c_frame(None, st.frames[0])
        else:
            # Context.format() has no parent: the start-line lookup is not consulted
            subj = "OfCtx " + G.c_ctx(None, st.frames[0].contexts[0], None)
        rows = G.clist(["(%s, %s)" % (G.copts(o), G.clines(lines)) for o, lines in zip(G.OPTION_SETS, sub["lines"])])
        terms.append("(%s, %s)" % (subj, rows))
    return G.clist(terms)


def direct_oracle(desc, obs):
    if not obs["again_equal"]:
        return "format() of one object changed after summary calls / an abandoned summary iterator on it (hidden state)"
    for sub in obs["subjects"]:
        for o, lines in zip(G.OPTION_SETS, sub["lines"]):
            for l in lines:
                if not l.endswith("\n") or l.count("\n") != 1:
                    return "format(%r) of the %s returned an element that is not one newline-terminated line: %r" % (o, sub["what"], l)
        if sub["str"] != "".join(sub["lines"][0]):
            return "str(%s) is not the concatenation of format()" % sub["what"]
    return None


def classify(desc, obs):
    spec = desc.get("spec") or {"error": None}
    n = len(obs["subjects"][0]["lines"][1])  # unicode, contexts, show hidden
    labs = ["lines=%s" % ("<5" if n < 5 else "<15" if n < 15 else "<40" if n < 40 else ">=40")]
    if desc.get("_sig"):
        labs.append("F12-input")
    if spec["error"]:
        labs.append("error:" + spec["error"][0])
    return labs
