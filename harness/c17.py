"""C17 -- library glue installed exactly once, in time, module-provided beats built-in.

Correspondence: histories of sys.modules insertions / removals / replacements, builtin_glue
registrations and extractions are run against the REAL stackscope._glue (real sys.modules with
throw-away module objects, real builtin_glue_pending, real glue_lock); concurrent cases drive 2-4
real threads through the guarded checkpoints of add_glue_as_needed (STACKSCOPE_VERIF=1).  The
chronological log of glue calls, RuntimeWarnings and returns, the checkpoint reached after every
scheduling step (with glue_lock.locked()) and the final pending table are compared with the Coq
model M_Glue inside Coq.  Direct oracles (implementation alone, ground truth read from the real
sys.modules / module dicts / pending table): at-most-once, never-both, module-preferred,
failure-is-warning, timeliness.
"""
from __future__ import annotations

import itertools
import json
import os
import random
import re

from .common import ROOT, cbool, clist, copt

PROP = "C17"
F4 = "F4_len_cache_remove_then_add"
G1 = "C17G1_builtin_registered_after_import_runs_both"   # fixed in /repo 96b79e1 (F17): a recurrence is a VIOLATION
G2 = "C17G2_builtin_registered_after_module_glue_ran"
KINDS = {"main": dict(imports="From SS Require Import Base M_Glue.", type="glue_case",
                      mismatch="mismatches", nontrivial="count_nontrivial")}
SHARD = 400
RULE = ("sequential histories over 3 module names with ops {extract (through every public entry point, chosen per step), insert (fresh or re-used module object), remove} "
        "for several assignments of glue kinds (module / built-in / both / none / raising) -- exhaustive up to 6 ops in the "
        "thorough tier, strided in quick -- plus random histories (8-24 ops, 4 names) that add registrations at any time, "
        "replacements, odd sys.modules entries at arbitrary scan positions (None, an object without __dict__, modules whose every "
        "attribute access raises ModuleNotFoundError / RuntimeError / ValueError, a non-callable _stackscope_install_glue_), "
        "glue with import side effects and BaseException; two exhaustive kind assignments put such entries (with a pending "
        "built-in) between ordinary modules; concurrent cases: 2-4 real threads, "
        "every scheduling decision (which thread runs to its next checkpoint / next environment op / blocked-probe) taken "
        "from an enumerated or random choice list. distinct = distinct descriptors; non-trivial = the model run calls at "
        "least one glue function")
CONFIG = dict(
    coq=["C17"], level="proof",
    claim=("Coq theorems (all schedules of any number of threads, all histories) about an executable micro-step model of "
           "add_glue_as_needed/builtin_glue whose guard/lock/pop structure is regenerated from the source; the model is tied "
           "to the code by differential comparison evaluated inside Coq on histories and checkpoint-driven schedules run "
           "against the real sys.modules / glue_lock."),
    design_ref="DESIGN.md section 5 C17",
    trusted_base=["model M_Glue.v is hand-written; dict operations (pop, item assignment, len, tuple(sys.modules)) are "
                  "taken to be atomic under the GIL",
                  "the harness' scheduling controller (threads parked on semaphores inside _verif.hook)"],
    assumptions=["an extraction op of a history is a call of one of the public entry points extract, extract_outermost, "
                 "extract_since(None|frame), extract_until(frame, None|int|frame), a re-entrant extract_child from inside an "
                 "unwrap hook (two calls of the installation routine), or add_glue_as_needed itself; fill_context() outside an "
                 "extraction performs no scan in the clean code and is modelled as no step",
                 "'sphinx' is not in sys.modules; warnings are not turned into errors (no -W error)",
                 "all other modules of the process carry no pending glue while a case runs (ensured by a warm-up scan)",
                 "a module's _stackscope_install_glue_ is present when the module is inserted (not added later)"],
    unproved_legs=["liveness of a scan under interleaving ('the scanning thread eventually writes the cache') is proved only for "
                   "the thread running on its own (C17_failure_scan_completes); the safety consequences (timeliness for "
                   "module-provided and built-in glue, cache soundness, mutual exclusion, containment of BaseException) are "
                   "proved for all schedules"],
    NOTES=("Deviation from DESIGN: the two pops of one loop iteration are ONE model step (no checkpoint separates them, so "
           "no schedule between them can be realised against the code); never_both is stated for histories whose "
           "builtin_glue registrations all precede the first extraction (built-in glue is registered when stackscope is "
           "imported); a registration after the module's own glue already ran still runs the built-in too (candidate "
           "finding C17-G2, outside that space)."),
    timeout={"quick": 900, "thorough": 5400},
)

NNAME = "_c17_m%d"
_WARN = re.compile(r"^Failed to initialize (module-provided|stackscope-builtin) glue for _c17_m(\d+): ")


# =============================================================== static predicates on descriptors
def _all_ops(desc):
    if desc["mode"] == "seq":
        return list(desc["ops"])
    return list(desc.get("setup", [])) + list(desc.get("envq", []))


def _effects(desc):
    out = []
    for o in desc["objs"]:
        if o[0] == "mod" and o[1]:
            out += o[1][1]
    for f in desc["bfns"]:
        out += f[1]
    return out


def f4_pattern(desc) -> bool:
    """signature of finding F4: between two extractions a module is removed (or replaced) and a
    module is inserted.  Concurrent cases / side effects: any removal at all (conservative)."""
    eff = _effects(desc)
    if any(e[0] == "R" for e in eff):
        return True
    # a glue function that re-binds a name which some other op binds to a different module object
    # replaces a module while a scan may be running (replacement = removal + insertion, len unchanged)
    byname = {}
    for op in _all_ops(desc) + eff:
        if op[0] == "I":
            byname.setdefault(op[1], set()).add(op[2])
    if any(e[0] == "I" and len(byname[e[1]]) > 1 for e in eff):
        return True
    if desc["mode"] != "seq":
        present = {}
        for op in _all_ops(desc):
            if op[0] == "R":
                return True
            if op[0] == "I":
                if op[1] in present and present[op[1]] != op[2]:
                    return True
                present[op[1]] = op[2]
        # effects may replace
        return any(e[0] == "I" and e[1] in present and present[e[1]] != e[2] for e in eff)
    present = {}
    rem = ins = False
    for op in desc["ops"]:
        if op[0] == "I":
            if op[1] in present:
                if present[op[1]] != op[2]:
                    rem = ins = True
            else:
                ins = True
            present[op[1]] = op[2]
        elif op[0] == "R":
            if op[1] in present:
                rem = True
                del present[op[1]]
        elif op[0] == "X":
            if rem and (ins or eff):
                return True
            rem = ins = False
    return False


def late_reg(desc) -> bool:
    """some builtin_glue registration happens after an extraction has started (outside the property's
    space: built-in glue is registered when stackscope is imported)"""
    seen_x = False
    for op in _all_ops(desc):
        if op[0] == "X":
            seen_x = True
        elif op[0] == "G" and seen_x:
            return True
    return False


_known = None


def _known_sigs():
    global _known
    if _known is None:
        try:
            _known = {e["signature"] for e in json.load(open(os.path.join(ROOT, "known_findings.json")))
                      if e["property"] == PROP and e["kind"] == "known"}
        except Exception:
            _known = set()
    return _known


# =============================================================== the implementation side
class GlueErr(Exception):
    pass


class GlueBase(BaseException):
    pass


class _Env:
    """process-wide real state, prepared once per child process"""

    def __init__(self):
        import sys
        import threading
        import types
        import warnings
        import stackscope
        from stackscope import _glue, _verif
        self.sys, self.threading, self.types, self.warnings = sys, threading, types, warnings
        self.ss, self.glue, self.verif = stackscope, _glue, _verif
        assert "sphinx" not in sys.modules
        assert _verif.ENABLED, "STACKSCOPE_VERIF=1 required"
        kd = getattr(_glue.add_glue_as_needed, "__kwdefaults__", None) or {}
        self.cache = kd.get("_sys_modules_len_cache")
        # warm-up: real glue of everything imported so far, lazy imports of the warning path
        self.purge()
        stackscope.extract(sys._getframe())
        _glue.add_glue_as_needed()
        with warnings.catch_warnings():
            warnings.simplefilter("ignore")

            def boom():
                raise GlueErr("warm-up")
            _glue.builtin_glue_pending["_c17_warm"] = boom
            sys.modules["_c17_warm"] = None
            try:
                _glue.add_glue_as_needed()
                stackscope.extract(sys._getframe())
            except Exception:
                pass              # shows up in the cases with a raising glue
            del sys.modules["_c17_warm"]
            _glue.builtin_glue_pending.pop("_c17_warm", None)
            _glue.add_glue_as_needed()
        # every entry point once (lazy imports, singledispatch caches, the re-entrant probe's registration)
        case0 = _Case.__new__(_Case)
        case0.env, case0.desc = self, {"via": "direct"}
        for ep in EP_LIST:
            case0.extraction(ep)
        self.fill_probe()
        _glue.add_glue_as_needed()
        self.saved_pending = dict(_glue.builtin_glue_pending)
        self.base = len(sys.modules)

    def child_probe(self, frame):
        if getattr(self, "_probe_cls", None) is None:
            ss = self.ss

            class ChildProbe(object):
                def __init__(self, fr):
                    self.fr = fr

            @ss.unwrap_stackitem.register(ChildProbe)
            def _unwrap_probe(obj):
                ss.extract_child(obj.fr, for_task=False)
                return obj.fr
            self._probe_cls = ChildProbe
        return self._probe_cls(frame)

    def fill_probe(self):
        import contextlib
        from stackscope import Context
        self.ss.fill_context(Context(obj=contextlib.nullcontext(), is_async=False))

    def purge(self):
        for k in [k for k in self.sys.modules if k.startswith("_c17_")]:
            del self.sys.modules[k]

    def reset(self, scanned: bool):
        g = self.glue
        self.verif.hook = None
        self.purge()
        g.builtin_glue_pending.clear()
        g.builtin_glue_pending.update(self.saved_pending)
        if g.glue_lock.locked():
            raise RuntimeError("glue_lock left locked by the previous case")
        # black-box way to a consistent 'just scanned' state whatever the cache holds
        self.sys.modules["_c17_dummy"] = None
        g.add_glue_as_needed()
        del self.sys.modules["_c17_dummy"]
        g.add_glue_as_needed()
        if len(self.sys.modules) != self.base:
            raise RuntimeError("number of foreign modules changed: %d -> %d" % (self.base, len(self.sys.modules)))
        if not scanned:
            if self.cache is None:
                raise RuntimeError("cannot reach the never-scanned state: _sys_modules_len_cache default not found")
            self.cache[0] = 0


_ENV = None


def _env():
    global _ENV
    if _ENV is None:
        _ENV = _Env()
    return _ENV


ODD = ("nodict", "slots", "lazy")     # entries without a usable __dict__: no module-provided glue (model: ONoDict)
_LAZY_EXC = {"import": ModuleNotFoundError, "runtime": RuntimeError, "value": ValueError}


def _make_object(env, case, o, spec):
    """the real sys.modules entry for an object spec:
    ["mod", glue|None]  ordinary module, optionally with _stackscope_install_glue_
    ["nodict"]          None (import blocked)
    ["slots"]           an object without __dict__
    ["lazy", exc]       a module whose every attribute access (incl. __dict__) raises exc, like a
                        LazyLoader module whose deferred import fails
    ["badglue"]         a module whose _stackscope_install_glue_ is not callable (the routine pops it, the
                        'call' raises TypeError: modelled as a module glue that raises)"""
    kind = spec[0]
    if kind == "nodict":
        return None
    if kind == "slots":
        class Slotted(object):
            __slots__ = ()
        return Slotted()
    if kind == "lazy":
        exc = _LAZY_EXC[spec[1]]

        class Lazy(env.types.ModuleType):
            def __getattribute__(self, attr):
                if attr in ("__class__", "__name__"):
                    return object.__getattribute__(self, attr)
                raise exc("deferred import of %s failed" % object.__getattribute__(self, "__name__"))
        return Lazy("_c17_obj%d" % o)
    m = env.types.ModuleType("_c17_obj%d" % o)
    if kind == "badglue":
        m._stackscope_install_glue_ = 42
    elif spec[1] is not None:
        m._stackscope_install_glue_ = case._mkfn("M", o, spec[1])
    return m


def _mspec(objs, o):
    """glue behaviour of object o as the model sees it"""
    sp = objs[o]
    if sp[0] == "badglue":
        return ["raise", []]
    return sp[1] if sp[0] == "mod" else None


class _Case:
    def __init__(self, env, desc):
        self.env, self.desc = env, desc
        self.log = []            # chronological events
        self.bcur = {}           # log index of a built-in call -> object id under that name at call time
        self.objs = {}
        self.objid = {}
        self.nreg = 0
        self.callname = {}       # thread ident -> name of the last glue:call checkpoint
        self.untimely = []
        # observed counterpart of the model's ghost flags (hypothesis no_removal_since_last_scan of C17_timely):
        # a module was removed / replaced since the snapshot the cache value stems from / since the snapshot of
        # the scan in progress.  Set by every removal (history op or glue side effect), reset at glue:locked,
        # copied at glue:scanned.
        self.dirty_cache = False
        self.dirty_snap = False
        self.in_op = None        # thread id (model) of the sequential extraction op in progress
        self.enters = 0          # calls of add_glue_as_needed seen in that op
        self.escaped = []        # types of exceptions (other than the glue's own) that escaped an extraction
        self.present = {}
        for o, spec in enumerate(desc["objs"]):
            m = _make_object(env, self, o, spec)
            self.objs[o] = m
            if m is not None:
                self.objid[id(m)] = o

    # ---- glue functions
    def _mkfn(self, kind, ident, spec, imm_name=None):
        beh, eff = spec

        def fn():
            if imm_name is not None:
                cur = self.env.sys.modules.get(NNAME % imm_name)
                self.bcur[len(self.log)] = self.objid.get(id(cur)) if cur is not None else None
                self.log.append(["I", ident, imm_name])
            else:
                nm = self.callname.get(self.env.threading.get_ident(), -1)
                if kind == "B":
                    cur = self.env.sys.modules.get(NNAME % nm) if nm >= 0 else None
                    self.bcur[len(self.log)] = self.objid.get(id(cur)) if cur is not None else None
                self.log.append([kind, ident, nm])
            for e in eff:
                self.env_op(e)
            if beh == "raise":
                raise GlueErr("glue %s%d" % (kind, ident))
            if beh == "base":
                raise GlueBase("glue %s%d" % (kind, ident))
        return fn

    # ---- environment operations
    def env_op(self, op):
        sysm = self.env.sys.modules
        if op[0] == "I":
            old = sysm.get(NNAME % op[1], self)
            if old is not self and old is not self.objs[op[2]]:
                self.dirty_cache = self.dirty_snap = True       # replacement = removal + insertion
            sysm[NNAME % op[1]] = self.objs[op[2]]
        elif op[0] == "R":
            if (NNAME % op[1]) in sysm:
                self.dirty_cache = self.dirty_snap = True
            sysm.pop(NNAME % op[1], None)
        elif op[0] == "G":
            n = op[1]
            f = self.nreg
            self.nreg += 1
            spec = self.desc["bfns"][f] if f < len(self.desc["bfns"]) else ["ok", []]
            # the function logs itself as 'I' (immediate) only while the registration is running
            holder = {"imm": True}
            case = self

            def make():
                inner_imm = case._mkfn("B", f, spec, imm_name=n)
                inner_scan = case._mkfn("B", f, spec)

                def fn():
                    return inner_imm() if holder["imm"] else inner_scan()
                return fn
            fn = make()
            try:
                self.env.glue.builtin_glue(NNAME % n)(fn)
            except AssertionError:
                self.log.append(["A", n])
            except (GlueErr, GlueBase):
                pass
            holder["imm"] = False
        else:
            raise ValueError(op)

    # ---- hooks
    def hook_record(self, tag, info):
        if tag == "glue:enter" and self.in_op is not None:
            self.enters += 1
            if self.enters >= 2:
                self.log.append(["R", self.in_op, True])
        if tag == "glue:locked":
            self.dirty_snap = False
        elif tag == "glue:scanned":
            self.dirty_cache = self.dirty_snap
        if tag == "glue:call":
            nm = info.get("name", "")
            self.callname[self.env.threading.get_ident()] = int(nm[6:]) if nm.startswith("_c17_m") else -1

    def showwarning(self, message, category, filename, lineno, file=None, line=None):
        m = _WARN.match(str(message))
        if m and category is RuntimeWarning:
            modkind, n = m.group(1) == "module-provided", int(m.group(2))
            if modkind and not (self.log and self.log[-1][0] == "M" and self.log[-1][2] == n):
                # nothing logged itself as called: the attribute was not callable (TypeError);
                # abstraction: the attempted call of object o is a call that raises
                cur = self.env.sys.modules.get(NNAME % n)
                o = self.objid.get(id(cur)) if cur is not None else None
                if o is not None and self.desc["objs"][o][0] == "badglue" and "TypeError" in str(message):
                    self.log.append(["M", o, n])
            self.log.append(["W", modkind, n])
        else:
            self.log.append(["W?", str(category), str(message)[:80]])

    # ---- ground truth for the timeliness oracle, read from the real state
    def expected_at_start(self):
        exp = []
        sysm, pend = self.env.sys.modules, self.env.glue.builtin_glue_pending
        for k in list(sysm):
            if not k.startswith("_c17_m"):
                continue
            n = int(k[6:])
            obj = sysm[k]
            try:
                d = obj.__dict__
            except Exception:
                d = None
            if isinstance(d, dict) and callable(d.get("_stackscope_install_glue_")):
                exp.append(["M", self.objid[id(obj)], n])
            elif k in pend:
                exp.append(["B", None, n])   # identity resolved through the log (any built-in call for n)
        return exp

    def check_timely(self, exp, xid):
        exp, dirty0 = exp
        # F4, semantically: the cache value the fast path compares with stems from a snapshot since which a
        # module was removed or replaced (however that came about: history op, glue side effect, other thread)
        f4 = bool(dirty0 or self.dirty_cache or self.dirty_snap)
        for kind, ident, n in exp:
            cur = self.env.sys.modules.get(NNAME % n, self)
            if kind == "M" and (cur is self or self.objid.get(id(cur)) != ident):
                continue          # the module was removed / replaced while the extraction ran: no obligation
            if kind == "B" and cur is self:
                continue
            if kind == "M":
                ok = any(e[0] == "M" and e[1] == ident for e in self.log)
            else:
                ok = any(e[0] in ("B", "I") and e[2] == n for e in self.log) or \
                    any(e[0] == "M" and e[2] == n for e in self.log)  # built-in legitimately dropped
            if not ok:
                self.untimely.append([xid, kind, ident, n, f4])

    def extraction(self, ep=None):
        """one extraction through the public entry point `ep` (default: the descriptor's `via`)"""
        env, ss, sysm = self.env, self.env.ss, self.env.sys
        ep = ep or ("extract" if self.desc.get("via") == "extract" else "direct")
        f = sysm._getframe()
        if ep == "direct":
            env.glue.add_glue_as_needed()
        elif ep == "extract":
            ss.extract(f)
        elif ep == "outermost":
            ss.extract_outermost(f)
        elif ep == "since_none":
            ss.extract_since(None)
        elif ep == "since_frame":
            ss.extract_since(f)
        elif ep == "until_none":
            ss.extract_until(f, limit=None)
        elif ep == "until_int":
            ss.extract_until(f, limit=1)
        elif ep == "until_frame":
            ss.extract_until(f, limit=f.f_back)
        elif ep == "child":
            ss.extract(env.child_probe(f))          # its unwrap hook calls extract_child(): a re-entrant extraction
        else:
            raise ValueError(ep)


# public entry points an extraction op ranges over, and the number of calls of the installation
# routine each performs ("child": the outer extract() and the nested extract_child())
ENTRY_POINTS = {"direct": 1, "extract": 1, "outermost": 1, "since_none": 1, "since_frame": 1,
                "until_none": 1, "until_int": 1, "until_frame": 1, "child": 2}
EP_LIST = ["extract", "outermost", "since_none", "since_frame", "until_none", "until_int", "until_frame", "child", "direct"]


def _run_seq(env, case, desc):
    labels, stops = [], []
    xid = 0
    for op in desc["ops"]:
        if op[0] == "X":
            ep = op[1] if len(op) > 1 else None
            nexp = ENTRY_POINTS[ep] if ep else 1
            exp = (case.expected_at_start(), case.dirty_cache or case.dirty_snap)
            ok = True
            case.in_op, case.enters = 0, 0
            try:
                case.extraction(ep)
            except (GlueBase, GlueErr):
                ok = False
            except Exception as ex:       # anything else that escapes extract() is an observation, not a harness error
                ok = False
                case.escaped.append(type(ex).__name__)
            finally:
                case.in_op = None
            case.log.append(["R", 0, ok])
            if ok:
                case.check_timely(exp, xid)
            xid += 1
            # the model performs one whole call of the routine per expected call of this entry point
            # (an escaping exception ends the op after the calls actually begun)
            ncalls = nexp if ok else max(1, min(case.enters, nexp))
            for i in range(ncalls):
                labels.append(["F", 0])
                stops.append([6, 1 if (ok or i < ncalls - 1) else 0, False])
        elif op[0] == "FC":
            # fill_context() outside an extraction: NOT an extraction -- the clean code performs no scan
            # (model: no step); a scan observed here is logged and then disagrees with the model
            case.in_op, case.enters = 0, 0
            try:
                env.fill_probe()
            finally:
                n, case.in_op = case.enters, None
            if n:
                case.log.append(["R", 0, True])
        else:
            case.env_op(op)
            labels.append(["E", op])
    return labels, stops


TAGS = {"glue:enter": 0, "glue:slowpath": 1, "glue:locked": 2, "glue:module": 3, "glue:call": 4, "glue:scanned": 5}


def _run_conc(env, case, desc):
    th = env.threading
    k = desc["nthreads"]
    rep = [th.Semaphore(0) for _ in range(k)]
    go = [th.Semaphore(0) for _ in range(k)]
    status = [("idle",)] * k          # ("idle",) | ("at", tag, name) | ("done", ok) | ("flying",)
    remaining = list(desc["nx"])
    cmd = [None] * k
    ident2t = {}
    errors = []

    def hook(tag, info):
        case.hook_record(tag, info)
        t = ident2t.get(th.get_ident())
        if t is None or tag not in TAGS:
            return
        nm = info.get("name", "")
        status[t] = ("at", TAGS.get(tag, 99), int(nm[6:]) if nm.startswith("_c17_m") else 0)
        rep[t].release()
        go[t].acquire()

    def worker(t):
        ident2t[th.get_ident()] = t
        while True:
            go[t].acquire()
            if cmd[t] == "quit":
                return
            ok = True
            try:
                case.extraction()
            except (GlueBase, GlueErr):
                ok = False
            except Exception as ex:
                ok = False
                case.escaped.append(type(ex).__name__)
            except BaseException as ex:  # fail closed
                errors.append(repr(ex))
                ok = False
            case.log.append(["R", t, ok])
            status[t] = ("done", ok)
            rep[t].release()

    threads = [th.Thread(target=worker, args=(t,), daemon=True) for t in range(k)]
    for x in threads:
        x.start()
    labels, stops = [], []
    for op in desc.get("setup", []):
        if op[0] == "X":
            ok = True
            try:
                case.extraction()
            except (GlueBase, GlueErr):
                ok = False
            except Exception as ex:
                ok = False
                case.escaped.append(type(ex).__name__)
            case.log.append(["R", 9, ok])
            labels.append(["F", 9])
            stops.append([6, 1 if ok else 0, False])
        else:
            case.env_op(op)
            labels.append(["E", op])
    env.verif.hook = hook
    envq = list(desc.get("envq", []))
    holder = [None]
    flying = [None]
    started_exp = {}

    def wait_report(t, timeout=20.0):
        if not rep[t].acquire(timeout=timeout):
            raise RuntimeError("thread %d did not reach a checkpoint within %ss (deadlock?)" % (t, timeout))

    def record_stop(t):
        s = status[t]
        if s[0] == "at":
            if s[1] == 2:
                holder[0] = t
            stops.append([s[1], s[2], bool(env.glue.glue_lock.locked())])
        elif s[0] == "done":
            if holder[0] == t:
                holder[0] = None
            stops.append([6, 1 if s[1] else 0, False])
            if s[1] and t in started_exp:
                case.check_timely(started_exp.pop(t), "t%d" % t)
            started_exp.pop(t, None)

    def run_thread(t):
        if status[t][0] in ("idle", "done"):
            remaining[t] -= 1
            started_exp[t] = (case.expected_at_start(), case.dirty_cache or case.dirty_snap)
            cmd[t] = "extract"
        go[t].release()
        wait_report(t)
        labels.append(["T", t])
        record_stop(t)
        if flying[0] is not None and holder[0] is None:
            f = flying[0]
            flying[0] = None
            wait_report(f)
            labels.append(["T", f])
            record_stop(f)

    def actions():
        acts = []
        for t in range(k):
            s = status[t]
            if flying[0] == t:
                continue
            if s[0] in ("idle", "done"):
                if remaining[t] > 0:
                    acts.append(("run", t))
            elif s[0] == "at":
                blocked = s[1] == 1 and env.glue.glue_lock.locked()
                if not blocked:
                    acts.append(("run", t))
                elif desc.get("probe") and flying[0] is None:
                    acts.append(("probe", t))
        if envq:
            acts.append(("env",))
        return acts

    def do(act):
        if act[0] == "run":
            run_thread(act[1])
        elif act[0] == "env":
            op = envq.pop(0)
            case.env_op(op)
            labels.append(["E", op])
        else:
            t = act[1]
            go[t].release()
            if rep[t].acquire(timeout=0.08):
                # it was NOT blocked: the lock did not exclude it
                labels.append(["B", t])
                stops.append([99, 0, False])
                record_stop(t)
            else:
                flying[0] = t
                labels.append(["B", t])
                stops.append([1, 0, True])

    try:
        for c in desc["choices"]:
            acts = actions()
            if not acts:
                break
            do(acts[c % len(acts)])
        for _ in range(10000):
            acts = [a for a in actions() if a[0] != "probe"]
            if not acts:
                break
            pref = [a for a in acts if a[0] == "run" and holder[0] == a[1]] or acts
            do(pref[0])
        else:
            raise RuntimeError("drain did not terminate")
        if flying[0] is not None:
            raise RuntimeError("a probed thread is still blocked at the end")
    finally:
        env.verif.hook = None
        for t in range(k):
            cmd[t] = "quit"
            go[t].release()
        for x in threads:
            x.join(2.0)
    if errors:
        raise RuntimeError("unexpected exception in a worker: %s" % errors[:2])
    return labels, stops


def run_case(desc):
    env = _env()
    env.reset(desc.get("scanned", True))
    case = _Case(env, desc)
    w = env.warnings
    try:
        with w.catch_warnings():
            w.simplefilter("always")
            w.showwarning = case.showwarning
            env.verif.hook = case.hook_record
            if desc["mode"] == "seq":
                labels, stops = _run_seq(env, case, desc)
            else:
                labels, stops = _run_conc(env, case, desc)
        pend = env.glue.builtin_glue_pending
        names = sorted({op[1] for op in _all_ops(desc) + _effects(desc) if op[0] in ("I", "R", "G")})
        final = [[n, (NNAME % n) in pend] for n in names]
    finally:
        env.verif.hook = None
        env.purge()
        env.glue.builtin_glue_pending.clear()
        env.glue.builtin_glue_pending.update(env.saved_pending)
    return {"log": case.log, "labels": labels, "stops": stops, "final": final,
            "bcur": {str(k): v for k, v in case.bcur.items()}, "untimely": case.untimely, "escaped": case.escaped}


# =============================================================== direct oracles (implementation alone)
def _oracle(desc, obs):
    """-> {class: message}"""
    out = {}
    log = obs["log"]
    seen = set()
    for e in log:
        if e[0] in ("M", "B", "I"):
            key = ("M" if e[0] == "M" else "B", e[1])
            if key in seen:
                out.setdefault("once", "glue function %s%d was called twice" % key)
            seen.add(key)
        if e[0] == "W?":
            out.setdefault("warn", "unexpected warning: %r" % (e,))
    objs = desc["objs"]
    for i, e in enumerate(log):
        if e[0] == "B":
            cur = obs["bcur"].get(str(i))
            # the object is read at call time; under a concurrent removal/replacement between the visit
            # and the call (possible at the glue:call checkpoint) it is not the object the routine looked at
            if cur is not None and not (desc["mode"] == "conc" and f4_pattern(desc)):
                if any(x[0] == "M" and x[1] == cur and x[2] == e[2] for x in log):
                    out.setdefault("both", "module object %d (name %d) got its own glue AND built-in glue %d" % (cur, e[2], e[1]))
                if _mspec(objs, cur) is not None and not any(x[0] == "M" and x[1] == cur for x in log[:i]):
                    out.setdefault("prefers", "built-in glue %d ran for name %d although module object %d offered its own glue"
                                   % (e[1], e[2], cur))
        if e[0] == "I":
            # registration ran the built-in at once: that module object must not (ever) run its own glue
            cur = obs["bcur"].get(str(i))
            if cur is not None and any(x[0] == "M" and x[1] == cur and x[2] == e[2] for x in log):
                out.setdefault("both", "built-in glue %d ran at registration for name %d and module object %d ran its own glue"
                               % (e[1], e[2], cur))
        if e[0] in ("M", "B"):
            spec = _mspec(objs, e[1]) if e[0] == "M" else (desc["bfns"][e[1]] if e[1] < len(desc["bfns"]) else ["ok", []])
            if spec[0] == "raise":
                nxt = log[i + 1] if i + 1 < len(log) else None
                if nxt != ["W", e[0] == "M", e[2]]:
                    out.setdefault("warn", "raising glue %s%d was not followed by its warning (next event %r)" % (e[0], e[1], nxt))
    # an extraction fails only if a BaseException glue ran in it
    for i, e in enumerate(log):
        if e[0] == "R" and not e[2]:
            prev = log[i - 1] if i else None
            spec = None
            if prev and prev[0] == "M":
                spec = _mspec(objs, prev[1])
            elif prev and prev[0] == "B":
                spec = desc["bfns"][prev[1]] if prev[1] < len(desc["bfns"]) else None
            if not spec or spec[0] != "base":
                out.setdefault("warn", "an exception escaped from the extraction (event %d) without a BaseException glue" % i)
    if obs.get("escaped"):
        out["warn"] = "extract() raised %s: the scan was abandoned (a sys.modules entry must never make extraction fail)" % obs["escaped"][0]
    unt = obs["untimely"] if desc.get("only") == "timely" else [x for x in obs["untimely"] if not (len(x) > 4 and x[4])]
    if unt:
        x = unt[0]
        out["timely"] = ("glue %s of module name %d was present and pending when extraction %s started but had not run "
                         "when it returned" % (x[1], x[3], x[0]))
    return out


def direct_oracle(desc, obs):
    res = _oracle(desc, obs)
    only = desc.get("only")
    if only:                       # oracle-only twin of a signature-carrying history
        msg = res.get(only)
        if msg and desc.get("_sig") not in _known_sigs():
            return None            # candidate finding not (yet) recorded: reported in the builder's notes, not here
        return msg
    if f4_pattern(desc):
        res.pop("timely", None)
    if late_reg(desc):
        res.pop("both", None)
    for k in ("once", "both", "prefers", "warn", "timely"):
        if k in res:
            return res[k]
    return None


def classify(desc, obs):
    labs = [desc["mode"] + ":" + desc.get("gen", "?")]
    if desc.get("only"):
        labs.append("twin:" + desc["_sig"] + (":reproduced" if _oracle(desc, obs).get(desc["only"]) else ":not-reproduced"))
    ncall = sum(1 for e in obs["log"] if e[0] in ("M", "B", "I"))
    labs.append("calls=%d" % min(ncall, 6))
    if any(e[0] == "W" for e in obs["log"]):
        labs.append("warned")
    if desc["mode"] == "conc":
        labs.append("threads=%d" % desc["nthreads"])
    return labs


# =============================================================== Gallina
def _c_ir(e):
    return "(IIns %d %d)" % (e[1], e[2]) if e[0] == "I" else "(IRem %d)" % e[1]


def _c_fn(spec):
    beh = {"ok": "BOk", "raise": "BRaise", "base": "BBase"}[spec[0]]
    return "(mkfn %s %s)" % (beh, clist([_c_ir(e) for e in spec[1]]))


def _c_env(op):
    if op[0] == "G":
        return "(EReg %d)" % op[1]
    return "(EIR %s)" % _c_ir(op)


def _c_label(l):
    if l[0] == "E":
        return "CEnv %s" % _c_env(l[1])
    return {"T": "CRun %d", "F": "CFull %d", "B": "CBlocked %d"}[l[0]] % l[1]


def _c_ev(e):
    if e[0] == "M":
        return "OCallM %d %d" % (e[1], e[2])
    if e[0] == "B":
        return "OCallB %d %d" % (e[1], e[2])
    if e[0] == "I":
        return "OImm %d %d" % (e[1], e[2])
    if e[0] == "W":
        return "OWarn %s %d" % (cbool(e[1]), e[2])
    if e[0] == "A":
        return "OAssert %d" % e[1]
    if e[0] == "R":
        return "ORet %d %s" % (e[1], cbool(e[2]))
    return "OAssert 999"    # unparseable warning: can never match the model


def coq_case(desc, obs):
    if desc.get("only"):
        return None
    if any(e[0] in ("M", "B") and e[2] < 0 for e in obs["log"]):
        obs = dict(obs, log=[["A", 998]])
    objs = clist(["ONoDict" if o[0] in ODD else "OMod %s" % copt(_c_fn(_mspec(desc["objs"], i)) if _mspec(desc["objs"], i) is not None else None)
                  for i, o in enumerate(desc["objs"])])
    bfns = clist([_c_fn(f) for f in desc["bfns"]])
    return "mkcase (mkworld 1 %s %s) %s\n  %s\n  %s\n  %s %s" % (
        objs, bfns, cbool(desc.get("scanned", True)),
        clist([_c_label(l) for l in obs["labels"]]),
        clist([_c_ev(e) for e in obs["log"]]),
        clist(["Stop %d %d %s" % (s[0], s[1], cbool(s[2])) for s in obs["stops"]]),
        clist(["(%d, %s)" % (n, cbool(b)) for n, b in obs["final"]]))


# =============================================================== generators
KINDSETS = [("MB", "B", "M"), ("M", "Mr", "Br"), ("B", "N", "MB"), ("LzB", "M", "SlB"), ("Bad", "LvB", "MB")]


def _kind_spec(kind):
    """-> (object spec, built-in spec | None)"""
    ok = ["ok", []]
    return {"M": (["mod", ok], None), "B": (["mod", None], ok), "MB": (["mod", ok], ok), "N": (["mod", None], None),
            "Mr": (["mod", ["raise", []]], None), "Br": (["mod", None], ["raise", []]),
            # odd sys.modules entries, with a pending built-in that must still run exactly once
            "LzB": (["lazy", "import"], ok), "LvB": (["lazy", "value"], ok), "SlB": (["slots"], ok),
            "Bad": (["badglue"], None)}[kind]


def history_case(word, kinds, reuse, via="direct", gen="exh"):
    """word: tuple of 'X' | ('I', n) | ('R', n); built-in kinds are registered up front"""
    objs, bfns, ops = [], [], []
    for n, kd in enumerate(kinds):
        if _kind_spec(kd)[1] is not None:
            ops.append(["G", n])
            bfns.append(_kind_spec(kd)[1])
    per_name = {}
    for sym in word:
        if sym == "X":
            ops.append(["X", EP_LIST[(len(ops) + len(word) + sum(1 for k in kinds if "B" in k)) % len(EP_LIST)]]
                       if via == "mixed" else ["X"])
        elif sym[0] == "I":
            n = sym[1]
            if reuse and n in per_name:
                o = per_name[n]
            else:
                o = len(objs)
                objs.append(list(_kind_spec(kinds[n])[0]))
                per_name[n] = o
            ops.append(["I", n, o])
        else:
            ops.append(["R", sym[1]])
    return {"mode": "seq", "via": "direct" if via == "mixed" else via, "scanned": True, "objs": objs, "bfns": bfns,
            "ops": ops, "gen": gen + ("-eps" if via == "mixed" else "")}


def words(maxlen, names=3):
    alph = ["X"] + [("I", n) for n in range(names)] + [("R", n) for n in range(names)]
    for ln in range(1, maxlen + 1):
        for w in itertools.product(alph, repeat=ln - 1):
            # prune removals of names that are absent (no-ops)
            present = set()
            ok = True
            for s in w:
                if s == "X":
                    continue
                if s[0] == "I":
                    present.add(s[1])
                elif s[1] not in present:
                    ok = False
                    break
                else:
                    present.discard(s[1])
            if ok:
                yield w + ("X",)


def with_twins(d, stride_state=[0]):
    """the history itself plus, where a finding signature applies, oracle-only twins carrying it"""
    yield d
    if f4_pattern(d):
        stride_state[0] += 1
        if d.get("gen") != "exh" or stride_state[0] % 7 == 0:
            yield dict(d, _sig=F4, only="timely")
    if late_reg(d):
        yield dict(d, _sig=G2, only="both")


def rand_fn(rng, nn, no, p_eff=0.2):
    beh = rng.choices(["ok", "raise", "base"], [0.7, 0.22, 0.08])[0]
    eff = []
    if rng.random() < p_eff:
        for _ in range(rng.randint(1, 2)):
            if rng.random() < 0.85:
                eff.append(["I", rng.randrange(nn), rng.randrange(no)])
            else:
                eff.append(["R", rng.randrange(nn)])
    return [beh, eff]


def random_history(rng, nn=4, via="direct"):
    """half of the histories are 'clean' (no removal, one module object per name, registrations only
    for names not yet inserted) so that the timeliness and never-both oracles apply to them"""
    clean = rng.random() < 0.5
    no = rng.randint(3, 7)
    objs = []
    for _ in range(no):
        r = rng.random()
        objs.append(["nodict"] if r < 0.05 else ["slots"] if r < 0.09 else
                    ["lazy", rng.choice(["import", "runtime", "value"])] if r < 0.18 else
                    ["badglue"] if r < 0.22 else ["mod", None] if r < 0.36 else ["mod", rand_fn(rng, nn, no)])
    bfns = [rand_fn(rng, nn, no) for _ in range(6)]
    fixed = {}
    if clean:
        def fix(eff):
            return [["I", e[1], fixed.setdefault(e[1], e[2])] for e in eff if e[0] == "I"]
        for o in objs:
            if o[0] == "mod" and o[1]:
                o[1][1] = fix(o[1][1])
        for f in bfns:
            f[1] = fix(f[1])
    ever = set(fixed)
    ops = []
    nreg = 0
    for _ in range(rng.randint(8, 24)):
        r = rng.random()
        if r < 0.3:
            ops.append(["X", rng.choice(EP_LIST)] if rng.random() < 0.7 else ["X"])
            if rng.random() < 0.1:
                ops.append(["FC"])
        elif r < 0.65 or (clean and r < 0.8):
            n, o = rng.randrange(nn), rng.randrange(no)
            if clean:
                o = fixed.setdefault(n, o)
            ever.add(n)
            ops.append(["I", n, o])
        elif r < 0.8:
            ops.append(["R", rng.randrange(nn)])
        elif nreg < 6:
            n = rng.randrange(nn + 2)
            if clean and n in ever:
                continue
            ops.append(["G", n])
            nreg += 1
    ops.append(["X", rng.choice(EP_LIST)])
    return {"mode": "seq", "via": via, "scanned": rng.random() < 0.85, "objs": objs, "bfns": bfns[:nreg],
            "ops": ops, "gen": "rand-clean" if clean else "rand"}


def conc_case(rng, nthreads, choices, *, removals=False, probe=False, via="direct", gen="conc"):
    nn = 3
    no = 5
    objs = []
    for _ in range(no):
        r = rng.random()
        objs.append(["lazy", rng.choice(["import", "runtime", "value"])] if r < 0.08 else
                    ["slots"] if r < 0.11 else ["mod", None] if r < 0.25 else
                    ["mod", [rng.choices(["ok", "raise", "base"], [0.75, 0.2, 0.05])[0],
                             ([["I", 3, rng.randrange(no)]] if rng.random() < 0.2 else [])]])
    setup, envq, bfns = [], [], []
    used = []
    # built-ins registered before import
    for n in range(nn):
        if rng.random() < 0.5:
            setup.append(["G", n])
            bfns.append([rng.choices(["ok", "raise"], [0.8, 0.2])[0], []])
    if rng.random() < 0.5:
        setup.append(["I", rng.randrange(nn), rng.randrange(no)])
        if rng.random() < 0.5:
            setup.append(["X"])
    for _ in range(rng.randint(1, 3)):
        n, o = rng.randrange(nn), rng.randrange(no)
        (setup if rng.random() < 0.6 else envq).append(["I", n, o])
        used.append(n)
    if removals:
        envq.insert(rng.randrange(len(envq) + 1), ["R", rng.choice(used)])
        envq.append(["I", rng.randrange(nn), rng.randrange(no)])
    if not removals:
        # keep the case free of replacements: one object per name
        seen = {}
        for lst in (setup, envq):
            for op in lst:
                if op[0] == "I":
                    op[2] = seen.setdefault(op[1], op[2])
        for o in objs:
            if o[0] == "mod" and o[1]:
                o[1][1] = [["I", 3, seen.setdefault(3, e[2])] for e in o[1][1]]
    return {"mode": "conc", "via": via, "scanned": True, "objs": objs, "bfns": bfns, "setup": setup, "envq": envq,
            "nthreads": nthreads, "nx": [rng.randint(1, 2) for _ in range(nthreads)], "choices": list(choices),
            "probe": probe, "gen": gen}


def specials():
    out = []
    M = ["mod", ["ok", []]]
    # odd sys.modules entries in the middle of the scan order, most with a pending built-in: every entry is
    # skipped as far as module-provided glue goes, its built-in still runs once, the neighbours are served
    out.append({"mode": "seq", "via": "extract", "scanned": True, "gen": "special",
                "objs": [M, ["lazy", "import"], ["slots"], ["badglue"], ["nodict"], M, ["lazy", "runtime"], ["lazy", "value"]],
                "bfns": [["ok", []], ["ok", []], ["ok", []], ["raise", []]],
                "ops": [["G", 1], ["G", 2], ["G", 4], ["G", 6], ["I", 0, 0], ["I", 1, 1], ["I", 2, 2], ["I", 3, 3], ["I", 4, 4],
                        ["I", 6, 6], ["I", 7, 7], ["I", 5, 5], ["X"], ["X"]]})
    out.append({"mode": "seq", "via": "direct", "scanned": True, "gen": "special",
                "objs": [["lazy", "value"], M], "bfns": [["ok", []]],
                "ops": [["I", 0, 0], ["G", 0], ["I", 1, 1], ["X"]]})
    # the first extraction after a module (own glue) and a module with pending built-in glue appeared goes
    # through each public entry point in turn; later extractions must run nothing again; fill_context is no scan
    for ep in EP_LIST:
        out.append({"mode": "seq", "via": "direct", "scanned": True, "gen": "special-ep",
                    "objs": [M, ["mod", None], M], "bfns": [["ok", []]],
                    "ops": [["G", 1], ["I", 0, 0], ["I", 1, 1], ["X", ep], ["X", "extract"], ["X", ep],
                            ["I", 2, 2], ["FC"], ["X", ep]]})
    # F4: remove A, add B, extract
    out.append({"mode": "seq", "via": "extract", "scanned": True, "objs": [M, M], "bfns": [], "gen": "special",
                "ops": [["I", 0, 0], ["X"], ["R", 0], ["I", 1, 1], ["X"], ["X"], ["I", 2, 0], ["X"]]})
    # replacement of a module object under the same name
    out.append({"mode": "seq", "via": "direct", "scanned": True, "objs": [M, M], "bfns": [], "gen": "special",
                "ops": [["I", 0, 0], ["X"], ["I", 0, 1], ["X"]]})
    # F17 (fixed): registration after import, module with own glue / without; registration after the glue ran (C17-G2)
    out.append({"mode": "seq", "via": "direct", "scanned": True, "objs": [M], "bfns": [["ok", []]], "gen": "special",
                "ops": [["I", 0, 0], ["G", 0], ["X"]]})
    # the repo's own tests: module beats built-in; None module with raising built-in
    out.append({"mode": "seq", "via": "extract", "scanned": True, "objs": [M], "bfns": [["ok", []]], "gen": "special",
                "ops": [["G", 0], ["I", 0, 0], ["X"], ["X"]]})
    out.append({"mode": "seq", "via": "direct", "scanned": True, "objs": [["nodict"]], "bfns": [["raise", []]], "gen": "special",
                "ops": [["G", 0], ["I", 0, 0], ["X"]]})
    # never scanned; glue that imports; BaseException then retry
    out.append({"mode": "seq", "via": "direct", "scanned": False, "objs": [M], "bfns": [], "gen": "special", "ops": [["X"], ["X"]]})
    out.append({"mode": "seq", "via": "direct", "scanned": True, "gen": "special",
                "objs": [["mod", ["ok", [["I", 1, 1]]]], M], "bfns": [], "ops": [["I", 0, 0], ["X"], ["X"], ["X"]]})
    out.append({"mode": "seq", "via": "extract", "scanned": True, "gen": "special",
                "objs": [["mod", ["base", []]], M, M], "bfns": [],
                "ops": [["I", 0, 0], ["I", 1, 1], ["X"], ["X"], ["I", 2, 2], ["X"]]})
    # double registration
    out.append({"mode": "seq", "via": "direct", "scanned": True, "objs": [M], "bfns": [["ok", []], ["ok", []], ["ok", []]],
                "gen": "special", "ops": [["G", 0], ["G", 0], ["I", 0, 0], ["X"], ["G", 0]]})
    return out


def make_inputs(tier, seed):
    rng = random.Random(seed * 7919 + 17)
    for d in specials():
        yield from with_twins(d)
    # sequential, exhaustive / strided
    if tier == "thorough":
        for kinds in KINDSETS:
            for reuse in (False, True):
                for i, w in enumerate(words(6)):
                    yield from with_twins(history_case(w, kinds, reuse, via="mixed" if i % 4 == 0 else "direct"))
    else:
        n = 0
        for kinds in KINDSETS:
            for reuse in (False, True):
                for i, w in enumerate(words(4)):
                    yield from with_twins(history_case(w, kinds, reuse, via="mixed" if i % 2 == 0 else "direct"))
                for w in words(6):
                    n += 1
                    if (n + seed) % 41 == 0:
                        yield from with_twins(history_case(w, kinds, reuse, via=("extract", "mixed", "direct")[n % 3]))
    # sequential, random
    for i in range(600 if tier == "quick" else 6000):
        yield from with_twins(random_history(rng, via="extract" if i % 4 == 0 else "direct"))
    # concurrent: enumerated choice lists for 2 threads, random for 2-4
    depth = 5 if tier == "quick" else 8
    nseeds = 2 if tier == "quick" else 3
    for s in range(nseeds):
        for ch in itertools.product(range(3), repeat=depth):
            r2 = random.Random(seed * 31 + s)       # same world for every choice list of this sweep
            yield from with_twins(conc_case(r2, 2, ch, gen="conc-enum"))
    for i in range(300 if tier == "quick" else 4000):
        k = rng.choice([2, 2, 3, 4])
        ch = [rng.randrange(6) for _ in range(rng.randint(4, 30))]
        yield from with_twins(conc_case(rng, k, ch, removals=(i % 5 == 0), via="extract" if i % 4 == 0 else "direct"))
    for i in range(30 if tier == "quick" else 120):
        ch = [rng.randrange(6) for _ in range(rng.randint(6, 20))]
        yield from with_twins(conc_case(rng, rng.choice([2, 3]), ch, probe=True, gen="conc-probe"))


def extra_legs(tier, seed):
    """reports the candidate finding C17-G2 (built-in registered after the module's own glue ran)"""
    d = {"mode": "seq", "via": "direct", "scanned": True, "objs": [["mod", ["ok", []]]], "bfns": [["ok", []]],
         "ops": [["I", 0, 0], ["X"], ["G", 0]], "gen": "special"}
    obs = run_case(d)
    both = _oracle(d, obs).get("both")
    return {"evaluations": 1, "violations": [],
            "info": {"candidate_finding_G2": {"signature": G2, "reproduced": bool(both), "input": d, "log": obs["log"],
                                               "text": "builtin_glue() for a module whose own _stackscope_install_glue_ has "
                                                       "already run (registration after the first extraction) runs the built-in "
                                                       "glue as well: both kinds for one module object; outside the property's "
                                                       "space (built-in glue is registered when stackscope is imported)",
                                               "recorded_in_known_findings": G2 in _known_sigs()}}}
