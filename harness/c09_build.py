"""C09 helper: turn a JSON tree descriptor into real objects (generator functions compiled from
generated source, @contextmanager / @asynccontextmanager managers, ExitStack / AsyncExitStack
populated through the public registration methods), drive them to the observation point, run the
real stackscope.extract() and abstract the resulting Stack into the vocabulary of coq/M_ExitStack.v.

Descriptor grammar (all JSON):
  case := {"root": frm, "mode": "susp"|"run", "rk": "coro"|"gen"}
  frm  := {"ws": [wth], "tail": ["stop"] | ["deleg", frm] | ["exit", wth]}
  wth  := {"a": async?, "n": named?, "m": mgr, "exc": null | "except" | "finally"}
          ("exc": only on the wth of an ["exit", wth] tail: the with-block is left by an exception raised in its
           body (contextlib then drives a generator-based manager with throw()/athrow()); the manager's
           generator runs its cleanup in an except clause (exception swallowed) or a finally clause)
  mgr  := {"t": "plain", "a": async?, "f": falsy?}
        | {"t": "gen", "a": async?, "f": falsy?, "body": frm, "u": unentered?}
          ("u": only as the manager of push(manager) / push_async_exit(manager): the manager object is
           registered WITHOUT having been entered; its generator has a frame that has not started,
           body must be the empty frame)
        | {"t": "stack", "a": async?, "f": falsy?, "cbs": [cb], "cur": cb?}
          ("cur": only on the stack of an ["exit", wth] tail = the stack is observed in the middle of
           its own exit: cur was registered last, has been popped and is running; cbs are pending)
  cb   := {"k": kind, "x": exitname?, "m": mgr | null}
"""
import contextlib
import functools
import json
import re
import threading
import types

KINDS = ["enter", "pushmgr", "pushfn", "pushmeth", "callback",
         "entera", "pushamgr", "pushafn", "pushameth", "acallback"]
COQ_KIND = dict(enter="KEnter", pushmgr="KPushMgr", pushfn="(KPushFn %s)", pushmeth="KPushMeth", callback="KCallback",
                entera="KEnterA", pushamgr="KPushAMgr", pushafn="(KPushAFn %s)", pushameth="KPushAMeth",
                acallback="KACallback")
# what a function handed to push / push_async_exit looks like (cb field "lk"), see M_ExitStack.look
LOOKS = ["LPlain", "LWraps", "LFree", "LWrapped", "LName", "LNameFree", "LNameWrapped"]


def look_fn(base, is_async, lk):
    """a user exit function around [base] sharing some marks of contextlib's _exit_wrapper closure"""
    def bind(fn, *args, **kwds):
        free = lk in ("LWraps", "LFree", "LNameFree")
        if is_async:
            if free:
                async def _exit_wrapper(exc_type, exc, tb):
                    return await fn(*args, **kwds)
            else:
                async def _exit_wrapper(exc_type, exc, tb):
                    return await fn()
        else:
            if free:
                def _exit_wrapper(exc_type, exc, tb):
                    return fn(*args, **kwds)
            else:
                def _exit_wrapper(exc_type, exc, tb):
                    return fn()
        w = _exit_wrapper
        if lk == "LWraps" or lk == "LWrapped":
            w = functools.wraps(fn)(w)               # copies __name__/__qualname__, sets __wrapped__
        elif lk == "LNameWrapped":
            w.__wrapped__ = fn
        elif lk in ("LFree",):
            w.__name__ = w.__qualname__ = "bound_exit"
        return w
    return bind(base, "db", force=True)

SYNC_KINDS = KINDS[:5]
MGR_KINDS = ("enter", "pushmgr", "entera", "pushamgr")
METH_KINDS = ("pushmeth", "pushameth")
F10_KINDS = ("pushmgr", "pushamgr")


class Boom(Exception):
    """the exception by which with-blocks are left on the exceptional route"""


@types.coroutine
def _trap():
    yield


def drive(coro):
    """run a coroutine that is known not to suspend"""
    try:
        coro.send(None)
    except StopIteration as ex:
        return ex.value
    raise RuntimeError("helper coroutine suspended unexpectedly")


def _plain_repr(self):
    """repr of the plain managers: raises while the environment injects a fault; the designated
    signalling manager lets the owner thread register one more callback and waits for it"""
    env = self.env
    if env.fault:
        raise RuntimeError("injected repr fault")
    if env.signal_obj is self and threading.current_thread() is env.extractor and not env.go.is_set():
        env.signalled = True
        env.go.set()
        if not env.registered.wait(20):
            raise SystemExit("harness: owner thread did not register")
    return object.__repr__(self)


class Plain:
    def __init__(self, env, act=False):
        self.env, self.act = env, act

    def __enter__(self):
        return self

    def __exit__(self, *exc):
        if self.act:
            self.env.probe()

    def other(self, *exc):
        pass

    __repr__ = lambda self: _plain_repr(self)


class FalsyPlain(Plain):
    def __bool__(self):
        return False


class APlain:
    def __init__(self, env, act=False):
        self.env, self.act = env, act

    async def __aenter__(self):
        return self

    async def __aexit__(self, *exc):
        if self.act:
            if self.env.mode == "run":
                self.env.probe()
            else:
                await _trap()

    async def aother(self, *exc):
        pass

    __repr__ = lambda self: _plain_repr(self)


class FalsyAPlain(APlain):
    def __bool__(self):
        return False


class FalsyGCM(contextlib._GeneratorContextManager):
    def __bool__(self):
        return False


class FalsyAGCM(contextlib._AsyncGeneratorContextManager):
    def __bool__(self):
        return False


class FalsyExitStack(contextlib.ExitStack):
    def __len__(self):
        return 0


class FalsyAsyncExitStack(contextlib.AsyncExitStack):
    def __len__(self):
        return 0


def _delegating_other(self, *exc):
    return type(self).__exit__(self, *exc)


async def _delegating_aother(self, *exc):
    return await type(self).__aexit__(self, *exc)


_NS_CACHE = {}


class Env:
    def __init__(self, desc):
        self.desc = desc
        self.mode = desc["mode"]
        self.m = []            # manager objects by index
        self.mnodes = []       # descriptor node of each manager
        self.oid = {}          # id(python object) -> model identity
        self.keep = []
        self.codes = {}        # code object -> model code id
        self.next_oid = 100
        self.result = None
        self.root_obj = None
        self.trap = _trap
        self.stackscope = None
        self.names = {}        # manager index -> as-variable name
        self.plan = desc.get("plan", "single")
        self.unwinding = False
        self.Boom = Boom
        self.any_exc = '"exc": "' in json.dumps(desc)
        self.fault = False
        self.signal_obj = None
        self.signalled = False
        self.extractor = threading.current_thread()
        self.ready, self.go, self.registered, self.done = (threading.Event() for _ in range(4))
        self.observations = []
        self.notes = []

    # ---------------------------------------------------------------- source generation
    def number(self):
        """assign manager indices / frame ids (pre-order) and generate the module source"""
        self.src = []
        self.nfrm = 0
        self._num_frm(self.desc["root"], self.desc["rk"], on_path=True, body=False, root=True)
        return "\n".join(self.src)

    def _num_mgr(self, m, act=False, exc=None):
        """exc: the manager is on the observed path and is exited by an exception (flavour of its cleanup)"""
        m["_i"] = len(self.mnodes)
        m["_act"] = act
        self.mnodes.append(m)
        if m["t"] == "gen":
            self._num_frm(m["body"], "agen" if m["a"] else "gen", on_path=act, body=True, unentered=bool(m.get("u")),
                          resumed=exc if act else None)
        elif m["t"] == "stack":
            for c in m["cbs"]:
                if c.get("m") is not None:
                    self._num_mgr(c["m"])
            if m.get("cur") is not None and m["cur"].get("m") is not None:
                self._num_mgr(m["cur"]["m"], act=True, exc=exc)
            if m.get("late") is not None and m["late"].get("m") is not None:
                self._num_mgr(m["late"]["m"])

    def _num_frm(self, f, fk, on_path, body, unentered=False, resumed=None, root=False):
        f["_id"] = 10 + self.nfrm
        f["_fk"] = fk
        self.nfrm += 1
        fid = f["_id"]
        lines = [("async def" if fk in ("coro", "agen") else "def") + " f%d(E):" % fid]
        if unentered:
            # never entered: the generator only ever runs when the exit stack calls __exit__ on it
            # during the final unwinding, where it must stop at once
            assert body and not on_path and not f["ws"] and f["tail"][0] == "stop"
            lines += ["    if E.unwinding:", "        return", "    yield"]
            self.src.append("\n".join(lines))
            return
        if fk == "fn":
            assert f["tail"][0] == "stop" and not body
        ind = 1
        guard = root and self.any_exc
        if guard:
            lines.append("    try:")
            ind = 2
        ws = list(f["ws"])
        tail = f["tail"]
        exit_exc = None
        if tail[0] == "exit":
            ws = ws + [tail[1]]
            # a body resumed by throw() passes the exception on to the with-block it is inside of
            exit_exc = tail[1].get("exc") or resumed
        for j, w in enumerate(ws):
            act = tail[0] == "exit" and j == len(ws) - 1
            self._num_mgr(w["m"], act=act, exc=exit_exc if act else None)
            i = w["m"]["_i"]
            if w["a"]:
                assert fk in ("coro", "agen"), "async with in a sync frame"
            head = ("async with" if w["a"] else "with") + " E.m[%d]" % i
            if w["n"]:
                head += " as v%d" % i
                self.names[i] = "v%d" % i
            lines.append("    " * ind + head + ":")
            ind += 1
        pad = "    " * ind
        is_gen = fk in ("gen", "agen")
        if body:
            # the frame of a generator-based manager: the (single) yield of the manager protocol
            if not on_path:
                if tail[0] == "stop":
                    lines.append(pad + "yield")
                elif tail[0] == "deleg":
                    assert fk == "gen"
                    self._num_frm(tail[1], "gen", on_path=False, body=True)
                    lines.append(pad + "yield from f%d(E)" % tail[1]["_id"])
                else:
                    raise AssertionError("a manager in its body cannot be exiting")
                self.src.append("\n".join(lines))
                return
            if resumed and tail[0] != "exit":
                # cleanup of a manager that is exited by an exception
                lines.append(pad + "try:")
                lines.append(pad + "    yield")
                lines.append(pad + ("except E.Boom:" if resumed == "except" else "finally:"))
                pad += "    "
            else:
                lines.append(pad + "yield")
        if tail[0] == "exit":
            if exit_exc and not (body and resumed):
                lines.append(pad + "raise E.Boom()")
            elif not body:
                lines.append(pad + "pass")
        elif tail[0] == "stop":
            if fk == "fn":
                lines.append(pad + "E.park()")
            elif self.mode == "run":
                lines.append(pad + "E.probe()")
            elif fk == "gen":
                assert not body, "a sync manager cannot suspend while exiting"
                lines.append(pad + "yield")
            else:
                lines.append(pad + "await E.trap()")
        else:
            sub_fk = "gen" if fk == "gen" else "coro"
            self._num_frm(tail[1], sub_fk, on_path=True, body=False)
            lines.append(pad + ("yield from" if fk == "gen" else "await") + " f%d(E)" % tail[1]["_id"])
        if guard:
            lines.append("    except E.Boom:")
            lines.append("        pass")
        if fk == "gen" and not body:
            lines.append("    return")
            lines.append("    yield")
        self.src.append("\n".join(lines))

    # ---------------------------------------------------------------- object construction
    def reg(self, obj, oid=None):
        if oid is None:
            oid = self.next_oid
            self.next_oid += 1
        self.oid[id(obj)] = oid
        self.keep.append(obj)
        return oid

    def build(self):
        src = self.number()
        ns = _NS_CACHE.get(src)
        if ns is None:
            ns = {}
            exec(compile(src, "<c09:%d>" % len(_NS_CACHE), "exec"), ns)
            if len(_NS_CACHE) > 20000:
                _NS_CACHE.clear()
            _NS_CACHE[src] = ns
        self.ns = ns
        for name, fn in ns.items():
            if name.startswith("f") and name[1:].isdigit():
                self.codes[fn.__code__] = int(name[1:])
        for m in self.mnodes:
            obj = self._make(m)
            self.m.append(obj)
            m["_oid"] = self.reg(obj)
        for m in self.mnodes:
            if m["t"] == "stack":
                self._populate(m)

    def _make(self, m):
        t, a, falsy = m["t"], m["a"], m.get("f", False)
        if t == "plain":
            cls = {(False, False): Plain, (False, True): FalsyPlain, (True, False): APlain, (True, True): FalsyAPlain}[(a, falsy)]
            return cls(self, m["_act"])
        if t == "gen":
            fn = self.ns["f%d" % m["body"]["_id"]]
            if falsy:
                return (FalsyAGCM if a else FalsyGCM)(fn, (self,), {})
            return (contextlib.asynccontextmanager if a else contextlib.contextmanager)(fn)(self)
        if t == "stack":
            if falsy:
                return (FalsyAsyncExitStack if a else FalsyExitStack)()
            return (contextlib.AsyncExitStack if a else contextlib.ExitStack)()
        raise AssertionError(t)

    def _fresh_fn(self, is_async, act=False):
        env = self
        if is_async:
            async def afn(*a, **kw):
                if act:
                    if env.mode == "run":
                        env.probe()
                    else:
                        await _trap()
            return afn

        def fn(*a, **kw):
            if act:
                env.probe()
        return fn

    def _populate(self, m):
        regs = []
        cur = m.get("cur")
        for c in m["cbs"] + ([cur] if cur is not None else []):
            regs.append(self._register(m, c, c is cur))
        m["_regs"] = regs
        self._annotate(m, m["cbs"])

    def _annotate(self, m, cbdescs):
        # the modelled part: what contextlib actually stored
        st = self.m[m["_i"]]
        regs = m["_regs"]
        cbs = list(st._exit_callbacks)
        assert len(cbs) == len(regs), "contextlib stored %d callbacks for %d registrations" % (len(cbs), len(regs))
        for c, reg, (is_sync, cb) in zip(cbdescs, regs, cbs):
            if "_ocb" not in c:
                c["_ocb"] = self.reg(cb)
            slf = getattr(cb, "__self__", None)
            c["_oself"] = self.oid.get(id(slf), 0) if hasattr(cb, "__self__") else 0
            c["_av"] = attr_vector(is_sync, cb, reg)

    def _register(self, m, c, act):
        st = self.m[m["_i"]]
        if True:
            k = c["k"]
            child = self.m[c["m"]["_i"]] if c.get("m") is not None else None
            cm = c.get("m")
            if k == "enter":
                st.enter_context(child)
                registered = child
            elif k == "pushmgr":
                if not cm.get("u"):
                    type(child).__enter__(child)
                st.push(child)
                registered = child
            elif k == "entera":
                drive(st.enter_async_context(child))
                registered = child
            elif k == "pushamgr":
                if not cm.get("u"):
                    drive(type(child).__aenter__(child))
                st.push_async_exit(child)
                registered = child
            elif k in ("pushfn", "pushafn"):
                registered = self._fresh_fn(k == "pushafn", act)
                if c.get("lk", "LPlain") != "LPlain":
                    self.keep.append(registered)
                    registered = look_fn(registered, k == "pushafn", c["lk"])
                (st.push if k == "pushfn" else st.push_async_exit)(registered)
            elif k in ("callback", "acallback"):
                registered = self._fresh_fn(k == "acallback", act)
                if k == "callback":
                    st.callback(registered, 1, k=2)
                else:
                    st.push_async_callback(registered, 3)
            elif k in ("pushmeth", "pushameth"):
                is_a = k == "pushameth"
                if cm["t"] == "plain":
                    name = ("__aexit__" if is_a else "__exit__") if c.get("x") else ("aother" if is_a else "other")
                    registered = getattr(child, name)
                else:
                    if is_a:
                        drive(type(child).__aenter__(child))
                    else:
                        type(child).__enter__(child)
                    if c.get("x"):
                        registered = child.__aexit__ if is_a else child.__exit__
                    else:
                        registered = types.MethodType(_delegating_aother if is_a else _delegating_other, child)
                (st.push_async_exit if is_a else st.push)(registered)
            else:
                raise AssertionError(k)
            self.keep.append(registered)
            return registered

    # ---------------------------------------------------------------- running
    def probe(self):
        if self.result is None:
            self.observe()
            self.unwinding = True      # everything after the probe is the normal unwinding

    def _extract_abs(self, tag):
        st = self.stackscope.extract(self.root_obj)
        notes = []
        out = abstract_stack(self, st, notes)
        self.notes += ["%s: %s" % (tag, n) for n in notes]
        return st, out

    def observe(self):
        """abstraction happens right here: the exit stacks still hold the callbacks the children were made from"""
        self.result, self.abstracted = self._extract_abs("first")
        self.observations = [self.abstracted]
        if self.plan == "single":
            # extraction is an observation: doing it again must give the same tree
            _, again = self._extract_abs("second")
            if again != self.abstracted:
                self.notes.append("a second extraction of the unchanged tree differs from the first")
        elif self.plan == "hist":
            # an extraction that fails part-way, then two more after the fault is gone
            self.fault = True
            try:
                faulted = self.stackscope.extract(self.root_obj)
                self.fault_error = faulted.error is not None
            finally:
                self.fault = False
            # errors are expected in the faulted extraction; what was not hit by the fault must be whole
            self.faulted_abstracted = abstract_stack(self, faulted, [])
            for tag in ("after-fault-1", "after-fault-2"):
                self.observations.append(self._extract_abs(tag)[1])

    # ---------------------------------------------------------------- owner thread (plan "conc")
    def park(self):
        self.ready.set()
        self.go.wait(30)
        m = self.late_stack
        m["_regs"].append(self._register(m, m["late"], False))
        self.registered.set()
        self.done.wait(30)

    def run_thread(self):
        import stackscope
        self.stackscope = stackscope
        self.build()
        self.late_stack = [m for m in self.mnodes if m.get("late") is not None][0]
        sig = self.desc["signal"]
        self.signal_obj = self.m[self.late_stack["cbs"][sig]["m"]["_i"]]
        th = threading.Thread(target=self.ns["f%d" % self.desc["root"]["_id"]], args=(self,), daemon=True)
        th.start()
        try:
            if not self.ready.wait(20):
                raise RuntimeError("owner thread did not reach the parking point")
            self.root_obj = th
            st1 = self.stackscope.extract(th)
            self.go.set()
            if not self.registered.wait(20):
                raise RuntimeError("owner thread did not register")
            self._annotate(self.late_stack, self.late_stack["cbs"] + [self.late_stack["late"]])
            notes = []
            self.observations = [abstract_stack(self, st1, notes)]
            self.notes += ["during-registration: " + n for n in notes]
            self.observations.append(self._extract_abs("after-registration")[1])
        finally:
            self.unwinding = True
            self.go.set()
            self.done.set()
            th.join(20)

    def run(self):
        import stackscope
        self.stackscope = stackscope
        self.build()
        root = self.ns["f%d" % self.desc["root"]["_id"]](self)
        self.root_obj = root
        step = (lambda: root.send(None)) if self.desc["rk"] == "coro" else (lambda: next(root))
        finished = False
        try:
            step()
        except StopIteration:
            finished = True
        if self.mode == "susp":
            if finished:
                raise RuntimeError("root finished before reaching the observation point")
            self.observe()
        elif self.result is None:
            raise RuntimeError("probe was not reached")
        # unwind everything normally
        self.unwinding = True
        for _ in range(5):
            if finished:
                break
            try:
                step()
            except StopIteration:
                finished = True
        if not finished:
            raise RuntimeError("root did not finish after the observation")
        return self.result


def attr_vector(is_sync, cb, registered):
    has_self = hasattr(cb, "__self__")
    is_method = isinstance(cb, types.MethodType)
    if has_self and cb.__self__ is registered and cb is not registered:
        rel = "RSelfIs"
    elif cb is registered:
        rel = "RIs"
    elif getattr(cb, "__wrapped__", None) is registered:
        rel = "RWrappedIs"
    else:
        rel = "ROther"
    code = getattr(cb, "__code__", None)
    return dict(sync=bool(is_sync), has_self=has_self, is_method=is_method,
                exitish=bool(is_method and cb.__func__.__name__ in ("__exit__", "__aexit__")),
                wrapped=hasattr(cb, "__wrapped__"), wname=getattr(cb, "__name__", None) == "_exit_wrapper",
                isfun=isinstance(cb, types.FunctionType),
                freevars=bool(code is not None and set(code.co_freevars) >= {"args", "kwds"}),
                truthy=bool(cb.__self__) if has_self else True, rel=rel)


# -------------------------------------------------------------------- abstraction of the result
def _funcname(func):
    try:
        if isinstance(func, types.MethodType):
            return "%r.%s" % (func.__self__, func.__name__)
        return "%s.%s" % (func.__module__, func.__qualname__)
    except AttributeError:
        return repr(func)


def _arg_texts(cb):
    """the candidate argument texts, computed independently of stackscope"""
    out = {}
    if hasattr(cb, "__self__"):
        out["AReprSelf"] = repr(cb.__self__)
    out["AFuncname"] = _funcname(cb)
    w = getattr(cb, "__wrapped__", None)
    code = getattr(cb, "__code__", None)
    if w is not None and code is not None and cb.__closure__ is not None:
        cells = dict(zip(code.co_freevars, cb.__closure__))
        try:
            args = cells["args"].cell_contents
            kwds = cells["kwds"].cell_contents
            out["ACallArgs"] = ", ".join([_funcname(w)] + [repr(a) for a in args] + ["%s=%r" % kv for kv in kwds.items()])
        except Exception:
            pass
    return out


def _child_desc(obj):
    gen = getattr(obj, "gen", None)
    if isinstance(obj, contextlib._GeneratorContextManagerBase) and gen is not None:
        if hasattr(obj, "func"):
            # not entered: func/args/kwds are still there and the description is the call
            return "%s(%s)" % (_funcname(obj.func), ", ".join([repr(a) for a in obj.args] + ["%s=%r" % kv for kv in obj.kwds.items()]))
        return "%s(...)" % gen.__qualname__
    return None


_VAR = re.compile(r"^(.*)\[(\d+)\]$")


def _split_name(name):
    path = []
    while True:
        m = _VAR.match(name)
        if not m:
            return name, path
        name = m.group(1)
        path.insert(0, int(m.group(2)))


def abstract_stack(env, stack, notes):
    out = []
    if stack.error is not None:
        notes.append("stack error: %r" % (stack.error,))
    if stack.leaf is not None:
        notes.append("frame series ends in a leaf that was not unwrapped: %s" % type(stack.leaf).__name__)
    for fr in stack.frames:
        cid = env.codes.get(fr.pyframe.f_code)
        if cid is None:
            continue       # contextlib helper frames, trap, probe
        out.append({"code": cid, "cs": [abstract_ctx(env, c, None, notes) for c in fr.contexts]})
    return out


def abstract_ctx(env, c, parent, notes):
    """parent = None for a with-block of a frame, else (stack python object, index)"""
    d = {"oid": env.oid.get(id(c.obj), 0), "a": bool(c.is_async), "e": bool(c.is_exiting),
         "inner": None if c.inner_stack is None else abstract_stack(env, c.inner_stack, notes),
         "kids": [], "info": None}
    if parent is not None:
        d["info"] = child_info(env, c, parent, notes)
    cbs = None
    if isinstance(c.obj, contextlib._BaseExitStack):
        cbs = list(c.obj._exit_callbacks)
    for i, ch in enumerate(c.children):
        if type(ch).__name__ != "Context":
            notes.append("child %d of %r is not a Context" % (i, c.obj))
            continue
        d["kids"].append(abstract_ctx(env, ch, (cbs, i), notes))
    return d


def child_info(env, ch, parent, notes):
    cbs, i = parent
    cb = cbs[i][1] if cbs is not None and i < len(cbs) else None
    if cb is not None and hasattr(cb, "__self__") and ch.obj is cb.__self__:
        sel = "SelSelf"
    elif cb is not None and ch.obj is cb:
        sel = "SelCallback"
    else:
        sel = "SelCallback"
        notes.append("child obj is neither the callback nor its __self__")
    info = {"sel": sel, "root": "ROtherRoot", "path": [], "idx": 0, "aw": False, "meth": None, "arg": "AOther"}
    vm = _VAR.match(ch.varname or "")
    if not vm:
        notes.append("child varname %r" % (ch.varname,))
        return info
    stackname, info["idx"] = vm.group(1), int(vm.group(2))
    root, path = _split_name(stackname)
    info["path"] = path
    info["root"] = "RUnderscore" if root == "_" else ("RName" if re.fullmatch(r"v\d+", root) else "ROtherRoot")
    info["rootname"] = root
    desc = ch.description or ""
    aw = desc.startswith("await ")
    rest = desc[6:] if aw else desc
    info["aw"] = aw
    if not rest.startswith(stackname + "."):
        notes.append("description %r does not start with the stack name %r" % (desc, stackname))
        info["root"] = "ROtherRoot"
        return info
    rest = rest[len(stackname) + 1:]
    mm = re.match(r"^(\w+)\((.*)\)$", rest, re.S)
    if not mm:
        notes.append("description %r" % desc)
        return info
    info["meth"] = mm.group(1)
    text = mm.group(2)
    cands = _arg_texts(cb) if cb is not None else {}
    cd = _child_desc(ch.obj)
    if cd is not None:
        cands["AChildDesc"] = cd
    for name in ("AChildDesc", "AReprSelf", "ACallArgs", "AFuncname"):
        if cands.get(name) == text:
            info["arg"] = name
            break
    return info
