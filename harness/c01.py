"""C01 — contexts of a suspended frame are exactly the entered-but-not-exited managers.
Coq: certificate soundness for the with-machine (P_Cert.analysis_exact) => for every checked code
object, at every suspension point of every execution, the model of the trickery analysis is exact.
Tie: (1) every corpus code object gets a certificate that Coq's checkk KSusp accepts; (2) the real
currently_exiting_context / analyze_with_blocks agree with the model at every suspension offset;
(3) runtime ground truth (harness/progs.py: logging managers, all branch outcomes, every suspension)."""
from . import wm_cases as WC

PROP = "C01"
CASE_LIMIT = 5400      # the `live` descriptor runs whole runtime legs (many minutes in the thorough tier)
KINDS = WC.kinds("KSusp")
SHARD = 14
RULE = ("corpus = standard-library code objects containing a with statement (20 sampled by seed in quick, all ~440 in "
        "thorough) + generated sync/generator/coroutine/async-generator bodies over with/async with (1..3 items, targets, "
        "layouts), try/except/else/finally, for/while/async for, if, match, return/break/continue/raise, for CPython 3.12 and "
        "(computed by a 3.11 child process on 3.11's own standard library and the same generator) CPython 3.11. Each code "
        "object yields: a 'cert' case (certificate from the untrusted dataflow, checked by M_Cert.checkk in Coq), a 'static' "
        "case (real currently_exiting_context / analyze_with_blocks vs the model at every observation offset), a 'join' case "
        "(the REAL _contexts_active_by_trickery run on every certified observation, stack taken from the certificate, "
        "exception-table walk and trim executed from inspect_frame's own source), a 'table' case (model of "
        "_parse_exception_table on the raw co_exceptiontable bytes); plus one 'live' case per program of the runtime leg "
        "(f_lasti and logged ground truth of real frames must be observations the certified machine offers); plus 'bs' cases "
        "computed by child processes under CPython 3.10 and 3.9 (harness/bs_child.py: 12 sampled / all standard-library code "
        "objects with a with statement of that interpreter + 40 / 600 generated programs): abstract block-stack code, a "
        "block-stack certificate checked by M_BlockStack.check_bcert in Coq, the real analyze_with_blocks result and the real "
        "currently_exiting_context result at EVERY instruction offset, compared with M_BlockStack.exiting310 / with_info. distinct = "
        "distinct code objects; non-trivial = has a certified observation with a non-empty truth / an exit in progress / a "
        "non-empty reported context list / >= 2 table entries / a non-empty logged truth")
CONFIG = dict(
    escalate=False,
    coq=["C01"], level="proof",
    claim=("Coq theorem (certificate soundness, by induction over all executions of an abstract machine for the "
           "3.11/3.12 with-protocol): for every code object whose certificate Coq's checker accepts, the model of "
           "stackscope's trickery analysis returns exactly the entered-but-not-exited managers at every suspension "
           "point; the certificate check runs on every corpus code object on every run, the analysis model is compared "
           "with the real functions at every suspension offset, and a runtime ground-truth leg compares real "
           "Frame.contexts with logging managers."),
    design_ref="DESIGN.md section 5 C01/C02/C20",
    trusted_base=["M_WithMachine.v is a hand-written model of CPython 3.12's and 3.11's with/async-with bytecode semantics (validated by "
                  "the ground-truth runtime leg and by the fact that all corpus code objects are explained by it)",
                  "M_Analysis.v models _lowlevel.py's 3.11 and 3.12 branches; compared with the real functions at observation offsets",
                  "harness/withmachine.py's translation of code objects (via dis) to abstract code",
                  "M_BlockStack.v: hand-written model of the pre-3.11 branch of currently_exiting_context / analyze_with_blocks and an abstract "
                  "block-stack machine for CPython 3.9/3.10 (SETUP_* pushes, POP_BLOCK pops, any instruction may raise and unwinds to the "
                  "innermost block; EXCEPT_HANDLER blocks abstracted away); harness/bs_child.py's translation (via dis under 3.10 / 3.9)"],
    assumptions=["the program space is sampled (generated programs + standard library); proved for all executions of each checked code object",
                 "awaitables returned by __aenter__/__aexit__ are coroutine objects (no Python-level __await__ runs inside GET_AWAITABLE)",
                 "Coq instances for CPython 3.12.1 and 3.11.7 bytecode (version parameter of the machine and of the analysis model); for 3.9/3.10 (block stack) only the "
                 "exit-call attribution is a theorem (C01_py310_exiting_block_partial), exactness of the context list there rests on the runtime leg"],
    unproved_legs=["CPython 3.9/3.10: the pre-3.11 branch of currently_exiting_context and analyze_with_blocks is modelled (M_BlockStack) and tied by the "
                   "`bs` correspondence under both interpreters; proved: the block named for an exit call in progress is the block its POP_BLOCK pops on every "
                   "execution of the block-stack machine (partial: no with-protocol machine for these versions, so exactness of the whole context list, "
                   "the value-stack slot arithmetic of _lowlevel_cpython_310.inspect_frame and the absence of warnings are runtime ground-truth legs; "
                   "termination, completeness, crash-freedom on certified code and the composite total-correctness statement are theorems (C01_py310_walk_terminates, _walk_complete, _no_unreachable_warning, _exit_call_resolved); the oracle also flags any warning on a unit the certificate marks reachable)",
                   "inspect_frame's ctypes reads are not modelled; the chain walk and slot arithmetic are (M_Analysis.blocks/slot)"],
    timeout={"quick": 1200, "thorough": 5400},
)


def make_inputs(tier, seed):
    yield from WC.make_descs(tier, seed, "susp")


run_case = WC.run_case
coq_case = WC.coq_case
direct_oracle = WC.direct_oracle
classify = WC.classify


def extra_legs(tier, seed):
    try:
        from . import progs
    except ImportError:
        return {"evaluations": 0, "violations": [], "info": {"runtime_leg": "harness/progs.py not available yet"}}
    return progs.leg_suspended(tier, seed)
