"""Real stacks for C18/C19: extracted by stackscope.extract from live objects (a suspended
generator inside context managers, a suspended coroutine inside `async with`, an ExitStack,
the running thread)."""
import contextlib
import types


@contextlib.contextmanager
def outer_cm(tag):
    with contextlib.ExitStack() as es:
        es.enter_context(contextlib.nullcontext(tag))
        es.callback(str, "bye")
        yield tag


def gen_fn():
    with outer_cm("a") as first:
        with contextlib.nullcontext(1), outer_cm("b") as (second):
            yield first, second


class ACM:
    async def __aenter__(self):
        return self

    async def __aexit__(self, *a):
        return False


@types.coroutine
def suspend():
    yield "susp"


async def coro_fn():
    async with ACM() as acm:
        with outer_cm("c"):
            await suspend()


def running(extract):
    with outer_cm("r") as r:
        with contextlib.ExitStack() as stack:
            stack.enter_context(outer_cm("s"))
            return extract()


async def arec(n):
    if n:
        await arec(n - 1)
    else:
        await suspend()


def grec(n):
    if n:
        yield from grec(n - 1)
    else:
        yield n


def srec(n, outer, extract):
    import sys
    if outer is None:
        outer = sys._getframe()
    if n:
        return srec(n - 1, outer, extract)
    return extract(outer)


def build(name):
    import stackscope
    if name == "rec_await":      # 8 distinct frames of one coroutine function parked on the same line
        c = arec(8)
        c.send(None)
        return stackscope.extract(c, with_contexts=True), c
    if name == "rec_yield_from":
        g = grec(6)
        next(g)
        return stackscope.extract(g, with_contexts=True), g
    if name == "rec_sync":       # 7-deep recursion of the running thread
        return srec(7, None, lambda outer: stackscope.extract(stackscope.StackSlice(outer=outer), with_contexts=True)), None
    if name == "gen":
        g = gen_fn()
        next(g)
        return stackscope.extract(g, with_contexts=True), g
    if name == "coro":
        c = coro_fn()
        c.send(None)
        return stackscope.extract(c, with_contexts=True), c
    if name == "running":
        return running(lambda: stackscope.extract(stackscope.StackSlice(limit=3), with_contexts=True)), None
    if name == "running_nocontexts":
        return running(lambda: stackscope.extract(stackscope.StackSlice(limit=4), with_contexts=False)), None
    raise AssertionError(name)


NAMES = ["gen", "coro", "running", "running_nocontexts", "rec_await", "rec_yield_from", "rec_sync"]
