"""Per-property configuration of the check driver."""

COMMON_TRUSTED = [
    "Coq 8.16.1 kernel + vm_compute (no native_compute); theorems re-checked by a full .vo build on every run",
    "harness/srcfacts.py (ast translator of the listed source facts, fail-closed)",
    "correspondence drivers: abstraction of real objects to model inputs and the Gallina literal printer (harness/*.py)",
    "the hand-written Coq models describe the Python code; only the correspondence (differential comparison inside Coq) validates that description",
]

REGISTRY = {
    "C10": dict(
        module="harness.c10", coq=["C10"], level="proof",
        trusted_base=["model M_Frames.v (extract_iter) is hand-written; hook behaviour is abstracted to finite stateless tables"],
        assumptions=["hook results are tuples/lists/FrameIterators of frames and objects; hooks are deterministic",
                     "unwrap tables are rank-ordered (acyclic) apart from the linear self-loop (a branching cyclic unwrap does not terminate and is outside 'item trees')"],
        exhaustive_in={"thorough": False},
    ),
}
