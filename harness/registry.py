"""Per-property configuration of the check driver: every harness/cNN.py defines CONFIG."""
import glob
import importlib
import os

COMMON_TRUSTED = [
    "Coq 8.16.1 kernel + vm_compute (no native_compute); theorems re-checked by a full .vo build on every run",
    "harness/srcfacts.py (ast translator of the listed source facts, fail-closed)",
    "correspondence drivers: abstraction of real objects to model inputs and the Gallina literal printer (harness/*.py)",
    "the hand-written Coq models describe the Python code; only the correspondence (differential comparison inside Coq) validates that description",
]


def _discover():
    reg = {}
    here = os.path.dirname(os.path.abspath(__file__))
    for path in sorted(glob.glob(os.path.join(here, "c[0-9][0-9].py"))):
        name = os.path.basename(path)[:-3]
        try:
            mod = importlib.import_module("harness." + name)
        except Exception as ex:  # a module under construction must not take the other checks down
            import sys
            print("warning: harness/%s.py cannot be imported: %r" % (name, ex), file=sys.stderr)
            continue
        cfg = dict(getattr(mod, "CONFIG"))
        cfg["module"] = "harness." + name
        cfg.setdefault("rule", getattr(mod, "RULE", ""))
        reg[mod.PROP] = cfg
    return reg


REGISTRY = _discover()
