"""Shared correspondence cases for C01 / C02 / C20 (CPython 3.12 with-machine):

 kind "cert"    one code object: abstract code + exception table + certificate (computed by the
                untrusted dataflow of harness/withmachine.py); Coq evaluates M_Cert.checkk.
                A code object the machine cannot explain (Stuck / Conflict / unsupported opcode)
                is a direct violation (fail-closed), not a skipped case.
 kind "static"  the same code object with what the REAL stackscope functions return:
                currently_exiting_context at every code unit where an observation of the
                selected kind can happen, and analyze_with_blocks; Coq compares with
                M_Analysis.exiting / with_info.

Corpus: every standard-library code object containing a with statement (sampled by seed in the
quick tier, all in thorough) + generated function bodies (sync / generator / coroutine /
async generator) over with, async with, try/except/finally, loops, if, match and all exits.
"""
from __future__ import annotations

import dis
import glob
import os
import random
import sys
import types
import warnings

from . import withmachine as W
from .common import cbool, clist, copt

IMPORTS = "From SS Require Import Base M_Bytecode M_Analysis M_WithMachine M_Cert."


def kinds(k):
    return {
        "cert": dict(imports=IMPORTS, type="cert_case", mismatch=f"cert_mismatches {k}",
                     nontrivial=f"cert_nontrivial {k}"),
        "static": dict(imports=IMPORTS, type="static_case", mismatch="static_mismatches",
                       nontrivial="static_nontrivial"),
        "join": dict(imports=IMPORTS, type="join_case", mismatch="join_mismatches",
                     nontrivial="join_nontrivial"),
        "live": dict(imports=IMPORTS, type="live_case", mismatch="live_mismatches", nontrivial="live_nontrivial"),
        "table": dict(imports="From Coq Require Import NArith.\nFrom SS Require Import Base M_Bytecode M_ExcTable.",
                      type="table_case", mismatch="table_mismatches", nontrivial="table_nontrivial"),
        # CPython 3.10 / 3.9 (block-stack code path): cases produced by harness/bs_child.py under those interpreters
        "bs": dict(imports="From SS Require Import Base M_BlockStack.", type="bs_case", mismatch="bs_mismatches",
                   nontrivial="bs_nontrivial"),
    }


# ------------------------------------------------------------------ corpus
_STDLIB = None


def stdlib_files():
    root = os.path.dirname(os.__file__)
    files = glob.glob(root + "/*.py") + glob.glob(root + "/*/*.py") + glob.glob(root + "/*/*/*.py")
    out = []
    for fn in sorted(files):
        if "/test/" in fn or "lib2to3" in fn or "/idlelib/" in fn or "/site-packages/" in fn or "/tests/" in fn:
            continue
        out.append(fn)
    return root, out


def stdlib_index():
    """[(relative file, qualified index path)] of every code object with a with statement"""
    global _STDLIB
    if _STDLIB is None:
        root, files = stdlib_files()
        idx = []
        for fn in files:
            try:
                top = compile(open(fn, encoding="utf-8").read(), fn, "exec")
            except Exception:
                continue
            for path, co in walk(top, ()):
                if W.has_with(co):
                    idx.append((os.path.relpath(fn, root), list(path)))
        _STDLIB = idx
    return _STDLIB


def walk(co, path):
    yield path, co
    k = 0
    for c in co.co_consts:
        if isinstance(c, types.CodeType):
            yield from walk(c, path + (k,))
            k += 1


def find(co, path):
    for i in path:
        co = [c for c in co.co_consts if isinstance(c, types.CodeType)][i]
    return co


# ---- generated programs ----------------------------------------------------------------
class Gen:
    """random function bodies over the C01 statement space"""

    def __init__(self, rng, flavour, size):
        self.rng, self.flavour, self.budget = rng, flavour, size
        self.n = 0
        self.is_async = flavour in ("coro", "agen")
        self.can_yield = flavour in ("gen", "agen")

    def fresh(self):
        self.n += 1
        return self.n

    def susp(self, ind):
        opts = []
        if self.can_yield:
            opts.append("yield %d" % self.fresh())
        if self.is_async:
            opts.append("await trap(%d)" % self.fresh())
        if not opts:
            return ind + "probe(%d)\n" % self.fresh()
        return ind + self.rng.choice(opts) + "\n"

    def target(self):
        r = self.rng.random()
        if r < 0.45:
            return ""
        return " as " + self.rng.choice(["x", "y", "(x, y)", "o.attr", "d['k']", "[x, *y]", "o.a.b", "d[i]"])

    def block(self, ind, depth, in_loop):
        n = self.rng.randint(1, 3)
        out = ""
        for _ in range(n):
            out += self.stmt(ind, depth, in_loop)
        return out

    def exit_stmt(self, ind, in_loop):
        opts = ["return", "return", "raise E()", "pass"] if self.flavour == "agen" else ["return 7", "return v()", "raise E()", "pass"]
        if in_loop:
            opts += ["break", "continue"]
        s = self.rng.choice(opts)
        return ind + "if c(%d): %s\n" % (self.fresh(), s) if self.rng.random() < 0.6 else ind + s + "\n"

    def stmt(self, ind, depth, in_loop):
        self.budget -= 1
        r = self.rng.random()
        deeper = depth < 4 and self.budget > 0
        i2 = ind + "    "
        if deeper and r < 0.38:
            items = self.rng.randint(1, 3)
            use_async = self.is_async and self.rng.random() < 0.6
            kw = "async with" if use_async else "with"
            its = ", ".join("m(%d)%s" % (self.fresh(), self.target()) for _ in range(items))
            lay = self.rng.random()
            if lay < 0.2 and items > 1:
                head = ind + kw + " (\n" + "".join(i2 + x + ",\n" for x in its.split(", ")) + ind + "):\n"
            else:
                head = ind + kw + " " + its + ":\n"
            return head + self.block(i2, depth + 1, in_loop)
        if deeper and r < 0.52:
            s = ind + "try:\n" + self.block(i2, depth + 1, in_loop)
            k = self.rng.random()
            if k < 0.7:
                s += ind + "except E:\n" + (self.block(i2, depth + 1, in_loop) if self.rng.random() < 0.5 else i2 + "pass\n")
                if self.rng.random() < 0.3:
                    s += ind + "else:\n" + self.block(i2, depth + 1, in_loop)
            if k >= 0.5:
                s += ind + "finally:\n" + self.block(i2, depth + 1, in_loop)
            return s
        if deeper and r < 0.62:
            if self.is_async and self.rng.random() < 0.3:
                return ind + "async for i in ait(%d):\n" % self.fresh() + self.block(i2, depth + 1, True)
            if self.rng.random() < 0.5:
                return ind + "for i in it(%d):\n" % self.fresh() + self.block(i2, depth + 1, True)
            return ind + "while c(%d):\n" % self.fresh() + self.block(i2, depth + 1, True)
        if deeper and r < 0.70:
            s = ind + "if c(%d):\n" % self.fresh() + self.block(i2, depth + 1, in_loop)
            if self.rng.random() < 0.5:
                s += ind + "else:\n" + self.block(i2, depth + 1, in_loop)
            return s
        if deeper and r < 0.74:
            return (ind + "match v():\n" + i2 + "case 1:\n" + self.block(i2 + "    ", depth + 1, in_loop)
                    + i2 + "case [a, b]:\n" + self.block(i2 + "    ", depth + 1, in_loop)
                    + i2 + "case _:\n" + i2 + "    pass\n")
        if r < 0.86:
            return self.susp(ind)
        if r < 0.95:
            return self.exit_stmt(ind, in_loop)
        if r < 0.975:
            # calls that look like the compiler's exit call (three None arguments) but are not
            return ind + self.rng.choice(["probe(None, None, None)", "o.m(None, None, None)", "v(None, None)",
                                          "probe(None, None, None, None)", "x = probe(None, None, None)"]) + "\n"
        return ind + "probe(%d)\n" % self.fresh()


LOOKALIKES = [
    "def f(m, c, v, it, ait, trap, probe, o, d, i, E):\n    with m(1):\n        probe(None, None, None)\n    return 1\n",
    "def f(m, c, v, it, ait, trap, probe, o, d, i, E):\n    with m(1) as x, m(2):\n        o.m(None, None, None)\n        yield 1\n        probe(None, None, None)\n",
    "async def f(m, c, v, it, ait, trap, probe, o, d, i, E):\n    async with m(1):\n        with m(2):\n            probe(None, None, None)\n            await trap(3)\n            await o.m(None, None, None)\n",
    "def f(m, c, v, it, ait, trap, probe, o, d, i, E):\n    probe(None, None, None)\n    for i in it(1):\n        with m(2):\n            x = probe(None, None, None)\n            if c(3): return x\n",
]

# None beyond constant slot 255 (EXTENDED_ARG before every LOAD_CONST None) combined with async with
# inside except / finally bodies (3.12 places CLEANUP_THROW inline there) and with multi-item headers
_MANY = '    """doc"""\n' + "".join("    k0 = %d.5\n" % j for j in range(260))
LOOKALIKES += [
    "async def f(m, c, v, it, ait, trap, probe, o, d, i, E):\n" + _MANY +
    "    try:\n        await trap(1)\n    except E:\n        async with m(2) as x:\n            await trap(3)\n"
    "    finally:\n        async with m(4):\n            await trap(5)\n",
    "async def f(m, c, v, it, ait, trap, probe, o, d, i, E):\n" + _MANY +
    "    async with m(1), m(2) as y:\n        try:\n            await trap(3)\n        except E:\n"
    "            async with m(4) as x, m(5):\n                await trap(6)\n                if c(7): return\n"
    "        yield 8\n",
    "def f(m, c, v, it, ait, trap, probe, o, d, i, E):\n" + _MANY +
    "    for i in it(1):\n        try:\n            with m(2) as x:\n                yield 3\n                if c(4): continue\n"
    "        finally:\n            with m(5):\n                yield 6\n",
]


def gen_program(seed: int, size: int, many=None):
    if seed < 0:
        return LOOKALIKES[(-seed - 1) % len(LOOKALIKES)]
    rng = random.Random(seed)
    flavour = rng.choice(["sync", "gen", "coro", "agen"])
    g = Gen(rng, flavour, size)
    body = g.block("    ", 0, False)
    if flavour in ("gen", "agen") and "yield" not in body:
        body += "    yield 0\n"
    draw = rng.random() < 0.12
    if draw if many is None else many:
        # None is not among the first 256 constants (docstring in slot 0, then 260 distinct constants):
        # EXTENDED_ARG before the LOAD_CONST None of every exit call / await sequence and on long jumps,
        # in combination with whatever block structure the body has
        body = '    """doc"""\n' + "".join("    k0 = %d.5\n" % j for j in range(260)) + body
    head = ("async def" if flavour in ("coro", "agen") else "def") + " f(m, c, v, it, ait, trap, probe, o, d, i, E):\n"
    return head + body


# ------------------------------------------------------------------ descriptors
ALT_PY = "/root/.pyenv/versions/3.11.7/bin/python"


def alt_start(tier, seed, which):
    """start the CPython 3.11 child (abstract code, certificates and what the real stackscope functions
    return there; checked in Coq with ver = V311); it runs while this process does its own cases"""
    import subprocess
    if not os.path.exists(ALT_PY):
        return None
    env = dict(os.environ, PYTHONHASHSEED="0")
    return subprocess.Popen([ALT_PY, "-m", "harness.wm_alt_child", tier, str(seed), which], stdout=subprocess.PIPE,
                            stderr=subprocess.PIPE, text=True, env=env,
                            cwd=os.path.dirname(os.path.dirname(os.path.abspath(__file__))))


def alt_collect(proc, tier, which):
    import json
    import subprocess
    if proc is None:
        return
    try:
        out, err = proc.communicate(timeout=1500 if tier == "quick" else 5000)
    except subprocess.TimeoutExpired:
        proc.kill()
        yield {"_kind": "cert", "which": which, "ver": "V311", "src": "alt-error", "pre": {"obs": {"machine_error": "3.11 child timed out"}}}
        return
    if proc.returncode != 0:
        yield {"_kind": "cert", "which": which, "ver": "V311", "src": "alt-error",
               "pre": {"obs": {"machine_error": "3.11 child failed: " + err[-800:]}}}
        return
    for line in out.splitlines():
        if line.startswith("{"):
            yield json.loads(line)


BS_PY = (("3.10", "/root/.pyenv/versions/3.10.*/bin/python"), ("3.9", "/root/.pyenv/versions/3.9.*/bin/python"))


def bs_start(tier, seed):
    """start harness/bs_child.py under CPython 3.10 and 3.9 (kind `bs`: block-stack model M_BlockStack.v)"""
    import glob as _glob
    import subprocess
    here = os.path.dirname(os.path.abspath(__file__))
    procs = []
    for label, pat in BS_PY:
        paths = sorted(_glob.glob(pat))
        if not paths:
            continue
        repo = os.environ.get("VERIF_REPO", "/repo")
        env = dict(os.environ, PYTHONHASHSEED="0", PYTHONDONTWRITEBYTECODE="1",
                   PYTHONPATH=os.pathsep.join([repo, os.path.dirname(here), os.path.join(here, "shims")]))
        procs.append((label, subprocess.Popen([paths[-1], "-m", "harness.bs_child", tier, str(seed)], stdout=subprocess.PIPE,
                                              stderr=subprocess.PIPE, text=True, env=env, cwd=os.path.dirname(here))))
    return procs


def bs_collect(procs, tier):
    import json
    import subprocess
    for label, proc in procs:
        try:
            out, err = proc.communicate(timeout=600 if tier == "quick" else 3000)
        except subprocess.TimeoutExpired:
            proc.kill()
            out, err = "", "timed out"
        if proc.returncode != 0:
            yield {"_kind": "bs", "which": "bs", "ver": label, "src": "bs-error",
                   "pre": {"obs": {"what": "bs_child under CPython %s" % label, "machine_error": "child failed: " + err[-800:]}}}
            continue
        for line in out.splitlines():
            if line.startswith("{"):
                yield json.loads(line)


def make_descs(tier, seed, which, alt=False):
    """which: 'susp' | 'run' -> descriptors for kinds cert and static"""
    rng = random.Random(seed * 104729 + 1)
    idx = stdlib_index()
    if tier == "quick":
        pick = rng.sample(range(len(idx)), 8 if alt else 20)
    else:
        pick = range(len(idx))
    descs = []
    for i in pick:
        rel, path = idx[i]
        descs.append({"src": "stdlib", "file": rel, "path": path})
    ngen = (25 if alt else 80) if tier == "quick" else (600 if alt else 1500)
    for k in range(len(LOOKALIKES)):
        descs.append({"src": "gen", "seed": -(k + 1), "size": 0})
    for k in range(ngen):
        # the many-constants shape (+520 code units each: large certificates): every 8th program in quick,
        # every 30th in thorough, where the sheer number of programs would otherwise dominate the Coq time
        descs.append({"src": "gen", "seed": seed * 1000003 + k, "size": 4 + (k % 9),
                      "many": (k % 8 == 3) if tier == "quick" else (k % 30 == 3)})
    proc = None
    bs_procs = []
    if not alt:
        proc = alt_start(tier, seed, which)
        bs_procs = bs_start(tier, seed)
        yield {"_kind": "live", "which": which, "tier": tier, "seed": seed}
    for d in descs:
        yield dict(d, _kind="cert", which=which)
        yield dict(d, _kind="static", which=which)
        yield dict(d, _kind="join", which=which)
        if which == "susp":
            yield dict(d, _kind="table", which=which)
    if which == "susp" and not alt:
        yield from syn_table_descs(tier, seed, which)
    if not alt:
        yield from alt_collect(proc, tier, which)
        yield from bs_collect(bs_procs, tier)


_CACHE = {}


def load_code(desc):
    key = (desc["src"], desc.get("file"), tuple(desc.get("path", ())), desc.get("seed"), desc.get("size"), desc.get("many"))
    if key in _CACHE:
        return _CACHE[key]
    if desc["src"] == "stdlib":
        root = os.path.dirname(os.__file__)
        fn = os.path.join(root, desc["file"])
        top = compile(open(fn, encoding="utf-8").read(), fn, "exec")
        co = find(top, desc["path"])
        text = "%s:%s:%d" % (desc["file"], co.co_name, co.co_firstlineno)
    elif desc["src"] == "text":
        top = compile(desc["text"], "<given>", "exec")
        co = find(top, desc.get("path", [0]))
        text = desc["text"]
    else:
        text = gen_program(desc["seed"], desc["size"], desc.get("many"))
        top = compile(text, "<gen %d>" % desc["seed"], "exec")
        co = find(top, [0])
    res = (co, text)
    if len(_CACHE) > 4000:
        _CACHE.clear()
    _CACHE[key] = res
    return res


def syn_table_bytes(entries):
    out = []

    def item(value, msb):
        for shift in (24, 18, 12, 6):
            if value >= (1 << shift):
                out.append(((value >> shift) & 0x3F) | 0x40 | msb)
                msb = 0
        out.append((value & 0x3F) | msb)

    for (start, size, target, depth, lasti) in entries:
        item(start, 0x80)
        item(size, 0)
        item(target, 0)
        item((depth << 1) | (1 if lasti else 0), 0)
    return out


def syn_table_descs(tier, seed, which):
    rng = random.Random(seed * 7919 + 23)
    n = 60 if tier == "quick" else 600
    for k in range(n):
        entries = []
        # the model's table entries are in unary nat (code units): keep every field below 2^14, which still
        # spans 1-, 2- and 3-byte varints with every parity of the top chunk
        for _ in range(rng.randint(1, 4)):
            start = rng.randrange(1 << rng.choice([5, 6, 7, 11, 12, 13, 14, 14]))
            size = 1 + rng.randrange(1 << rng.choice([3, 6, 7, 12, 13]))
            target = rng.randrange(1 << rng.choice([6, 12, 13, 14, 14]))
            entries.append([start, size, target, rng.randrange(1 << rng.choice([1, 3, 5, 6, 8])), rng.random() < 0.5])
        yield {"src": "syn", "_kind": "table", "which": which, "entries": entries}


def ncaches(units, p):
    k = 0
    while p + 1 + k < len(units) and units[p + 1 + k][0] == "ICache":
        k += 1
    return k


def run_positions(units, p):
    k = ncaches(units, p)
    return [p] if k == 0 else [p, p + k]


def obs_units(units, cert, which):
    """code units at which an observation of the selected kind can have f_lasti"""
    return sorted({l for (_, l, _) in machine_obs(units, cert, which)})


_LIVE = {}


def site_units(co, src):
    """BEFORE_(ASYNC_)WITH unit -> the site number written in the `M(kind, site ...)` call whose
    value that instruction enters (located through co_positions and the program text)"""
    import re
    lines = src.split("\n")
    out = {}
    instrs = list(dis.get_instructions(co))
    for i, ins in enumerate(instrs):
        if ins.opname not in ("BEFORE_WITH", "BEFORE_ASYNC_WITH") or i == 0:
            continue
        # the manager is the result of the CALL `M(kind, site, ...)` evaluated just before
        call = instrs[i - 1]
        po = call.positions
        if call.opname != "CALL" or po is None or po.lineno is None or po.end_lineno is None:
            continue
        seg = lines[po.lineno - 1:po.end_lineno]
        if not seg:
            continue
        seg[-1] = seg[-1][:po.end_col_offset]
        seg[0] = seg[0][po.col_offset:]
        m = re.match(r"\s*M\(\s*'[^']*',\s*(\d+)", "\n".join(seg))
        if m:
            out.setdefault(int(m.group(1)), []).append(ins.offset // 2)
    return out


def run_live(desc):
    """states of real frames (f_lasti + logged ground truth) from the runtime legs, grouped by
    code object and translated to code units / with-site units"""
    try:
        from . import progs
        corpus = progs.compile_corpus(desc["tier"], desc["seed"])
        by_code = {id(p.code): p for p in corpus}
        states, _ = progs.collect_states(desc["tier"], desc["seed"],
                                         "suspended" if desc["which"] == "susp" else "running",
                                         limit=4000 if desc["tier"] == "quick" else 40000, progs=corpus)
    except Exception as ex:  # noqa: BLE001
        return {"live_error": repr(ex)}
    groups = {}
    skipped = 0
    for st in states:
        co = st["code"]
        g = groups.get(id(co))
        if g is None:
            prog = by_code.get(id(co))
            src = getattr(prog, "src", None) if prog is not None else None
            if src is None:
                src = _src_of(co, st)
            g = groups[id(co)] = {"co": co, "src": src, "sites": site_units(co, src) if src else {}, "obs": [], "seen": set()}
        tr = []
        ok = True
        for site, asy, ph in st["truth"]:
            us = g["sites"].get(site)
            if not us:
                ok = False
                break
            tr.append((us, bool(asy), ph))
        if not ok:
            skipped += 1
            continue
        key = (bool(st["running"]), st["lasti"] // 2, json_key(tr))
        if key in g["seen"]:
            continue
        g["seen"].add(key)
        g["obs"].append({"running": bool(st["running"]), "lasti": st["lasti"] // 2,
                         "truth": [[list(u), a, p] for (u, a, p) in tr]})
    _LIVE["groups"] = groups
    return {"codes": len(groups), "states": sum(len(g["obs"]) for g in groups.values()), "unmapped_states": skipped,
            "sample": [g["obs"][:2] for g in list(groups.values())[:2]]}


def json_key(x):
    import json
    return json.dumps(x)


def _src_of(co, st):
    import inspect
    try:
        return inspect.getsource(co)
    except Exception:
        return None


def live_data():
    """one entry per observed code object: (units, table, cert, [(running, lasti, [(site unit, async, phase)])]);
    a truth site that a `finally` duplicated into several BEFORE_WITH units is resolved to the unit the
    certificate has in its truth near that position"""
    out = []
    for g in _LIVE.get("groups", {}).values():
        co = g["co"]
        try:
            units, table = W.abstract_code(co)
            cert = W.certificate(units, table)
        except (W.Unsupported, W.Stuck, W.Conflict):
            continue
        obs = []
        for o in g["obs"]:
            cands = []
            for p in range(max(0, o["lasti"] - 9), o["lasti"] + 1):
                if 0 <= p < len(cert) and cert[p] is not None:
                    cands += [e[0] for e in cert[p][1]]
            tr = []
            for us, a, ph in o["truth"]:
                u = next((x for x in us if x in cands), us[0])
                tr.append([u, bool(a), ph])
            obs.append([bool(o["running"]), o["lasti"], tr])
        if obs:
            out.append({"units": units, "table": table, "cert": cert, "obs": obs})
    return out


def live_terms(data):
    terms = []
    for e in data:
        cert = [None if c is None else (tuple(tuple(v) if isinstance(v, list) else v for v in c[0]),
                                        tuple(tuple(x) for x in c[1])) for c in e["cert"]]
        obs = []
        for running, lasti, tr in e["obs"]:
            trs = clist(["{| t_site := %d; t_inst := tt; t_async := %s; t_phase := %s |}" % (
                u, cbool(a), {"entering": "Entering", "active": "Active", "exiting": "Exiting"}[ph]) for u, a, ph in tr])
            obs.append("(%s, %d, %s)" % (cbool(running), lasti, trs))
        terms.append("(%s,\n %s,\n %s,\n %s)" % (W.code_coq([tuple(u) for u in e["units"]]),
                                                  W.table_coq([tuple(t) for t in e["table"]]), W.cert_coq(cert), clist(obs)))
    return terms


def get_uct(desc):
    """(units, table, certificate) of the descriptor's code object: precomputed by the 3.11 child
    or computed here"""
    if "pre" in desc:
        pre = desc["pre"]
        cert = [None if c is None else (tuple(tuple(v) if isinstance(v, list) else v for v in c[0]),
                                        tuple(tuple(e) for e in c[1])) for c in pre["cert"]]
        return [tuple(u) for u in pre["units"]], [tuple(t) for t in pre["table"]], cert
    co, _ = load_code(desc)
    units, table = W.abstract_code(co)
    return units, table, W.certificate(units, table)


def run_case(desc):
    if desc.get("src") == "alt-unavailable":
        from . import snippets
        raise snippets.SnippetError("(3.11 child) " + desc.get("unavailable", ""))
    if "pre" in desc:
        return desc["pre"]["obs"]
    from stackscope import _lowlevel as ll
    if desc["_kind"] == "live":
        return run_live(desc)

    if desc.get("src") == "syn":
        # a synthetic exception table written exactly as CPython's assembler writes one
        # (Python/assemble.c assemble_emit_exception_table_entry): fields far beyond what any corpus
        # function reaches (3-, 4- and 5-byte varints), parsed by stackscope's own parser
        raw = syn_table_bytes(desc["entries"])
        fake = types.SimpleNamespace(co_exceptiontable=bytes(raw))
        obs = {"what": "synthetic table %r" % (desc["entries"],), "bytes": list(raw)}
        obs["parsed"] = [[s // 2, e // 2, t // 2, d, bool(l)] for (s, e, t, d, l) in ll._parse_exception_table(fake)]
        ref = [[a, a + n - 1, t, d, bool(l)] for (a, n, t, d, l) in desc["entries"]]
        obs["agrees_with_dis"] = ref == obs["parsed"]
        return obs
    co, text = load_code(desc)
    obs = {"what": text if len(text) < 1500 else text[:1500]}
    if desc["_kind"] == "table":
        # stackscope's own parser on the raw table (byte offsets -> code units)
        obs["bytes"] = list(co.co_exceptiontable)
        obs["parsed"] = [[s // 2, e // 2, t // 2, d, bool(l)] for (s, e, t, d, l) in ll._parse_exception_table(co)]
        ref = [[e.start // 2, e.end // 2 - 1, e.target // 2, e.depth, bool(e.lasti)] for e in dis._parse_exception_table(co)]
        obs["agrees_with_dis"] = ref == obs["parsed"]
        return obs
    try:
        units, table = W.abstract_code(co)
        cert = W.certificate(units, table)
    except (W.Unsupported, W.Stuck, W.Conflict) as ex:
        obs["machine_error"] = "%s: %s" % (type(ex).__name__, ex)
        return obs
    obs["units"] = len(units)
    if desc["_kind"] == "cert":
        obs["nobs"] = len(obs_units(units, cert, desc["which"]))
        return obs
    if desc["_kind"] == "join":
        obs["join"] = run_join(co, units, cert, desc["which"])
        return obs
    # static: what the real functions say
    ex = []
    for p in obs_units(units, cert, desc["which"]):
        stub = types.SimpleNamespace(f_code=co, f_lasti=2 * p)
        with warnings.catch_warnings(record=True) as wl:
            warnings.simplefilter("always")
            try:
                r = ll.currently_exiting_context(stub)
            except Exception as e:  # noqa: BLE001
                obs.setdefault("raised", []).append([p, repr(e)])
                continue
        if any(issubclass(w.category, ll.InspectionWarning) for w in wl):
            ex.append([p, "warn"])
        elif r is None:
            ex.append([p, "none"])
        else:
            ex.append([p, "some", bool(r.is_async), r.cleanup_offset // 2])
    obs["exiting"] = ex
    try:
        wbi = ll.analyze_with_blocks(co)
        obs["winfo"] = sorted([h // 2, bool(c.is_async)] for h, c in wbi.items())
    except Exception as e:  # noqa: BLE001
        obs["winfo"] = None
        obs["winfo_error"] = repr(e)
    return obs


def machine_obs(units, cert, which):
    """the observations M_WithMachine.obs offers in certified states: (running, lasti, stack top-first)"""
    out = []
    for p, u in enumerate(units):
        if cert[p] is None:
            continue
        st = cert[p][0]
        k = u[0]
        if which == "susp":
            if k == "IYield" and st:
                out.append((False, p, st[1:]))
            continue
        run = False
        if k in ("ICall", "IBeforeWith", "IForIter", "ISend"):
            run = True
        elif k == "IWithExceptStart":
            run = len(st) > 3 and isinstance(st[3], tuple) and st[3][0] == "X"
        elif k == "IGetAwaitable":
            run = bool(st) and st[0] == "O"
        elif (k == "ICondJump" and u[2]) or (k == "IGen" and u[3]):
            run = True
        if run:
            for l in run_positions(units, p):
                out.append((True, l, st))
    return out


_SNIP = None


class _Mgr:
    """dummy manager standing for 'the manager entered at with-site s'"""
    def __init__(self, site):
        self.site = site

    def __exit__(self, *a):
        return None

    async def __aexit__(self, *a):
        return None


def run_join(co, units, cert, which):
    """the real _contexts_active_by_trickery on every certified observation: value stack taken
    from the certificate (ctypes reads replaced), exception-table walk and trim executed from
    inspect_frame's own source (harness/snippets.py)"""
    global _SNIP
    from stackscope import _lowlevel as ll
    if _SNIP is None:
        from . import snippets
        _SNIP = snippets.load()
    trim, blocks = _SNIP
    mgrs = {}
    res = []
    saved = ll.inspect_frame
    try:
        for running, lasti, st in machine_obs(units, cert, which):
            stack = []
            for v in reversed(st):                       # bottom first, as FrameDetails.stack
                if isinstance(v, tuple) and v[0] == "X":
                    m = mgrs.setdefault(v[1], _Mgr(v[1]))
                    stack.append(m.__aexit__ if units[v[1]][1] else m.__exit__)
                else:
                    stack.append(object())
            depth = trim(co, 2 * lasti)
            bl = blocks(co, 2 * lasti)
            vis = stack[:depth] if running else stack
            details = ll.FrameDetails(blocks=list(bl), stack=vis)
            ll.inspect_frame = lambda frame, _d=details: _d
            stub = types.SimpleNamespace(f_code=co, f_lasti=2 * lasti, f_locals={})
            with warnings.catch_warnings(record=True) as wl:
                warnings.simplefilter("always")
                try:
                    ctxs = ll._contexts_active_by_trickery(stub)
                    if any(issubclass(w.category, ll.InspectionWarning) for w in wl):
                        view = "warn"
                    else:
                        view = [[None if c.is_exiting else getattr(c.obj, "site", -1), bool(c.is_async), bool(c.is_exiting)]
                                for c in ctxs]
                except Exception as e:  # noqa: BLE001
                    view = "raise:" + type(e).__name__
            res.append({"running": running, "lasti": lasti, "stack": [list(v) if isinstance(v, tuple) else v for v in st],
                        "view": view, "blocks": [[b.handler // 2, b.level] for b in bl], "trim": depth})
    finally:
        ll.inspect_frame = saved
    return res


def join_coq(units, table, obs, ver="V312"):
    outs = []
    for o in obs:
        st = clist([W.val_coq(tuple(v) if isinstance(v, list) else v) for v in o["stack"]])
        v = o["view"]
        if v == "warn":
            pv = "(Some None)"
        elif isinstance(v, str):
            pv = "None"
        else:
            pv = "(Some (Some %s))" % clist(["(%s, %s, %s)" % (copt(None if x[0] is None else str(x[0])), cbool(x[1]), cbool(x[2]))
                                             for x in v])
        bl = "(Some %s)" % clist(["(%d, %d)" % (h, l) for h, l in o["blocks"]])
        outs.append("(%s, %d, %s, %s, %s, %d)" % (cbool(o["running"]), o["lasti"], st, pv, bl, o["trim"]))
    return "(%s, %s,\n %s,\n %s)" % (ver, W.code_coq(units), W.table_coq(table), clist(outs))


def coq_case(desc, obs):
    if desc["_kind"] == "live":
        data = desc["pre"]["live"] if "pre" in desc else live_data()
        return live_terms(data) or None
    if desc["_kind"] == "table":
        return "(%s,\n %s)" % (clist(["%d%%N" % b for b in obs["bytes"]]),
                              W.table_coq([tuple(x) for x in obs["parsed"]]))
    if "machine_error" in obs:
        return None
    if desc["_kind"] == "bs":
        return bs_coq(obs)
    units, table, cert = get_uct(desc)
    if desc["_kind"] == "join":
        return join_coq(units, table, obs["join"], desc.get("ver", "V312"))
    if desc["_kind"] == "cert":
        return "(%s, %s,\n %s,\n %s)" % (desc.get("ver", "V312"), W.code_coq(units), W.table_coq(table), W.cert_coq(cert))

    def ex(e):
        if e[1] == "warn":
            return "(%d, EWarn)" % e[0]
        if e[1] == "none":
            return "(%d, ENone)" % e[0]
        return "(%d, ESome %s %d)" % (e[0], cbool(e[2]), e[3])

    wi = None if obs["winfo"] is None else clist(["(%d, %s)" % (h, cbool(a)) for h, a in obs["winfo"]])
    return "(%s, %s,\n %s,\n %s,\n %s)" % (desc.get("ver", "V312"), W.code_coq(units), W.table_coq(table),
                                          clist([ex(e) for e in obs["exiting"]]), copt(wi))


def bs_coq(obs):
    def unit(u):
        if len(u) == 1:
            return u[0]
        if u[0] == "BSetup":
            return "BSetup %s %d" % (u[1], u[2])
        if u[0] == "BLoadConst":
            return "BLoadConst %s" % cbool(u[1])
        return "%s %d" % (u[0], u[1])

    def ex(e):
        p, r = e
        if r == "none":
            return "(%d, ENone)" % p
        if r == "warn":
            return "(%d, EWarn)" % p
        if r == "crash":
            return "(%d, ECrash)" % p
        return "(%d, EExit %s %d)" % (p, cbool(r[1]), r[2])

    def st(s):
        return "None" if s is None else "Some " + clist([str(h) for h in s])

    return "(%s,\n %s,\n %s,\n %s)" % (clist([unit(u) for u in obs["units"]]), clist([st(s) for s in obs["cert"]]),
                                        clist(["(%d, %s)" % (h, cbool(a)) for h, a in obs["info"]]),
                                        clist([ex(e) for e in obs["exits"]]))


def direct_oracle(desc, obs):
    if desc["_kind"] == "live":
        return None
    if desc["_kind"] == "bs":
        if "machine_error" in obs:
            return ("the block-stack machine cannot explain this code object (no certificate): %s -- either the "
                    "CPython 3.9/3.10 model is incomplete for it or the compiler broke an assumption" % obs["machine_error"])
        bad = [e for e in obs["exits"] if e[1] in ("warn", "crash") and obs["cert"][e[0]] is not None]
        if bad:
            return ("currently_exiting_context %s on reachable compiler output at units %r"
                    % ("emitted an InspectionWarning" if bad[0][1] == "warn" else "raised", [e[0] for e in bad][:8]))
        return None
    if desc["_kind"] == "table":
        return None if obs["agrees_with_dis"] else "_parse_exception_table disagrees with CPython's own dis._parse_exception_table"
    if "machine_error" in obs:
        return ("the with-machine cannot explain this code object (no certificate): %s -- either the "
                "CPython model is incomplete for it or the compiler broke an assumption" % obs["machine_error"])
    if obs.get("raised"):
        return "currently_exiting_context raised: %r" % obs["raised"][:3]
    if desc["_kind"] == "join":
        bad = [o for o in obs.get("join", []) if isinstance(o["view"], str)]
        if bad:
            return ("_contexts_active_by_trickery %s on a certified observation of compiler output (lasti unit %d)"
                    % (bad[0]["view"], bad[0]["lasti"]))
        return None
    if desc["_kind"] == "static" and obs.get("winfo") is None:
        return "analyze_with_blocks raised on compiler output: %s" % obs.get("winfo_error")
    if desc["_kind"] == "static" and any(e[1] == "warn" for e in obs.get("exiting", [])):
        return "currently_exiting_context emitted an InspectionWarning on compiler output at units %r" % [
            e[0] for e in obs["exiting"] if e[1] == "warn"]
    return None


def classify(desc, obs):
    if desc["_kind"] == "live":
        tag = ":py3.11" if desc.get("ver") == "V311" else ""
        return ["live%s:states=%s" % (tag, obs.get("states")), "live%s:unmapped=%s" % (tag, obs.get("unmapped_states"))]
    if desc["_kind"] == "bs":
        return ["%s:bs:py%s" % (desc["src"], desc.get("ver")),
                "bs:exit_sites=%d" % min(len([e for e in obs.get("exits", []) if isinstance(e[1], list)]), 5)]
    labs = [desc["src"] + ":" + desc["_kind"] + (":py3.11" if desc.get("ver") == "V311" else "")]
    if "units" in obs:
        labs.append("units<%d" % (50 if obs["units"] < 50 else 200 if obs["units"] < 200 else 1000 if obs["units"] < 1000 else 100000))
    if desc["_kind"] == "static":
        labs.append("exiting_sites=%d" % min(len([e for e in obs.get("exiting", []) if e[1] == "some"]), 5))
    return labs
