"""C16 real-chain leg: suspended await / yield-from / async-generator chains of every link-kind
combination up to a depth, a running generator, a thread, a greenlet, custom items with and
without frames.  Ground truth comes from the objects themselves (cr_frame / gi_frame / ag_frame),
not from stackscope.

Checked for every root x of the corpus (with_contexts on and off):
  R1 every frame that belongs to a suspended coroutine / generator / async generator of the chain
     has exactly that object as origin, and the chain's frames appear in await order;
  R2 every frame with a non-None origin: weakref.ref(origin) works and
     extract_outermost(origin).pyframe is frame.pyframe (and its origin is origin);
  R3 extract_outermost(x) equals extract(x).frames[0] (pyframe, lineno, hide flags, origin,
     contexts with their inner stacks / children), and raises iff extract(x) has no frames:
     the recorded error (same type and args; the group if several) or the RuntimeError.
"""
from __future__ import annotations

import itertools
import sys
import threading
import time
import types

from . import c05_real as R
from .c16 import origin_contract, outermost_contract, _frame_eq, _stack_eq

KINDS_ASYNC = ["coro", "wrapper", "agen", "asend", "gencoro"]


class Park2:
    """an awaitable that suspends without contributing a frame"""
    def __await__(self):
        return iter(["parked"])


class AwWrapper:
    def __init__(self, co):
        self.co = co

    def __await__(self):
        return self.co.__await__()


def build_async(kinds, record, with_cm):
    """-> coroutine object implementing the chain; objects are appended to `record` when created
    (outer to inner) as (object, frame-attribute-name)"""
    def child():
        return build_async(kinds[1:], record, with_cm)

    if not kinds:
        async def leaf():
            if with_cm:
                with R.cm_inner("leaf"):
                    await Park2()
            else:
                await Park2()
        co = leaf()
        record.append((co, "cr_frame"))
        return co
    k = kinds[0]
    if k == "coro":
        async def link():
            await child()
        co = link()
        record.append((co, "cr_frame"))
        return co
    if k == "wrapper":
        def wrap(c):
            # a generator-based coroutine has no __await__: awaited directly
            return AwWrapper(c) if hasattr(c, "__await__") else c

        async def link():
            if with_cm:
                async with R.acm("w"):
                    await wrap(child())
            else:
                await wrap(child())
        co = link()
        record.append((co, "cr_frame"))
        return co
    if k in ("agen", "asend"):
        async def ag():
            await child()
            yield 1

        async def link():
            a = ag()
            record.append((a, "ag_frame"))
            if k == "agen":
                async for _ in a:
                    pass
            else:
                await a.asend(None)
        co = link()
        record.append((co, "cr_frame"))
        return co
    if k == "gencoro":
        @types.coroutine
        def link():
            yield from child()
        co = link()
        record.append((co, "gi_frame"))
        return co
    raise ValueError(k)


def build_gen(depth, record, with_cm):
    def g(n):
        if n == 0:
            if with_cm:
                with R.cm_outer("g"):
                    yield 0
            else:
                yield 0
        else:
            c = g(n - 1)
            record.append((c, "gi_frame"))
            yield from c
    top = g(depth)
    record.insert(0, (top, "gi_frame"))
    return top


def own_frame(o):
    """the frame a coroutine / generator / async generator object owns (ground truth from the object)"""
    for attr in ("cr_frame", "gi_frame", "ag_frame"):
        if hasattr(o, attr):
            return getattr(o, attr)
    return None


def own_frame_contract(st):
    """R4: a non-None origin is the object whose own frame this frame is -> None | message"""
    for i, fr in enumerate(st.frames):
        o = fr.origin
        if o is not None and own_frame(o) is not fr.pyframe:
            of = own_frame(o)
            return ("frame %d (%s, line %d) has origin %s whose own frame is %s"
                    % (i, fr.pyframe.f_code.co_name, fr.lineno, type(o).__name__,
                       "line %d of %s" % (of.f_lineno, of.f_code.co_name) if of is not None else "none"))
    return None


def check_root(x, expect, viol, label, stats):
    """expect: list of (object, frame attr) that must appear, in order, as frames with that origin
    (None = no ground truth for this root)"""
    import stackscope
    for wc in (True, False):
        stats["roots"] += 1
        try:
            st = stackscope.extract(x, with_contexts=wc)
        except BaseException as ex:  # noqa: BLE001
            viol.append({"what": f"[real:{label}] extract raised {ex!r}", "input": {"root": label, "with_contexts": wc}})
            continue
        msgs = []
        if expect is not None:
            want = [(getattr(o, a), o) for o, a in expect]
            got = [(fr.pyframe, fr.origin) for fr in st.frames]
            if [id(f) for f, _ in got] != [id(f) for f, _ in want]:
                msgs.append("R1 frames are not the chain's frames in await order: got %r, expected %r"
                            % ([f.f_code.co_name for f, _ in got], [f.f_code.co_name for f, _ in want]))
            else:
                for i, ((_, o_got), (_, o_want)) in enumerate(zip(got, want)):
                    if o_got is not o_want:
                        msgs.append("R1 frame %d: origin is %s, expected the %s owning the frame"
                                    % (i, type(o_got).__name__, type(o_want).__name__))
            stats["chain_frames"] += len(want)
        stats["frames_with_origin"] += sum(fr.origin is not None for fr in st.frames)
        m = origin_contract(st, with_contexts=wc)
        if m:
            msgs.append("R2 " + m)
        m = own_frame_contract(st)
        if m:
            msgs.append("R4 " + m)
        m = outermost_contract(x, st, with_contexts=wc)
        if m:
            msgs.append("R3 " + m)
        # frames of nested stacks (inner_stack of generator-based managers) obey R2 as well
        for sub in R.walk_stacks(st)[1:]:
            m = origin_contract(sub, with_contexts=wc)
            if m:
                msgs.append("R2 (nested stack) " + m)
            stats["frames_with_origin"] += sum(fr.origin is not None for fr in sub.frames)
        for m in msgs:
            if len(viol) < 40:
                viol.append({"what": f"[real:{label}] {m}", "input": {"root": label, "with_contexts": wc}})


def run(tier, seed):
    R.setup()
    quick = tier == "quick"
    viol = []
    stats = {"roots": 0, "chain_frames": 0, "frames_with_origin": 0, "chains": 0}
    maxd = 3 if quick else 5
    # async chains: every combination of link kinds up to maxd
    for depth in range(0, maxd + 1):
        for kinds in itertools.product(KINDS_ASYNC, repeat=depth):
            if not quick and depth == 5 and (hash(kinds) % 4):
                continue
            for with_cm in ((False, True) if depth <= 2 else (depth % 2 == 0,)):
                record = []
                co = build_async(list(kinds), record, with_cm)
                try:
                    co.send(None)
                    stats["chains"] += 1
                    label = "async:" + "/".join(kinds) + (":cm" if with_cm else "")
                    # creation order of links is outer to inner except that a link records its
                    # own object after building it: sort by await order
                    check_root(co, _await_order(co, record), viol, label, stats)
                    # every intermediate object is a root of its own sub-chain
                    for obj, attr in record[1:]:
                        if getattr(obj, attr) is not None:
                            sub = _await_order(obj, record)
                            check_root(obj, sub, viol, label + ":sub", stats)
                finally:
                    co.close()
    # generator chains
    for depth in range(0, maxd + 2):
        for with_cm in (False, True):
            record = []
            g = build_gen(depth, record, with_cm)
            next(g)
            stats["chains"] += 1
            try:
                check_root(g, _await_order(g, record), viol, f"gen:{depth}" + (":cm" if with_cm else ""), stats)
            finally:
                g.close()
    # a running generator extracted from inside one of its callees
    def running_gen():
        box = []

        def callee():
            check_root(box[0], None, viol, "running-generator", stats)
            import stackscope
            st = stackscope.extract(box[0])
            if not st.frames or st.frames[0].pyframe is not box[0].gi_frame or st.frames[0].origin is not box[0]:
                viol.append({"what": "[real:running-generator] first frame is not the generator's own frame with the generator as origin",
                             "input": {"root": "running-generator"}})
            if any(fr.origin is not None for fr in st.frames[1:]):
                viol.append({"what": "[real:running-generator] a callee of the running generator has a non-None origin",
                             "input": {"root": "running-generator"}})

        def gen():
            callee()
            yield 1
        box.append(gen())
        next(box[0])
        box[0].close()
    running_gen()
    recursive_running(viol, stats, 3 if quick else 4)
    reentrant_calls(viol, stats)
    same_code_foreign_frame(viol, stats)
    # scenarios of the C05 leg: thread, greenlet, custom items, running stack
    for label, scen in R.SCENARIOS:
        try:
            scen(lambda root, label=label: check_root(root, None, viol, label, stats))
        except BaseException as ex:  # noqa: BLE001
            viol.append({"what": f"[real:{label}] scenario crashed {ex!r}", "input": {"root": label}})
    # items without frames, with a failing unwrap
    from stackscope import unwrap_stackitem

    class Failing:
        pass
    boom = ValueError("unwrap failed", 16)

    @unwrap_stackitem.register(Failing)
    def _(x):
        raise boom
    for x in R.non_stack_roots() + [R.SeqItem(), R.SeqItem(None, 5), R.IterItem(), Failing(), R.SeqItem(Failing(), Failing()),
                                    R.SeqItem(Failing(), 3)]:
        check_root(x, None, viol, "frameless:" + type(x).__name__, stats)
    import stackscope
    try:
        stackscope.extract_outermost(Failing())
    except ValueError as ex:
        if ex is not boom:
            viol.append({"what": "[real:frameless] extract_outermost did not re-raise the recorded exception object", "input": {}})
    except BaseException as ex:  # noqa: BLE001
        viol.append({"what": f"[real:frameless] extract_outermost raised {ex!r} instead of the recorded error", "input": {}})
    else:
        viol.append({"what": "[real:frameless] extract_outermost returned although there is no frame", "input": {}})
    return dict(evaluations=stats["roots"], violations=viol, info=stats)


def recursive_running(viol, stats, maxd):
    """recursive generator / coroutine / async-generator chains (the same function at every level, and
    mutually recursive pairs), extracted from inside at every level while the chain is RUNNING: the inner
    instances are then reached as plain f_back callees of the outer one, with the outer object still
    carried as origin candidate, and they execute the same code object."""
    stats.setdefault("running_probes", 0)

    def probe(objs, label):
        # called from inside the chain: extract every object created so far
        for i, o in enumerate(objs):
            stats["running_probes"] += 1
            check_root(o, None, viol, "%s:level%d-of-%d" % (label, i, len(objs)), stats)
            import stackscope
            st = stackscope.extract(o)
            if not st.frames or st.frames[0].pyframe is not own_frame(o) or st.frames[0].origin is not o:
                viol.append({"what": "[real:%s] extracting running object #%d: first frame is not its own frame with itself as origin"
                             % (label, i), "input": {"root": label}})

    for depth in range(2, maxd + 1):
        # --- generators, self recursion and a mutually recursive pair
        objs = []

        def walk(n):
            probe(objs, "rec-gen:%d" % depth)
            if n == 0:
                yield "leaf"
            else:
                c = walk(n - 1)
                objs.append(c)
                yield from c
        root = walk(depth)
        objs.append(root)
        next(root)
        check_root(root, [(o, "gi_frame") for o in objs], viol, "rec-gen:%d:suspended" % depth, stats)
        root.close()

        objs = []

        def ping(n):
            probe(objs, "mutual-gen:%d" % depth)
            if n == 0:
                yield "leaf"
            else:
                c = pong(n - 1)
                objs.append(c)
                yield from c

        def pong(n):
            probe(objs, "mutual-gen:%d" % depth)
            if n == 0:
                yield "leaf"
            else:
                c = ping(n - 1)
                objs.append(c)
                yield from c
        root = ping(depth)
        objs.append(root)
        next(root)
        root.close()

        # --- coroutines
        objs = []

        async def descend(n):
            probe(objs, "rec-coro:%d" % depth)
            if n:
                c = descend(n - 1)
                objs.append(c)
                await c
            else:
                await Park2()
        root = descend(depth)
        objs.append(root)
        root.send(None)
        check_root(root, [(o, "cr_frame") for o in objs], viol, "rec-coro:%d:suspended" % depth, stats)
        root.close()

        objs = []

        async def aping(n):
            probe(objs, "mutual-coro:%d" % depth)
            if n:
                c = apong(n - 1)
                objs.append(c)
                await c

        async def apong(n):
            probe(objs, "mutual-coro:%d" % depth)
            if n:
                c = aping(n - 1)
                objs.append(c)
                await c
        root = aping(depth)
        objs.append(root)
        try:
            root.send(None)
        except StopIteration:
            pass

        # --- async generators
        objs = []

        async def awalk(n):
            probe(objs, "rec-agen:%d" % depth)
            if n == 0:
                yield "leaf"
            else:
                a = awalk(n - 1)
                objs.append(a)
                async for x in a:
                    yield x
        root = awalk(depth)
        objs.append(root)
        try:
            root.asend(None).send(None)
        except StopIteration:
            pass
        check_root(root, None, viol, "rec-agen:%d:suspended" % depth, stats)
        try:
            root.aclose().send(None)
        except (StopIteration, StopAsyncIteration):
            pass


class TaskCM:
    """a manager with a child *task* stack: full or stub depending on recurse_child_tasks"""
    def __init__(self, side):
        self.side = side

    def __enter__(self):
        return self

    def __exit__(self, *a):
        return False


class HookItem:
    thunk = None
    result = None


def _re_host():
    yield 0


def reentrant_calls(viol, stats):
    """extract_outermost(y, **b) and extract(y, **b) called from inside an unwrap_stackitem hook and from
    inside an elaborate_frame hook of an enclosing extract(x, **a), for all option values a, b: equal to
    each other (first frame) and to the same calls made at top level -- a re-entrant call uses its own
    arguments, not the options of the extraction in progress around it."""
    import stackscope
    from stackscope import unwrap_stackitem, elaborate_frame, elaborate_context, extract_child
    stats.setdefault("reentrant_calls", 0)
    if not getattr(HookItem, "_registered", False):
        @unwrap_stackitem.register(HookItem)
        def _(x):
            HookItem.result = HookItem.thunk()
            return None

        @elaborate_frame.register(_re_host)
        def _(frame, next_inner):
            if HookItem.thunk is not None:
                HookItem.result = HookItem.thunk()
            return None

        @elaborate_context.register(TaskCM)
        def _(mgr, context):
            context.description = "TaskCM()"
            context.children = [extract_child(mgr.side, for_task=True)]
        HookItem._registered = True

    def side():
        with R.cm_inner("side"):
            yield 1

    def target(sd):
        with R.cm_outer("y"), TaskCM(sd):
            yield 2
    sd, host = side(), _re_host()
    y = target(sd)
    for g in (sd, host, y):
        next(g)
    bools = (False, True)
    try:
        HookItem.thunk = None
        top = {}
        for b in bools:
            for rb in bools:
                kw = dict(with_contexts=b, recurse_child_tasks=rb)
                top[b, rb] = (stackscope.extract_outermost(y, **kw), stackscope.extract(y, **kw))
        # sanity: the options are observable on y's outermost frame
        if _frame_eq(top[True, True][0], top[False, True][0]) is None or _frame_eq(top[True, True][0], top[True, False][0]) is None:
            viol.append({"what": "[real:reentrant] harness: the option values are not observable on the target frame", "input": {}})
        for where in ("unwrap_stackitem", "elaborate_frame"):
            for a in bools:
                for ra in bools:
                    for b in bools:
                        for rb in bools:
                            kw = dict(with_contexts=b, recurse_child_tasks=rb)
                            HookItem.thunk = lambda kw=kw: (stackscope.extract_outermost(y, **kw), stackscope.extract(y, **kw))
                            HookItem.result = None
                            outer = stackscope.extract(HookItem() if where == "unwrap_stackitem" else host,
                                                       with_contexts=a, recurse_child_tasks=ra)
                            HookItem.thunk = None
                            stats["reentrant_calls"] += 1
                            inp = {"root": "reentrant", "hook": where, "outer": {"with_contexts": a, "recurse_child_tasks": ra},
                                   "inner": kw}
                            if outer.error is not None or HookItem.result is None:
                                viol.append({"what": "[real:reentrant] the hook did not run cleanly: %r" % (outer.error,), "input": inp})
                                continue
                            fo, st = HookItem.result
                            msgs = []
                            m = _frame_eq(fo, st.frames[0]) if st.frames else "extract has no frames"
                            if m:
                                msgs.append("extract_outermost(y, **b) != extract(y, **b).frames[0] inside the hook: " + m)
                            m = _frame_eq(fo, top[b, rb][0])
                            if m:
                                msgs.append("re-entrant extract_outermost(y, **b) differs from the top-level call: " + m)
                            m = _stack_eq(st, top[b, rb][1], "stack")
                            if m:
                                msgs.append("re-entrant extract(y, **b) differs from the top-level call: " + m)
                            for m in msgs:
                                if len(viol) < 40:
                                    viol.append({"what": "[real:reentrant in %s, outer %s/%s, inner %s/%s] %s" % (where, a, ra, b, rb, m),
                                                 "input": inp})
    finally:
        HookItem.thunk = None
        for g in (y, host, sd):
            g.close()


class Delegate:
    """a non-generator iterator a generator can `yield from`; it unwraps to a raw frame"""
    def __init__(self, frame):
        self.frame = frame

    def __iter__(self):
        return self

    def __next__(self):
        return 1


def same_code_foreign_frame(viol, stats):
    """a suspended generator A delegating (through a plain iterator object) to the raw frame of ANOTHER
    suspended instance B of the same generator function: that frame is reached with A as origin candidate and
    runs A's code object, but it is not A's own frame, so its origin must not be A"""
    from stackscope import unwrap_stackitem

    if not getattr(Delegate, "_registered", False):
        @unwrap_stackitem.register(Delegate)
        def _(d):
            return d.frame
        Delegate._registered = True

    def twin(target):
        if target is None:
            yield 0
        else:
            yield from target
    b = twin(None)
    next(b)
    a = twin(Delegate(b.gi_frame))
    next(a)
    try:
        import stackscope
        st = stackscope.extract(a)
        if [f.pyframe for f in st.frames] != [a.gi_frame, b.gi_frame]:
            viol.append({"what": "[real:same-code-foreign-frame] frames are not [A's frame, B's frame]", "input": {"root": "twin"}})
        check_root(a, None, viol, "same-code-foreign-frame", stats)
    finally:
        a.close()
        b.close()


def _await_order(root, record):
    """the sub-chain starting at `root`, in await order, from the objects' own links"""
    by_id = {id(o): (o, a) for o, a in record}
    order = []
    cur = root
    seen = set()
    while cur is not None and id(cur) not in seen:
        seen.add(id(cur))
        if id(cur) in by_id:
            order.append(by_id[id(cur)])
        nxt = None
        for attr in ("cr_await", "gi_yieldfrom", "ag_await"):
            if hasattr(cur, attr):
                nxt = getattr(cur, attr)
                break
        else:
            # wrapper objects (coroutine_wrapper, asend awaitables, AwWrapper): the recorded object they refer to
            import gc
            for ref in gc.get_referents(cur):
                if id(ref) in by_id:
                    nxt = ref
                    break
        cur = nxt
    return order
