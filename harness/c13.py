"""C13 — extraction options are scoped to their call tree and thread; stubs honoured.

Correspondence.  Every thread of a case executes a *program tree* through the real public API:

  ["ext", wc, rc, how, hook, exc, body]   one public entry point called with with_contexts=wc,
        recurse_child_tasks=rc.  how = extract | outermost (extract_outermost) on a synthetic item, or
        since_frame | since_none (extract_since(outer frame | None)) | until_int | until_none |
        until_frame (extract_until(inner, limit=2 | None | outer frame)) on live frames of the calling
        thread.  A hook (unwrap_stackitem | elaborate_frame | elaborate_context, all registered through
        the public registration API; for the live forms elaborate_frame on the inner frame or
        elaborate_context on a manager active in the outer frame) runs `body`
        and then returns, raises an Exception (contained by extract, propagated by
        extract_outermost) or raises a BaseException (propagates through every push)
  ["fill", exc, body]                     fill_context(Context(obj=mgr)) whose elaborate_context hook runs body
  ["same", hook, exc, body]               extract_child(item, for_task=False) whose hook runs body (no push)
  ["child", ft]                           extract_child(task, for_task=ft)  -> refuse | stub | full
  ["read"]                                extract_child(two frames inside `with` blocks, for_task=False)
                                          -> refuse | contexts all empty | contexts filled

2-4 real threads are stepped through a schedule (list of thread ids) by a condition variable:
each entry lets one thread perform exactly one operation of the model (Enter, Leave, Child,
Read ...) while all others are parked, so the real interleaving IS the schedule.  The
observations every thread made are printed as Gallina literals next to the programs and the
schedule; Coq replays M_Options.run under the storage discipline regenerated from the source and
reports the cases that differ.  Kind "exh" runs ALL interleavings of a small program set and
Coq also checks that the list of schedules is exactly M_Options.schedules_of.

Direct oracle (implementation alone): lexical scoping -- every observation must be the one
determined by the options of the innermost enclosing "ext" of the same thread (or (True, False)
under a top-level "fill", or refusal outside), whatever the other threads do; stubs carry only
root; the frames seen by "read" are the same two frames whether or not contexts are filled.
Aliasing oracle (multi-step history): every stub a "child" obtains is expanded in place by the
harness (a consumer appending a Frame to stub.frames) and a second stub is requested at once;
the `frames` list of every returned Stack must be a list object never handed out before (`is not`
against the lists returned so far in this process: same call tree, later extractions, other
threads, earlier cases) and every later stub must still be frameless.
Extra leg: free-running (no barriers, 10 us switch interval) threads doing nested extractions.
"""
from __future__ import annotations

import itertools
import random

from .common import cbool, clist

PROP = "C13"
IMPORTS = "From SS Require Import Base M_Options."
KINDS = {
    "main": dict(imports=IMPORTS, type="ocase", mismatch="mismatches", nontrivial="count_nontrivial"),
    "exh": dict(imports=IMPORTS, type="xcase", mismatch="xmismatches", nontrivial="xcount_nontrivial"),
}
SHARD = 200
RULE = ("per thread a random program tree (nesting <= 4 pushing levels, <= 14 operations) over all public entry points "
        "(extract, extract_outermost, extract_since(frame|None), extract_until(limit=int|None|frame), fill_context outside) "
        "x {unwrap_stackitem, elaborate_frame, elaborate_context} hooks x 4 option pairs x {return, Exception, BaseException}, "
        "fill_context inside and outside an extraction, extract_child with and without for_task; 1-4 real threads stepped "
        "operation by operation through a sampled interleaving (uniform shuffles, round-robin, block-wise); kind 'exh': all "
        "interleavings (enumerated, and checked in Coq against M_Options.schedules_of) of small program sets "
        "(quick: 2 threads <= 4+4 ops and one 6+4; thorough: all ordered pairs of a 12-program catalogue up to 6+6 ops, seven 3-thread sets of 3+3+3 ops and one 4-thread set). "
        "distinct = distinct (programs, schedule); non-trivial = some thread nests two pushing calls or leaves one by "
        "exception or >= 2 threads perform operations")
CONFIG = dict(
    coq=["C13"], level="proof",
    claim=("Coq theorems (all per-thread well-nested histories given as program trees or as operation lists, all schedules, any number "
           "of threads) about the executable store machine M_Options.run instantiated with the storage discipline regenerated from the "
           "source (threading.local, restore in finally): every observation equals the lexically scoped reference semantics of the "
           "thread's own program (non-interference), the stored options after a call returns or is left by exception are those before "
           "it, for_task stubs iff recursion was not requested at every nesting depth, with_contexts=False empties contexts at every "
           "depth; every balanced operation list is the flattening of a program tree; the schedule enumeration used by the exhaustive "
           "cases is complete. Tied to the code by differential comparison evaluated inside Coq on real threads stepped through enumerated/sampled "
           "interleavings of nested extract / extract_child / fill_context calls made from hooks."),
    design_ref="DESIGN.md section 5 C13",
    trusted_base=["model M_Options.v (store machine for current_options / push / extract_child / fill_context) is hand-written",
                  "harness/facts_c13.py (ast, fail-closed): ExtractOptions derives from threading.local with a single module-level instance; "
                  "push restores the saved pair in `finally`; extract/extract_outermost/fill_context push as modelled and every return path of "
                  "extract_since/extract_until is an extract(...) call forwarding both options; every Stack built in "
                  "_extract.py owns a fresh frames list (no mutable default argument, no module-level list, `frames` of every Stack(...) is a "
                  "fresh local list) -- list identity is not represented in M_Options, the fact enters C13_instance only",
                  "the stepping harness parks every thread but one between operations; the GIL makes one operation atomic w.r.t. the others"],
    assumptions=["hooks do not assign to stackscope._extract.current_options themselves",
                 "an operation (one push, one restore, one extract_child decision) is atomic w.r.t. other threads; with a thread-local store "
                 "this is immaterial (theorem C13_noninterference), the free-running leg exercises real preemption"],
    unproved_legs=["C13_frames_independent_of_with_contexts (two-run theorem over M_Frames: same frame ids, hide flags, origins and leaf, no contexts) "
                   "is stated for fault-free configurations: the contexts step consumes ticks, so the k-th-invocation faults of C05 would hit "
                   "different hook calls in the two runs; error lists are allowed to differ (context-hook errors exist only in the with-contexts run)",
                   "histories with calls still open when the schedule ends are covered by the theorems (any schedule prefix) but cannot be "
                   "produced with real threads beyond parking them mid-call, which every non-final schedule position does"],
    timeout={"quick": 900, "thorough": 5400},
)
NOTES = ("Deviations from DESIGN: histories are program trees (flattened to op lists for the machine) so that well-nestedness is by "
         "construction; ops FillEnter/SameEnter added (fill_context pushes only outside an extraction; extract_child(for_task=False) "
         "nests without pushing); own structural facts c13_* instead of the name-sensitive push_restores_in_finally")

OPTS = [(False, False), (False, True), (True, False), (True, True)]
# entry points that work on live frames of the calling thread (hooks: elaborate_frame on the inner
# frame, elaborate_context on a manager active in the outer frame)
LIVE = ("since_frame", "since_none", "until_int", "until_none", "until_frame")
HOWS = ("extract", "outermost") + LIVE


# ----------------------------------------------------------------- program trees
def nops(prog):
    n = 0
    for nd in prog:
        if nd[0] in ("child", "read"):
            n += 1
        else:
            n += 2 + nops(nd[-1])
    return n


def gen_prog(rng, depth, budget, scope):
    """random body; `scope` = lexical options (None outside); returns (prog, ops used)"""
    prog, used = [], 0
    want = rng.randrange(1, 4)
    while want and used < budget:
        want -= 1
        z = rng.random()
        left = budget - used
        if z < 0.22:
            prog.append(["child", rng.random() < 0.75])
            used += 1
        elif z < 0.44:
            prog.append(["read"])
            used += 1
        elif left >= 3 and depth > 0:
            exc = rng.choice(["none", "none", "none", "exc", "base"])
            if z < 0.80:
                wc, rc = rng.choice(OPTS)
                y = rng.random()
                how = ("extract" if y < 0.45 else "outermost" if y < 0.6 else
                       rng.choice(["since_frame", "until_int", "until_frame", "until_frame", "since_none", "until_none"]))
                hooks = ([] if how in LIVE else ["unwrap"]) + ["elab"] + (["ectx", "ectx"] if wc else [])
                body, u = gen_prog(rng, depth - 1, left - 2, (wc, rc))
                prog.append(["ext", wc, rc, how, rng.choice(hooks), exc, body])
            elif z < 0.92 or scope is None:
                inner = scope if scope is not None else (True, False)
                body, u = gen_prog(rng, depth - 1, left - 2, inner)
                prog.append(["fill", exc, body])
            else:
                hooks = ["unwrap", "elab"] + (["ectx"] if scope[0] else [])
                body, u = gen_prog(rng, depth - 1, left - 2, scope)
                prog.append(["same", rng.choice(hooks), exc, body])
            used += 2 + u
    return prog, used


def gen_thread(rng, depth=4, budget=14):
    prog, used = gen_prog(rng, depth, budget - 1, None)
    if rng.random() < 0.7:
        prog.append(rng.choice([["child", True], ["read"], ["child", False]]))
    return prog


def sample_sched(rng, counts, style):
    if style == "rr":
        left = list(counts)
        s = []
        while any(left):
            for t in range(len(left)):
                if left[t]:
                    s.append(t)
                    left[t] -= 1
        return s
    if style == "blocks":
        order = list(range(len(counts)))
        rng.shuffle(order)
        left = list(counts)
        s = []
        while any(left):
            for t in order:
                k = min(left[t], rng.randrange(1, 4))
                s += [t] * k
                left[t] -= k
        return s
    s = [t for t, c in enumerate(counts) for _ in range(c)]
    rng.shuffle(s)
    return s


def all_schedules(counts):
    """all interleavings, in the order of M_Options.all_schedules (lexicographic in the thread id)"""
    counts = list(counts)
    if not any(counts):
        yield []
        return
    for t in range(len(counts)):
        if counts[t]:
            counts[t] -= 1
            for rest in all_schedules(counts):
                yield [t] + rest
            counts[t] += 1


def E(o, body, how="extract", hook="unwrap", exc="none"):
    return ["ext", o[0], o[1], how, hook, exc, body]


R, CT, CF = ["read"], ["child", True], ["child", False]
TF, TT, FF, FT = (True, False), (True, True), (False, False), (False, True)

CATALOGUE = [
    [E(FF, [R, CT])],                                             # 4
    [E(TT, [R, CT], hook="ectx", how="until_frame")],             # 4
    [E(FT, [R], exc="base", how="since_frame", hook="elab"), CT], # 4
    [E(TF, [CT], how="outermost", exc="exc"), R],                 # 4
    [["fill", "none", [R, CT]]],                                  # 4
    [["fill", "exc", [CT]], CT],                                  # 4
    [E(TT, [E(FF, [R], exc="base"), R, CT], hook="elab")],        # 7 -> trimmed below to 6
    [E(FF, [E(TT, [CT], hook="ectx", how="until_int")], how="since_none", hook="elab"), R],   # 6
    [E(TF, [["fill", "none", [R]], CT], hook="ectx")],            # 6
    [E(FT, [["same", "elab", "none", [R, CT]]])],                 # 6
    [CT, E(TT, [CT]), CT],                                        # 5
    [E(TF, [R], how="outermost", hook="elab"), E(FT, [CT], exc="base")],  # 6
]
CATALOGUE[6] = [E(TT, [E(FF, [R], exc="base"), R], hook="elab")]  # 6


def specials():
    yield {"threads": [[CT, R]], "sched": [0, 0]}                                    # outside: refusal
    yield {"threads": [[["fill", "none", [R, CT, CF]], CT]], "sched": [0] * 6}      # fill outside pushes (True, False)
    for o in OPTS:
        for hook in ("unwrap", "elab") + (("ectx",) if o[0] else ()):
            for how in HOWS:
                if how in LIVE and hook == "unwrap":
                    continue
                for exc in ("none", "exc", "base"):
                    p = [E(o, [R, CT, CF], how=how, hook=hook, exc=exc), CT, R]
                    yield {"threads": [p], "sched": [0] * nops(p)}
    # every live entry point nested in every other one, inner options opposite to the outer ones
    for h1 in LIVE:
        for h2 in LIVE:
            for o in OPTS:
                o2 = (not o[0], not o[1])
                p = [E(o, [E(o2, [R, CT], how=h2, hook="elab"), R, CT], how=h1, hook=("ectx" if o[0] else "elab")), CT]
                yield {"threads": [p], "sched": [0] * nops(p)}
    # nesting depth 4, each level another pair, exceptions at each level in turn
    for lvl in range(5):
        for kind in ("exc", "base"):
            body = [R, CT]
            for d, o in reversed(list(enumerate([TF, FT, TT, FF]))):
                body = [E(o, body + [R, CT], hook=("ectx" if o[0] else "elab"),
                          how=("outermost" if d % 2 else "extract"), exc=(kind if d == lvl else "none")), R, CT]
            yield {"threads": [body], "sched": [0] * nops(body)}
    # two threads, classic lost-restore interleavings
    a, b = [E(TT, [R, CT]), CT], [E(FF, [R, CT]), CT]
    for s in ([0, 1, 0, 0, 1, 1, 0, 1, 0, 1], [0, 1, 1, 1, 1, 1, 0, 0, 0, 0], [0, 1, 0, 1, 0, 1, 1, 0, 1, 0],
              [1, 0, 0, 0, 0, 1, 1, 1, 0, 1]):
        yield {"threads": [a, b], "sched": s}


def make_inputs(tier, seed):
    rng = random.Random(seed * 7919 + 13)
    yield from specials()
    n = 1500 if tier == "quick" else 6000
    for i in range(n):
        nt = rng.choice([1, 2, 2, 3, 3, 4])
        budget = {1: 14, 2: 12, 3: 9, 4: 7}[nt]
        threads = [gen_thread(rng, depth=4, budget=budget) for _ in range(nt)]
        if rng.random() < 0.1:
            threads[rng.randrange(nt)] = []
        counts = [nops(p) for p in threads]
        for style in (["shuffle"] if tier == "quick" else ["shuffle", "shuffle", rng.choice(["rr", "blocks"])]):
            yield {"threads": threads, "sched": sample_sched(rng, counts, style)}
    # exhaustive interleavings of small program sets
    if tier == "quick":
        small = [p for p in CATALOGUE if nops(p) <= 4]
        pairs = [(small[i], small[(i + 1 + seed) % len(small)]) for i in range(len(small))]
        for a, b in pairs:
            yield {"_kind": "exh", "threads": [a, b]}
        yield {"_kind": "exh", "threads": [CATALOGUE[7], CATALOGUE[2]]}
    else:
        for (i, a), (j, b) in itertools.product(enumerate(CATALOGUE), repeat=2):
            # ordered pairs; the largest ones (6+6 operations, 924 interleavings) unordered only
            if nops(a) + nops(b) < 12 or i <= j:
                yield {"_kind": "exh", "threads": [a, b]}
        tiny = [[E(FT, [CT])], [E(TF, [R], exc="base")], [["fill", "none", [CT]]], [E(TT, [CT], how="outermost", exc="exc", hook="unwrap")]]
        for tr in list(itertools.combinations(range(len(tiny)), 3)) + [(0, 0, 1), (1, 2, 2), (3, 3, 3)]:
            yield {"_kind": "exh", "threads": [tiny[i] for i in tr]}
        yield {"_kind": "exh", "threads": [[E(FT, [CT])], [E(TF, [R], exc="base")], [CT, R], [CT]]}


# ----------------------------------------------------------------- running the implementation
class HookError(Exception):
    pass


class HookBase(BaseException):
    pass


_S = {}


def _setup():
    """item classes and hooks, registered once per process through the public API"""
    if _S:
        return _S
    import sys
    import stackscope
    from stackscope import unwrap_stackitem, elaborate_frame, elaborate_context

    class PlainMgr:
        def __enter__(self):
            return self

        def __exit__(self, *a):
            return False

    class HookMgr(PlainMgr):
        def __init__(self, fn):
            self.fn = fn

    class UItem:
        def __init__(self, fn, result):
            self.fn, self.result = fn, result

    def task_fn():
        yield 1

    def inner_fn(m):
        with m:
            yield 1

    def outer_fn(m, m2):
        with m:
            yield from inner_fn(m2)

    def carrier_elab(payload):
        yield 1

    def carrier_ctx(mgr):
        with mgr:
            yield 1

    @unwrap_stackitem.register(UItem)
    def _u(item):
        item.fn()
        return item.result

    @elaborate_frame.register(carrier_elab)
    def _e(frame, next_inner):
        frame.pyframe.f_locals["payload"]()
        return None

    @elaborate_context.register(HookMgr)
    def _c(mgr, context):
        mgr.fn()

    def started(g):
        next(g)
        return g

    # live frames for extract_since / extract_until: entry_outer -> entry_inner -> go(outer, inner)
    def entry_inner(payload, go, outer):
        inner = sys._getframe(0)
        return go(outer, inner)

    def entry_outer(payload, go, mgr):
        outer = sys._getframe(0)
        with mgr:
            return entry_inner(payload, go, outer)

    @elaborate_frame.register(entry_inner)
    def _ei(frame, next_inner):
        p = frame.pyframe.f_locals.get("payload")
        if p is not None:
            p()
        return None

    _S.update(PlainMgr=PlainMgr, HookMgr=HookMgr, UItem=UItem, task_fn=task_fn, outer_fn=outer_fn,
              carrier_elab=carrier_elab, carrier_ctx=carrier_ctx, started=started, stackscope=stackscope,
              entry_outer=entry_outer)
    return _S


class Ctl:
    """steps the threads through the schedule: exactly one thread runs between two turn() calls.
    One semaphore per thread; ending a step hands the token to the thread the schedule names
    next (no broadcast, so a hand-over costs one wake-up)."""

    def __init__(self, sched, nthreads, timeout=60.0):
        import threading
        self.sched, self.pos = list(sched), 0
        self.lock = threading.Lock()
        self.sems = [threading.Semaphore(0) for _ in range(nthreads)]
        self.in_step = [False] * nthreads
        self.failed = None
        self.timeout = timeout
        if self.sched and self.sched[0] < nthreads:
            self.sems[self.sched[0]].release()

    def _fail(self, msg):
        if self.failed is None:
            self.failed = msg
            for s in self.sems:          # wake everybody; from now on nobody blocks
                s.release()

    def _end_step(self, t):
        with self.lock:
            if self.in_step[t]:
                self.in_step[t] = False
                self.pos += 1
                if self.pos < len(self.sched):
                    nxt = self.sched[self.pos]
                    if nxt < len(self.sems):
                        self.sems[nxt].release()

    def turn(self, t):
        self._end_step(t)
        if self.failed is None:
            if not self.sems[t].acquire(timeout=self.timeout):
                self._fail("timeout: thread %d waiting at position %d" % (t, self.pos))
            elif self.failed is None and not (self.pos < len(self.sched) and self.sched[self.pos] == t):
                self._fail("thread %d woken out of turn at position %d" % (t, self.pos))
        self.in_step[t] = True

    def finish(self, t):
        self._end_step(t)


# frames lists of the Stacks returned so far (all cases of this process, all threads), kept alive
# so that `is` comparisons are meaningful: every returned Stack must own a fresh list.
_SEEN_FRAMES = []
_SEEN_MAX = 512


def _fresh_frames(frames):
    """None if `frames` is a list object not handed out before, else a description"""
    if not isinstance(frames, list):
        return "frames is not a list: %s" % type(frames).__name__
    for old in _SEEN_FRAMES:
        if old is frames:
            return "frames list object already returned by an earlier extract_child (shared between Stacks)"
    _SEEN_FRAMES.append(frames)
    if len(_SEEN_FRAMES) > _SEEN_MAX:
        # keep the oldest few (a shared default lives forever) and the most recent ones
        del _SEEN_FRAMES[16:len(_SEEN_FRAMES) - _SEEN_MAX // 2]
    return None


class Runner:
    def __init__(self, tid, ctl):
        S = _setup()
        self.S, self.tid, self.ctl = S, tid, ctl
        self.obs, self.leaves, self.notes = [], [], []
        self.task = S["started"](S["task_fn"]())
        self.m1, self.m2 = S["PlainMgr"](), S["PlainMgr"]()
        self.ctxgen = S["started"](S["outer_fn"](self.m1, self.m2))
        self.ctxframes = [self.ctxgen.gi_frame, self.ctxgen.gi_yieldfrom.gi_frame]

    def turn(self):
        if self.ctl is not None:
            self.ctl.turn(self.tid)

    # --- observations
    def do_child(self, ft):
        ss = self.S["stackscope"]
        try:
            st = ss.extract_child(self.task, for_task=ft)
        except RuntimeError as ex:
            return "refuse" if "may only be called" in str(ex) else "other:" + repr(ex)[:80]
        except BaseException as ex:
            return "other:" + repr(ex)[:80]
        if st.root is not self.task or st.error is not None or st.leaf is not None:
            return "other:root/leaf/error"
        alias = _fresh_frames(st.frames)
        if alias:
            return "other:" + alias
        if st.frames == []:
            # A consumer may expand a stub in place (Stack is a plain mutable dataclass and the
            # stub's frames is its own list): do so, then ask again.  Every stub -- the next one of
            # this call tree, of a later extraction, of another thread -- must still be a fresh
            # frameless stack carrying only root.
            try:
                st.frames.append(ss.Frame(pyframe=self.task.gi_frame))
                st2 = ss.extract_child(self.task, for_task=ft)
            except BaseException as ex:
                return "other:stub not expandable / second stub: " + repr(ex)[:80]
            if st2.frames is st.frames:
                return "other:two stubs share one frames list"
            if st2.frames != [] or st2.root is not self.task or st2.leaf is not None or st2.error is not None:
                return "other:stub after an expanded stub is not frameless"
            alias = _fresh_frames(st2.frames)
            if alias:
                return "other:" + alias
            return "stub"
        if [f.pyframe for f in st.frames] == [self.task.gi_frame]:
            return "full"
        return "other:frames (a stub that is not frameless, or a changed stack)"

    def do_read(self):
        ss = self.S["stackscope"]
        try:
            st = ss.extract_child(self.ctxgen, for_task=False)
        except RuntimeError as ex:
            return "refuse" if "may only be called" in str(ex) else "other:" + repr(ex)[:80]
        except BaseException as ex:
            return "other:" + repr(ex)[:80]
        if st.error is not None or st.leaf is not None or [f.pyframe for f in st.frames] != self.ctxframes:
            return "other:frames changed"          # with_contexts must not change the frames
        alias = _fresh_frames(st.frames)
        if alias:
            return "other:" + alias
        cx = [[c.obj for c in f.contexts] for f in st.frames]
        if cx == [[], []]:
            return "empty"
        if len(cx[0]) == 1 and len(cx[1]) == 1 and cx[0][0] is self.m1 and cx[1][0] is self.m2:
            return "ctx"
        return "other:contexts"

    # --- calls whose hooks run a body
    def payload(self, body, exc, ran):
        def fn():
            if ran[0]:
                # extract_since(None) / extract_until(limit=None) of a nested level walk the live frames
                # of the enclosing levels again: their hooks fire once more and must not re-run the body
                return
            ran[0] = True
            self.run_body(body)
            self.turn()                     # the Leave step starts here
            if exc == "exc":
                raise HookError()
            if exc == "base":
                raise HookBase()
        return fn

    def item_for(self, hook, fn):
        S = self.S
        if hook == "unwrap":
            return S["UItem"](fn, self.task)
        if hook == "elab":
            return S["started"](S["carrier_elab"](fn))
        return S["started"](S["carrier_ctx"](S["HookMgr"](fn)))

    def call(self, body, exc, ran, thunk):
        idx = len(self.leaves)
        self.leaves.append(None)
        self.turn()                         # the Enter step
        try:
            thunk()
            kind = "ok"
        except (HookError, HookBase):
            kind = "exc"
        except BaseException as ex:
            kind = "exc"
            self.notes.append("unexpected " + repr(ex)[:120])
        if not ran[0]:
            # the hook never ran (refused / not invoked): keep the schedule aligned
            ran[0] = True
            self.run_body(body)
            self.turn()
            if kind == "ok":
                self.notes.append("hook not run")
        self.leaves[idx] = kind

    def run_body(self, body):
        ss = self.S["stackscope"]
        for nd in body:
            k = nd[0]
            if k == "child":
                self.turn()
                self.obs.append(self.do_child(nd[1]))
            elif k == "read":
                self.turn()
                self.obs.append(self.do_read())
            elif k == "ext":
                _, wc, rc, how, hook, exc, sub = nd
                ran = [False]
                fn = self.payload(sub, exc, ran)
                kw = dict(with_contexts=wc, recurse_child_tasks=rc)
                if how in LIVE:
                    go = {"since_frame": lambda o, i: ss.extract_since(o, **kw),
                          "since_none": lambda o, i: ss.extract_since(None, **kw),
                          "until_int": lambda o, i: ss.extract_until(i, limit=2, **kw),
                          "until_none": lambda o, i: ss.extract_until(i, limit=None, **kw),
                          "until_frame": lambda o, i: ss.extract_until(i, limit=o, **kw)}[how]
                    S = self.S
                    if hook == "ectx":
                        self.call(sub, exc, ran, lambda: S["entry_outer"](None, go, S["HookMgr"](fn)))
                    else:
                        self.call(sub, exc, ran, lambda: S["entry_outer"](fn, go, S["PlainMgr"]()))
                else:
                    item = self.item_for(hook, fn)
                    f = ss.extract if how == "extract" else ss.extract_outermost
                    self.call(sub, exc, ran, lambda: f(item, **kw))
            elif k == "fill":
                _, exc, sub = nd
                ran = [False]
                ctx = ss.Context(obj=self.S["HookMgr"](self.payload(sub, exc, ran)), is_async=False)
                self.call(sub, exc, ran, lambda: ss.fill_context(ctx))
            elif k == "same":
                _, hook, exc, sub = nd
                ran = [False]
                item = self.item_for(hook, self.payload(sub, exc, ran))
                res = []

                def thunk():
                    try:
                        ss.extract_child(item, for_task=False)
                        res.append(True)
                    except RuntimeError as ex:
                        if "may only be called" not in str(ex):
                            raise
                        res.append(False)
                pos = len(self.obs)
                self.obs.append(None)
                self.call(sub, exc, ran, thunk)
                self.obs[pos] = "same:in" if (res and res[0]) or not res else "same:out"
            else:
                raise ValueError(nd)

    def main(self, prog):
        try:
            self.run_body(prog)
        except BaseException as ex:        # harness bug or stray exception: fail closed
            self.notes.append("thread died: " + repr(ex)[:200])
        finally:
            if self.ctl is not None:
                self.ctl.finish(self.tid)


def _reset_options():
    from stackscope import _extract
    d = getattr(_extract.current_options, "__dict__", None)
    if d is not None:
        d.pop("with_contexts", None)
        d.pop("recurse_child_tasks", None)


def run_threads(progs, sched):
    import threading
    _setup()
    _reset_options()
    ctl = Ctl(sched, len(progs))
    runners = [Runner(t, ctl) for t in range(len(progs))]
    ths = [threading.Thread(target=r.main, args=(p,), daemon=True) for r, p in zip(runners, progs) if p]
    for th in ths:
        th.start()
    for th in ths:
        th.join(60)
    alive = any(th.is_alive() for th in ths)
    out = {"obs": [r.obs for r in runners], "leaves": [r.leaves for r in runners],
           "notes": [n for r in runners for n in r.notes]}
    if ctl.failed or alive:
        out["notes"].append("stepping failed: %s" % (ctl.failed or "thread still alive"))
    if ctl.pos != len(sched) and not ctl.failed:
        out["notes"].append("schedule not consumed: %d of %d" % (ctl.pos, len(sched)))
    return out


def run_case(desc):
    progs = desc["threads"]
    if desc.get("_kind") == "exh":
        runs = []
        for s in all_schedules([nops(p) for p in progs]):
            r = run_threads(progs, s)
            r["sched"] = s
            runs.append(r)
        return {"runs": runs}
    return run_threads(progs, desc["sched"])


# ----------------------------------------------------------------- reference (lexical scoping) in python
def spec_obs(prog, scope):
    out = []
    for nd in prog:
        k = nd[0]
        if k == "child":
            out.append("refuse" if scope is None else ("stub" if nd[1] and not scope[1] else "full"))
        elif k == "read":
            out.append("refuse" if scope is None else ("ctx" if scope[0] else "empty"))
        elif k == "ext":
            out += spec_obs(nd[6], (nd[1], nd[2]))
        elif k == "fill":
            out += spec_obs(nd[2], scope if scope is not None else (True, False))
        elif k == "same":
            out.append("same:out" if scope is None else "same:in")
            out += spec_obs(nd[3], scope)
    return out


def _oracle_one(progs, run, sched):
    if run.get("notes"):
        return "harness/implementation anomaly: " + "; ".join(run["notes"][:3])
    for t, p in enumerate(progs):
        want = spec_obs(p, None)
        if run["obs"][t] != want:
            return ("thread %d observed %r but the options of its innermost enclosing extraction give %r (schedule %r)"
                    % (t, run["obs"][t], want, sched))
    return None


def direct_oracle(desc, obs):
    if "runs" in obs:
        first = obs["runs"][0]["leaves"] if obs["runs"] else None
        for r in obs["runs"]:
            msg = _oracle_one(desc["threads"], r, r["sched"])
            if msg:
                return msg
            if r["leaves"] != first:
                return "return/raise behaviour of the calls depends on the schedule"
        return None
    return _oracle_one(desc["threads"], obs, desc["sched"])


def classify(desc, obs):
    progs = desc["threads"]
    labs = ["kind:" + desc.get("_kind", "main"), "threads=%d" % sum(1 for p in progs if p)]

    def depth(p):
        return max([0] + [(1 if nd[0] in ("ext", "fill") else 0) + depth(nd[-1]) for nd in p if nd[0] not in ("child", "read")])
    labs.append("depth=%d" % max(depth(p) for p in progs))
    lv = obs["runs"][0]["leaves"] if "runs" in obs else obs["leaves"]
    labs.append("leaves_by_exception=%d" % min(3, sum(l.count("exc") for l in lv)))
    if "runs" in obs:
        labs.append("exh_schedules<=%d" % (10 ** len(str(len(obs["runs"])))))
    return labs


# ----------------------------------------------------------------- Gallina printing
def c_opts(wc, rc):
    return f"({cbool(wc)}, {cbool(rc)})"


def c_prog(prog, leaves):
    """leaves: iterator over the observed return/raise kinds of the calls, in order of entry"""
    def go(i):
        if i == len(prog):
            return "PNil"
        nd = prog[i]
        k = nd[0]
        if k == "child":
            return f"(PChild {cbool(nd[1])} {go(i + 1)})"
        if k == "read":
            return f"(PRead {go(i + 1)})"
        e = cbool(next(leaves) == "exc")
        body = c_prog(nd[-1], leaves)
        rest = go(i + 1)
        if k == "ext":
            return f"(PExt {c_opts(nd[1], nd[2])} {body} {e} {rest})"
        if k == "fill":
            return f"(PFill {body} {e} {rest})"
        return f"(PSame {body} {e} {rest})"
    return go(0)


_CH = {"refuse": "OChild CRefuse", "stub": "OChild CStub", "full": "OChild CFull"}
_RD = {"refuse": "ORead RRefuse", "empty": "ORead REmpty", "ctx": "ORead RCtx"}


def c_obs_list(prog, obs):
    """observations are typed by the node that made them (pre-order)"""
    kinds = []

    def walk(p):
        for nd in p:
            if nd[0] in ("child", "read"):
                kinds.append(nd[0])
            else:
                if nd[0] == "same":
                    kinds.append("same")
                walk(nd[-1])
    walk(prog)
    out = []
    for i, o in enumerate(obs):
        k = kinds[i] if i < len(kinds) else "?"
        if k == "child" and o in _CH:
            out.append(_CH[o])
        elif k == "read" and o in _RD:
            out.append(_RD[o])
        elif k == "same" and o in ("same:in", "same:out"):
            out.append("OSame " + cbool(o == "same:in"))
        else:
            out.append("OBad")
    return clist(out)


def _c_run(progs, run):
    return clist([c_obs_list(p, o) for p, o in zip(progs, run["obs"])])


def coq_case(desc, obs):
    progs = desc["threads"]
    if "runs" in obs:
        if not obs["runs"]:
            return None
        lv = obs["runs"][0]["leaves"]
        ps = clist([c_prog(p, iter(l)) for p, l in zip(progs, lv)])
        runs = clist([f"({clist(map(str, r['sched']))}, {_c_run(progs, r)})" for r in obs["runs"]])
        return f"({ps}, {runs})"
    ps = clist([c_prog(p, iter(l)) for p, l in zip(progs, obs["leaves"])])
    return f"({ps}, {clist(map(str, desc['sched']))}, {_c_run(progs, obs)})"


# ----------------------------------------------------------------- free-running leg
def extra_legs(tier, seed):
    """No barriers: threads run nested extractions concurrently under a 10 us switch interval and
    each checks its own observations against lexical scoping."""
    import sys
    import threading
    _setup()
    _reset_options()
    rng = random.Random(seed * 31 + 131)
    rounds = 12 if tier == "quick" else 120
    old = sys.getswitchinterval()
    sys.setswitchinterval(1e-5)
    violations, n = [], 0
    try:
        for _ in range(rounds):
            progs = [gen_thread(rng, depth=4, budget=14) for _ in range(4)]
            reps = 15
            runners = [Runner(t, None) for t in range(4)]
            bad = []

            def work(r, p):
                want = spec_obs(p, None)
                for _ in range(reps):
                    r.obs, r.leaves, r.notes = [], [], []
                    r.run_body(p)
                    if r.obs != want or r.notes:
                        bad.append({"thread": r.tid, "observed": list(r.obs), "expected": want, "notes": list(r.notes)})
                        return
            ths = [threading.Thread(target=work, args=(r, p), daemon=True) for r, p in zip(runners, progs)]
            for th in ths:
                th.start()
            for th in ths:
                th.join(120)
            n += 4 * reps
            if bad or any(th.is_alive() for th in ths):
                violations.append({"what": "free-running threads: a thread's observations differ from the options of its own "
                                           "enclosing extractions: %r" % (bad[:1] or "thread hung"),
                                   "input": {"threads": progs, "free_running": True}})
                break
    finally:
        sys.setswitchinterval(old)
    return {"evaluations": n, "violations": violations,
            "info": {"free_running_rounds": rounds, "threads": 4, "program_executions": n, "switchinterval": 1e-5}}
