"""C03 — a suspended await / yield-from chain extracts as the path an exception would take.

Correspondence: generated *real* programs (native coroutines, types.coroutine generators, plain
generators, native async generators; linked by await / yield from / objects whose __await__
returns a coroutine wrapper, a generator or a plain iterator / async for / asend / __anext__ /
athrow / aclose) are driven to every suspension point; there
  * stackscope.extract(x) is run with with_contexts=True and False,
  * a probe exception is thrown into the SAME object and the tb_frame / tb_lineno chain of its
    traceback is taken as the independent oracle (no generated function catches anything),
  * the real chain is abstracted (from how the program was built, not from cr_await & co) to a
    M_Chain.chain and both extract() results plus the traceback frames are compared inside Coq
    with M_Frames.extract on the compiled chain and with the reference path of the chain.
"""
from __future__ import annotations

import itertools
import random

from .common import cbool, clist, copt

PROP = "C03"
SHARD = 250
KINDS = {"main": dict(imports="From SS Require Import Base M_Frames M_Chain.", type="ccase",
                      mismatch="mismatches", nontrivial="count_nontrivial")}
RULE = ("programs = root kind {coro, gencoro, gen, agen} x chain of 0..N links, each link an edge kind legal for its parent "
        "(await coro / await types.coroutine generator / await obj whose __await__ returns coro.__await__() / a generator / a plain iterator; "
        "async for / asend / __anext__ / athrow / aclose on a native async generator; yield from generator / gencoro / coroutine / "
        "coroutine wrapper / plain iterator / asend..aclose awaitables) x terminal {trap = yield in a types.coroutine function, bare yield, "
        "non-frame leaf of kind {plain iterator, __bool__ False, __len__ 0, empty self-awaiting container, hand-written full generator protocol (send/throw/close), collections.abc.Generator subclass, collections.abc.Coroutine subclass, iterator with gi_/cr_/ag_ attributes set to None, generator protocol + such attributes; awaited directly or handed out by another object's __await__; a leaf with a Python throw() must also be the object the probe is delivered to}} x statement layout {plain, assign, multi-line, try/finally, with, with @contextmanager} x own suspension before/after "
        "the delegation; every suspension point of each program plus unstarted, exhausted and closed roots and self-extraction of a running "
        "link; exhaustive over edge-kind paths of depth 1 and 2 (quick: every 4th depth-2 path), random chains of depth 2..4 (quick, 220 programs) / 2..6 (thorough, 9000 programs), 30% of them extracted at every suspension point on the way to the probed one (monitored run); asend(value) / athrow(exception carrying value) links whose value is itself stack-like (an async generator, a suspended coroutine, a suspended generator) for every parent kind at depth 1 and under every first edge at depth 2; long homogeneous chains built by recursion (60/101/130 await links, 55/70 coroutine-wrapper links, 40/55 asend links, 101/130 yield-from links, 120 mixed levels = 242 objects) probed at the innermost suspension; async-zip programs: a coroutine / types.coroutine generator / async generator parent (optionally under an outer coroutine) pulling alternately from 2..3 live sibling async generators through temporary __anext__ / asend / athrow awaitables (optionally with a coroutine level inside each sibling), monitored at every suspension point of the same run; and coroutine wrappers / asend / athrow awaitables of 2..3 alternating long-lived targets as extraction roots, each dropped while its target lives on. distinct = distinct (program, stop) descriptors; "
        "non-trivial = chain of >= 2 objects or with a leaf / wrapper / exhausted / running link")
CONFIG = dict(
    coq=["C03"], level="proof",
    claim=("Coq theorems: for ALL well-formed chains of suspended links, M_Frames.extract on the chain compiled with the built-in unwrap "
           "rules returns exactly the frames along the await links (innermost last, each with its own object as origin), the terminal "
           "non-frame as leaf or None, no error, nothing for an exhausted object; and for ALL chains and ALL context tables the "
           "with_contexts flag does not change frames or leaf. Tied to the code by differential comparison inside Coq on real programs "
           "at every suspension point, with the traceback of a thrown probe exception as independent oracle for frame identity, order "
           "and line numbers."),
    design_ref="DESIGN.md section 5 C03",
    trusted_base=["model M_Chain.v (built-in unwrap rules of glue_builtins compiled into an M_Frames.cfg) is hand-written",
                  "the abstraction real chain -> M_Chain.chain follows how the generated program was built (recorded by the program "
                  "itself before each await / yield from); frame presence and the running flags are read from the real objects",
                  "line numbers (Frame.lineno vs tb_lineno) are compared at run time only; they are not part of the Coq model"],
    assumptions=["no generated function catches the probe exception, so the traceback lists every frame of the chain",
                 "chains are linear (one awaited object per link), as produced by await / yield from",
                 "the StackSlice produced for a *running* link is collapsed to the frames it resolves to (C04's subject); the "
                 "theorems are about suspended links, as the property is"],
    unproved_legs=[],
    timeout={"quick": 900, "thorough": 5400},
    NOTES=("Deviation from DESIGN: Leaf carries no id (object ids are positions along the chain); running links carry a slice table "
           "instead of a StackSlice object; C03_contexts_flag_irrelevant is proved for arbitrary context tables and all chains, "
           "conditional on the with-contexts run returning a Stack (nested extractions may exhaust the model's fuel)."),
)

ASYNC_EDGES = ["await_coro", "await_gencoro", "await_wrap", "await_genret", "afor", "asend", "anext", "athrow", "aclose"]
GEN_EDGES = ["yf_gen", "yf_gencoro", "yf_coro", "yf_wrap", "yf_asend", "yf_anext", "yf_athrow", "yf_aclose"]
LAYOUTS = ["plain", "assign", "multi", "try", "with", "cmgen"]
LEAFKINDS = ["plain", "bool", "len", "selfaw", "genproto", "genabc", "coroabc", "fakeattrs", "genprotofake"]
SELFAWAIT = ("selfaw", "genproto", "genabc", "coroabc", "fakeattrs", "genprotofake")
CHILD_KIND = {"await_coro": "coro", "await_wrap": "coro", "yf_coro": "coro", "yf_wrap": "coro",
              "await_gencoro": "gencoro", "yf_gencoro": "gencoro", "await_genret": "gen", "yf_gen": "gen"}
AGEN_MODE = {"afor": "iter", "asend": "iter", "anext": "iter", "athrow": "athrow", "aclose": "aclose"}


def child_kind(edge):
    return CHILD_KIND.get(edge, "agen")


def agen_mode(edge):
    return AGEN_MODE[edge[3:] if edge.startswith("yf_") else edge]


def edges_for(kind):
    if kind in ("coro", "agen"):
        return ASYNC_EDGES
    if kind == "gencoro":
        return GEN_EDGES
    return [e for e in GEN_EDGES if e != "yf_coro"]   # a plain generator cannot yield from a coroutine


def terms_for(kind):
    return ["trap", "leaf"] if kind in ("coro", "agen") else ["trap", "leaf", "yield"]


# ------------------------------------------------------------------ program source
PRELUDE = '''
import types, contextlib
@types.coroutine
def trap():
    yield "T"
class It:
    def __init__(self): self.n = 0
    def __iter__(self): return self
    def __next__(self):
        self.n += 1
        if self.n > 1: raise StopIteration
        return "I"
class ItBool(It):                 # a pending future: bool(fut) means "done"
    def __bool__(self): return False
class ItLen(It):                  # an empty mailbox: len() is the number of queued messages
    def __len__(self): return 0
class ItSelf(It):                 # empty user-defined awaitable container: awaiting it parks on itself
    def __len__(self): return 0
    def __await__(self): return self
import collections.abc as _abc
class ItGenProto(It):             # hand-written trap with the full generator protocol (no ABC, no gi_* attributes)
    def __await__(self): return self
    def send(self, value): return self.__next__()
    def throw(self, typ, val=None, tb=None):
        raise typ if val is None else val
    def close(self): pass
class ItGenABC(_abc.Generator):   # subclass of collections.abc.Generator
    def __init__(self): self.n = 0
    def __await__(self): return self
    def send(self, value):
        self.n += 1
        if self.n > 1: raise StopIteration
        return "I"
    def throw(self, typ, val=None, tb=None):
        raise typ if val is None else val
class ItCoroABC(_abc.Coroutine):  # collections.abc.Coroutine-like awaitable that is its own iterator
    def __init__(self): self.n = 0
    def __await__(self): return self
    def __iter__(self): return self
    def __next__(self): return self.send(None)
    def send(self, value):
        self.n += 1
        if self.n > 1: raise StopIteration
        return "I"
    def throw(self, typ, val=None, tb=None):
        raise typ if val is None else val
class ItFakeAttrs(It):            # plain iterator with misleading introspection attributes
    gi_frame = None; gi_yieldfrom = None; gi_running = False
    cr_frame = None; cr_await = None; cr_running = False
    ag_frame = None; ag_await = None; ag_running = False
    def __await__(self): return self
class ItGenProtoFake(ItGenProto): # full generator protocol + gi_frame / cr_frame set to None
    gi_frame = None; gi_yieldfrom = None; gi_running = False
    cr_frame = None; cr_await = None; cr_running = False
LEAF = {"plain": It, "bool": ItBool, "len": ItLen, "selfaw": ItSelf, "genproto": ItGenProto, "genabc": ItGenABC,
        "coroabc": ItCoroABC, "fakeattrs": ItFakeAttrs, "genprotofake": ItGenProtoFake}
class AwWrap:
    def __init__(self, c): self.c = c
    def __await__(self): return self.c.__await__()
class AwRet:
    def __init__(self, it): self.it = it
    def __await__(self): return self.it
def _val_agen():                  # stack-like objects used as the value sent through asend /
    async def va():               # carried by the exception given to athrow
        await trap()
        yield 1
    return va()                   # (unstarted: has ag_frame)
def _val_coro():
    async def vc():
        await trap()
    c = vc(); c.send(None)        # suspended: has cr_frame and cr_await
    return c
def _val_gen():
    def vg():
        yield 1
    g = vg(); next(g)             # suspended: has gi_frame
    return g
MKVAL = {"agen": _val_agen, "coro": _val_coro, "gen": _val_gen}
class CM:
    def __enter__(self): return self
    def __exit__(self, *a): return False
@contextlib.contextmanager
def cmg():
    yield 1
'''


def build_source(desc):
    """Source text of the program: functions n0..nD; `S(i, items)` records what node i waits on."""
    kinds = [desc["root"]] + [child_kind(l[0]) for l in desc["links"]]
    modes = ["iter"] + [(("recv" if len(l) > 1 and l[0] in ("asend", "yf_asend") else agen_mode(l[0]))
                         if child_kind(l[0]) == "agen" else None) for l in desc["links"]]
    nodes = desc["nodes"]          # per node: [layout, pre, post]
    depth = len(kinds) - 1
    out = [PRELUDE]
    for i, kind in enumerate(kinds):
        is_async = kind in ("coro", "agen")
        layout, pre, post = nodes[i]
        body = []
        if is_async:
            own = [f"t = trap(); S({i}, [('gen', t)])", "await t"]
        else:
            own = [f"S({i}, [])", "yield 'own'"]
        if pre:
            body += own
        # delegation
        wait = None
        if i < depth:
            edge = desc["links"][i][0]
            val = desc["links"][i][1] if len(desc["links"][i]) > 1 else None
            j = i + 1
            e = edge[3:] if edge.startswith("yf_") else edge
            pfx = "await " if is_async else "yield from "
            if edge in ("await_coro", "yf_coro"):
                body.append(f"o = n{j}(); S({i}, [('coro', o)]); c = o")
            elif edge in ("await_gencoro", "yf_gen", "yf_gencoro"):
                body.append(f"o = n{j}(); S({i}, [('gen', o)]); c = o")
            elif edge == "await_wrap":
                body.append(f"o = n{j}(); S({i}, [('wrap', None), ('coro', o)]); c = AwWrap(o)")
            elif edge == "yf_wrap":
                body.append(f"o = n{j}(); S({i}, [('wrap', None), ('coro', o)]); c = o.__await__()")
            elif edge == "await_genret":
                body.append(f"o = n{j}(); S({i}, [('gen', o)]); c = AwRet(o)")
            elif e == "afor":
                body.append(f"o = n{j}(); S({i}, [('asend', None), ('agen', o)]); c = o")
                wait = "afor"
            elif e == "asend" and val:
                body.append(f"o = n{j}()")
                body.append(f"{pfx}o.asend(None)")       # prime: runs to `v = yield 0` without suspending
                body.append(f"sv = MKVAL[{val!r}]()")
                body.append(f"S({i}, [('asend', None), ('agen', o)]); c = o.asend(sv)")
            elif e in ("asend", "anext"):
                call = "asend(None)" if e == "asend" else "__anext__()"
                body.append(f"o = n{j}(); S({i}, [('asend', None), ('agen', o)]); c = o.{call}")
            elif e in ("athrow", "aclose"):
                body.append(f"o = n{j}()")
                body.append(f"{pfx}o.asend(None)")       # runs to the first yield without suspending
                call = "athrow(ValueError())" if e == "athrow" else "aclose()"
                if e == "athrow" and val:
                    body.append(f"ex = ValueError(); ex.payload = MKVAL[{val!r}](); ex.args = (ex.payload,)")
                    call = "athrow(ex)"
                body.append(f"S({i}, [('athrow', None), ('agen', o)]); c = o.{call}")
            else:
                raise ValueError(edge)
        else:
            term = desc["term"]
            if term == "trap":
                body.append(f"t = trap(); S({i}, [('gen', t)]); c = t")
            elif term == "leaf":
                lk = desc.get("leaf", "plain")
                direct = (not is_async) or (lk in SELFAWAIT and desc.get("leafdirect", True))
                body.append(f"it = LEAF[{lk!r}](); S({i}, [('leaf', it)]); c = " + ("it" if direct else "AwRet(it)"))
            elif term == "yield":
                assert not is_async
                body.append(f"S({i}, [])")
                wait = "yield"
            else:
                raise ValueError(term)
        kw = "await" if is_async else "yield from"
        if wait == "afor":
            stmt = ["async for _v in c:", "    pass"]
        elif wait == "yield":
            stmt = ["yield 'own'"]
        elif layout == "assign":
            stmt = [f"r = {kw} c"]
        elif layout == "multi":
            stmt = [f"r = ({kw} (", "    c", "))"]
        else:
            stmt = [f"{kw} c"]
        if layout == "try":
            stmt = ["try:"] + ["    " + s for s in stmt] + ["finally:", "    pass"]
        elif layout == "with":
            stmt = ["with CM() as m:"] + ["    " + s for s in stmt]
        elif layout == "cmgen":
            stmt = ["with cmg() as m, CM():"] + ["    " + s for s in stmt]
        body += stmt
        if kind == "agen" and modes[i] == "iter":
            body += [f"S({i}, [])", "yield 0"]
        if post:
            body += own
        # wrap for async generators
        if kind == "agen":
            if modes[i] == "iter":
                pass
            elif modes[i] == "recv":
                body = ["v = yield 0"] + body + [f"S({i}, [])", "yield 1"]
            elif modes[i] == "athrow":
                body = ["try:", "    yield 0", "except ValueError:"] + ["    " + s for s in body] + [f"    S({i}, [])", "    yield 1"]
            else:
                body = ["try:", "    yield 0", "finally:"] + ["    " + s for s in body]
        head = {"coro": f"async def n{i}():", "agen": f"async def n{i}():",
                "gen": f"def n{i}():", "gencoro": f"@types.coroutine\ndef n{i}():"}[kind]
        out.append(head + "\n" + "\n".join("    " + s for s in body) + "\n")
    return "\n".join(out)



def build_zip_source(desc):
    """A parent that keeps n sibling async generators alive and pulls from them alternately
    through short-lived asend / __anext__ / athrow awaitables."""
    z = desc["zip"]
    parent, call, n, rounds, inner, outer = z["parent"], z["call"], z["n"], z["rounds"], z["inner"], z["outer"]
    lvl = 1 if outer else 0           # position of the zip parent among the program's nodes
    out = [PRELUDE]
    if inner:
        out.append(f"async def inner():\n    t = trap(); S({lvl + 2}, [('gen', t)])\n    await t\n")
        wait = [f"o = inner(); S({lvl + 1}, [('coro', o)])", "await o"]
    else:
        wait = [f"t = trap(); S({lvl + 1}, [('gen', t)])", "await t"]
    w8 = "\n".join("            " + x for x in wait)
    w12 = "\n".join("        " + x for x in wait)
    out.append(f"async def sib_iter(tag):\n    for _k in range({rounds}):\n{w12}\n        S({lvl + 1}, []); yield _k\n")
    out.append(f"async def sib_throw(tag):\n    while True:\n        try:\n            S({lvl + 1}, []); yield 0\n"
               f"        except ValueError:\n{w8}\n")
    is_async = parent in ("coro", "agen")
    kw = "await" if is_async else "yield from"
    calls = [call] * n if call != "mixed" else (["anext", "athrow", "asend"] * n)[:n]
    body = ["sibs = [" + ", ".join(("sib_throw(%d)" if c == "athrow" else "sib_iter(%d)") % i for i, c in enumerate(calls)) + "]"]
    body.append(f"S({lvl}, [])")
    for i, c in enumerate(calls):
        if c == "athrow":
            body.append(f"{kw} sibs[{i}].asend(None)")        # to the first yield, without suspending
    body.append(f"for _r in range({rounds}):")
    for i, c in enumerate(calls):
        tag = "athrow" if c == "athrow" else "asend"
        expr = {"anext": "__anext__()", "asend": "asend(None)", "athrow": "athrow(ValueError())"}[c]
        body.append(f"    S({lvl}, [('{tag}', None), ('agen', sibs[{i}])])")
        body.append(f"    {kw} sibs[{i}].{expr}")                # the awaitable is a temporary: freed right after
    if parent == "agen":
        body += [f"S({lvl}, [])", "yield 0"]
    name = f"n{lvl}"
    head = {"coro": f"async def {name}():", "agen": f"async def {name}():", "gencoro": f"@types.coroutine\ndef {name}():"}[parent]
    out.append(head + "\n" + "\n".join("    " + b for b in body) + "\n")
    if outer:
        if parent == "agen":
            out.append("async def n0():\n    o = n1(); S(0, [('asend', None), ('agen', o)])\n    async for _v in o:\n        pass\n")
        else:
            out.append("async def n0():\n    o = n1(); S(0, [('" + ("coro" if parent == "coro" else "gen") + "', o)])\n    await o\n")
    return "\n".join(out)


def zip_programs(tier, rng):
    combos = list(itertools.product(["coro", "gencoro", "agen"], ["anext", "asend", "athrow", "mixed"], [2, 3], [0, 1], [0, 1]))
    for parent, call, n, inner, outer in combos:
        rounds = 3 if n == 2 else 2
        yield {"root": ("coro" if outer else parent),
               "zip": {"parent": parent, "call": call, "n": n, "rounds": rounds, "inner": inner, "outer": outer},
               "monitor": True}


class Probe(Exception):
    pass


class Runner:
    """Drives the root object one suspension at a time."""

    def __init__(self, desc, selfx=None):
        self.desc = desc
        self.active = []
        self.ns = {"S": self.record, "X": selfx}
        src = build_zip_source(desc) if "zip" in desc else build_source(desc)
        exec(compile(src, "<c03-program>", "exec"), self.ns)
        self.kind = desc["root"]
        self.x = self.ns["n0"]()
        self.a = None            # in-flight asend awaitable of an async-generator root
        self.done = False

    def record(self, i, items):
        del self.active[i:]
        assert len(self.active) == i, (i, self.active)
        self.active.append(items)

    def step(self):
        """Advance to the next suspension point; False when the root has finished."""
        try:
            if self.kind == "agen":
                if self.a is None:
                    self.a = self.x.__anext__()
                try:
                    self.a.send(None)
                except StopIteration:
                    self.a = None          # parked at a `yield` of the async generator
            else:
                self.x.send(None)
            return True
        except (StopIteration, StopAsyncIteration):
            self.done = True
            self.a = None
            return False

    def throw(self):
        """Throw the probe into the same object; returns the traceback entries below the caller."""
        try:
            if self.kind == "agen":
                if self.a is not None:
                    self.a.throw(Probe())
                else:
                    self.x.athrow(Probe()).send(None)
            else:
                self.x.throw(Probe())
        except Probe as ex:
            tb = ex.__traceback__.tb_next
            out = []
            while tb is not None:
                out.append((tb.tb_frame, tb.tb_lineno))
                tb = tb.tb_next
            return out
        except BaseException as ex:
            return "other exception: %r" % (ex,)
        return "the probe exception did not come back"

    def objects(self):
        """[(tag, obj)] along the chain, root first, as recorded by the program."""
        tag = {"coro": "coro", "gencoro": "gen", "gen": "gen", "agen": "agen"}[self.kind]
        objs = [(tag, self.x)]
        if _frame_of(tag, self.x) is None:
            return objs          # exhausted / closed root awaits nothing
        for items in self.active:
            objs.extend(items)
        return objs


def count_stops(desc):
    r = Runner(dict(desc, stop=0))
    n = 0
    while r.step():
        n += 1
        if n > 200:
            raise RuntimeError("program does not finish")
    return n


def _frame_of(tag, o):
    return {"coro": lambda: o.cr_frame, "gen": lambda: o.gi_frame, "agen": lambda: o.ag_frame}[tag]()


def _running(tag, o):
    return bool({"coro": lambda: o.cr_running, "gen": lambda: o.gi_running, "agen": lambda: o.ag_running}[tag]())


# ------------------------------------------------------------------ running one case
def run_case(desc):
    import stackscope

    stop = desc["stop"]
    if stop == "self":
        return run_self(desc)
    if "awroot" in desc:
        return run_awroot(desc)
    if "deep" in desc:
        return run_deep(desc)
    r = Runner(desc)
    if stop == "closed":
        if r.kind == "agen":
            try:
                r.x.aclose().send(None)
            except StopIteration:
                pass
        else:
            r.x.close()
    elif stop == "done":
        while r.step():
            pass
    elif stop >= 0:
        for k in range(stop + 1):
            if not r.step():
                return {"harness_error": "program finished before suspension %d" % stop}
            if desc.get("monitor") and k < stop:
                for wc in (True, False):       # watched at every suspension point of the same run
                    stackscope.extract(r.x, with_contexts=wc)
    x = r.x
    objs = r.objects()
    return observe(stackscope, x, objs, lambda: r.throw(), take_tb=(stop not in ("done", "closed")))


def observe(stackscope, x, objs, thrower, take_tb=True, sl=None, extractor=None):
    # abstraction: model chain + frame / object identity maps
    chain = []
    fid, oid, fr_of = {}, {}, {}
    for pos, (tag, o) in enumerate(objs):
        if o is not None:
            oid[id(o)] = pos
        if tag in ("coro", "gen", "agen"):
            f = _frame_of(tag, o)
            if f is not None:
                fid[id(f)] = pos
                fr_of[pos] = f
            chain.append([tag, f is not None, _running(tag, o)])
        else:
            chain.append([tag])
    expected_leaf = objs[-1][1] if objs[-1][0] == "leaf" else None

    def stack_obs(st):
        frames = []
        for f in st.frames:
            org = None if f.origin is None else oid.get(id(f.origin), 4999)
            frames.append({"f": fid.get(id(f.pyframe), 4999), "hide": bool(f.hide), "org": org, "line": f.lineno})
        if st.leaf is None:
            lf = ["none"]
        elif isinstance(st.leaf, list):
            lf = ["many", [oid.get(id(v), 4999) for v in st.leaf]]
        else:
            lf = ["one", oid.get(id(st.leaf), 4999)]
        return {"frames": frames, "leaf": lf, "err": None if st.error is None else repr(st.error)[:200]}

    res = {"chain": chain, "sl": sl or {}}
    stacks = {}
    for wc in (True, False):
        try:
            st = extractor(wc) if extractor else stackscope.extract(x, with_contexts=wc)
        except BaseException as ex:
            res["wc%d" % wc] = {"raised": repr(ex)[:300]}
            continue
        stacks[wc] = st
        o = stack_obs(st)
        o["root_is_x"] = st.root is x
        o["leaf_is_expected"] = (st.leaf is expected_leaf)
        o["ncontexts"] = sum(len(f.contexts) for f in st.frames)
        res["wc%d" % wc] = o
    if len(stacks) == 2:
        a, b = stacks[True], stacks[False]
        res["same_pyframes"] = (len(a.frames) == len(b.frames)
                                and all(p.pyframe is q.pyframe and p.lineno == q.lineno for p, q in zip(a.frames, b.frames)))
    if take_tb:
        tb = thrower()
        if isinstance(tb, str):
            res["tb_problem"] = tb
        else:
            # a leaf with a Python-level throw() receives the exception: its throw frame ends the traceback
            if tb and expected_leaf is not None and tb[-1][0].f_code.co_name == "throw" \
                    and tb[-1][0].f_locals.get("self") is expected_leaf:
                tb = tb[:-1]
                res["delivered_to_leaf"] = True
            res["tb"] = [[fid.get(id(f), 4999), ln] for f, ln in tb]
            if True in stacks:
                fr = stacks[True].frames
                res["tb_identical"] = (len(fr) == len(tb) and all(p.pyframe is f and p.lineno == ln for p, (f, ln) in zip(fr, tb)))
    return res


def run_awroot(desc):
    """n long-lived targets (coroutines / async generators) resumed alternately through fresh,
    short-lived awaitables (coro.__await__() / asend / athrow); each awaitable is the extraction
    root while its target is suspended inside it, then it is dropped while the target lives on."""
    import stackscope

    a = desc["awroot"]
    kind, n, rounds, stop = a["kind"], a["n"], a["rounds"], desc["stop"]
    active = {}
    ns = {"S": lambda i, items: active.__setitem__("items", items)}
    src = PRELUDE + f"""
async def tick(tag):
    for _k in range({rounds + 1}):
        t = trap(); S(1, [('gen', t)])
        await t
async def ag_iter(tag):
    for _k in range({rounds + 1}):
        t = trap(); S(1, [('gen', t)])
        await t
        yield _k
async def ag_throw(tag):
    while True:
        try:
            yield 0
        except ValueError:
            t = trap(); S(1, [('gen', t)])
            await t
"""
    exec(compile(src, "<c03-awroot>", "exec"), ns)
    mk = {"wrap": "tick", "asend": "ag_iter", "athrow": "ag_throw"}[kind]
    targets = [ns[mk](i) for i in range(n)]
    if kind == "athrow":
        for t in targets:
            try:
                t.asend(None).send(None)
            except StopIteration:
                pass
    for k in range(stop + 1):
        tgt = targets[k % n]
        aw = {"wrap": lambda: tgt.__await__(), "asend": lambda: tgt.asend(None),
              "athrow": lambda: tgt.athrow(ValueError())}[kind]()
        aw.send(None)                       # target now suspended on its trap, inside this awaitable
        if k < stop:
            for wc in (True, False):
                stackscope.extract(aw, with_contexts=wc)
            if kind != "wrap":
                try:
                    aw.send(None)           # let the async generator reach its next yield
                except StopIteration:
                    pass
            del aw                          # freed; its target stays alive and suspended
            continue
        tag = {"wrap": "wrap", "asend": "asend", "athrow": "athrow"}[kind]
        objs = [(tag, aw), ("coro" if kind == "wrap" else "agen", tgt)] + list(active["items"])

        def thrower():
            try:
                aw.throw(Probe())
            except Probe as ex:
                tb = ex.__traceback__.tb_next
                out = []
                while tb is not None:
                    out.append((tb.tb_frame, tb.tb_lineno))
                    tb = tb.tb_next
                return out
            except BaseException as ex:
                return "other exception: %r" % (ex,)
            return "the probe exception did not come back"
        res = observe(stackscope, aw, objs, thrower)
        if kind == "wrap":
            for t in targets:
                t.close()                   # also silences "never awaited" for targets not reached yet
        return res


DEEP = [("await", 60), ("await", 101), ("await", 130), ("wrap", 55), ("wrap", 70), ("asend", 40), ("asend", 55),
        ("yf", 101), ("yf", 130), ("mixed", 120)]


def run_deep(desc):
    """A chain of n homogeneous links built by recursion and suspended at its innermost trap."""
    import stackscope

    kind, n = desc["deep"]["kind"], desc["deep"]["n"]
    objs = []
    ns = {"REG": lambda *items: objs.extend(items)}
    src = PRELUDE + """
async def d_await(n):
    if n == 0:
        t = trap(); REG(('gen', t))
        await t
    else:
        c = d_await(n - 1); REG(('coro', c))
        await c
async def d_wrap(n):
    if n == 0:
        t = trap(); REG(('gen', t))
        await t
    else:
        c = d_wrap(n - 1); REG(('wrap', None), ('coro', c))
        await AwWrap(c)
async def d_asend(n):
    if n == 0:
        t = trap(); REG(('gen', t))
        await t
    else:
        c = d_asend(n - 1); REG(('asend', None), ('agen', c))
        await c.asend(None)
    yield 0
async def r_asend(n):
    c = d_asend(n); REG(('asend', None), ('agen', c))
    await c.asend(None)
def d_yf(n):
    if n == 0:
        yield 'own'
    else:
        c = d_yf(n - 1); REG(('gen', c))
        yield from c
async def d_mixed(n):
    if n == 0:
        t = trap(); REG(('gen', t))
        await t
    elif n % 3 == 0:
        c = d_mixed(n - 1); REG(('wrap', None), ('coro', c))
        await AwWrap(c)
    elif n % 3 == 1:
        c = d_mixed(n - 1); REG(('coro', c))
        await c
    else:
        c = m_agen(n - 1); REG(('asend', None), ('agen', c))
        async for _v in c:
            pass
async def m_agen(n):
    c = d_mixed(n); REG(('coro', c))
    await c
    yield 0
"""
    exec(compile(src, "<c03-deep>", "exec"), ns)
    fn, tag = {"await": ("d_await", "coro"), "wrap": ("d_wrap", "coro"), "asend": ("r_asend", "coro"),
               "yf": ("d_yf", "gen"), "mixed": ("d_mixed", "coro")}[kind]
    x = ns[fn](n)
    objs.append((tag, x))
    x.send(None)

    def thrower():
        try:
            x.throw(Probe())
        except Probe as ex:
            tb = ex.__traceback__.tb_next
            out = []
            while tb is not None:
                out.append((tb.tb_frame, tb.tb_lineno))
                tb = tb.tb_next
            return out
        except BaseException as ex:
            return "other exception: %r" % (ex,)
        return "the probe exception did not come back"
    return observe(stackscope, x, objs, thrower)


def run_self(desc):
    """A *running* link: a generator / coroutine / async generator whose body (directly or
    through a helper) calls extract() on itself; the built-in rule answers
    StackSlice(outer=own frame), whose frames are compared with the f_back walk."""
    import stackscope
    import sys

    kind, helper = desc["root"], desc["helper"]
    tag = {"coro": "coro", "gen": "gen", "gencoro": "gen", "agen": "agen"}[kind]
    box = {}

    def grab():
        me = box["me"]
        own = _frame_of(tag, me)
        walk = []
        f = sys._getframe(0)
        while f is not None:
            walk.append(f)
            if f is own:
                break
            f = f.f_back
        walk.reverse()             # own frame, (helper), this function
        fid = {id(fr): (0 if k == 0 else 1000 + k) for k, fr in enumerate(walk)}
        res = {"chain": [[tag, True, _running(tag, me)]], "sl": {"0": [fid[id(fr)] for fr in walk]}}
        for wc in (True, False):
            try:
                st = stackscope.extract(me, with_contexts=wc)
            except BaseException as ex:
                res["wc%d" % wc] = {"raised": repr(ex)[:300]}
                continue
            fr = []
            for f in st.frames:
                org = None if f.origin is None else (0 if f.origin is me else 4999)
                fr.append({"f": fid.get(id(f.pyframe), 4999), "hide": bool(f.hide), "org": org, "line": f.lineno})
            res["wc%d" % wc] = {"frames": fr, "leaf": ["none"] if st.leaf is None else ["one", 4999],
                                "err": None if st.error is None else repr(st.error)[:200],
                                "root_is_x": st.root is me, "leaf_is_expected": st.leaf is None, "ncontexts": 0,
                                "f_back_ok": [f.pyframe for f in st.frames] == walk}
        box["res"] = res

    ns = {"GRAB": grab}
    call = "    helper()" if helper else "    GRAB()"
    src = "import types\ndef helper():\n    GRAB()\n"
    if kind == "gen":
        src += f"def n0():\n{call}\n    yield 1\n"
    elif kind == "gencoro":
        src += f"@types.coroutine\ndef n0():\n{call}\n    yield 1\n"
    elif kind == "coro":
        src += f"async def n0():\n{call}\n"
    else:
        src += f"async def n0():\n{call}\n    yield 1\n"
    exec(compile(src, "<c03-self>", "exec"), ns)
    me = ns["n0"]()
    box["me"] = me
    try:
        if kind == "agen":
            me.__anext__().send(None)
        else:
            me.send(None)
    except StopIteration:
        pass
    return box.get("res") or {"harness_error": "self extraction did not run"}


# ------------------------------------------------------------------ Gallina
def c_chain(chain, pos=0):
    """[[tag, has_frame, running] | [tag]] (root first) -> M_Chain.chain; frame id = position."""
    if pos >= len(chain):
        return "Nil"
    ent = chain[pos]
    tag = ent[0]
    if tag == "leaf":
        return "Leaf"
    rest = c_chain(chain, pos + 1)
    if tag in ("wrap", "asend", "athrow"):
        return "(%s %s)" % ({"wrap": "CoroWrapper", "asend": "ASend", "athrow": "AThrow"}[tag], rest)
    k = {"coro": "KCoro", "gen": "KGen", "agen": "KAGen"}[tag]
    return f"(Link {k} {copt(pos if ent[1] else None)} {cbool(ent[2])} {rest})"


def c_outcome(o):
    if o is None or "raised" in o:
        return "(Raised (EFault 0))"
    frs = clist([f"(FOut {min(f['f'], 4999)} {cbool(f['hide'])} {copt(f['org'])} [])" for f in o["frames"]])
    lf = o["leaf"]
    if lf[0] == "none":
        l = "LNone"
    elif lf[0] == "one":
        l = f"(LOne (QObj {lf[1]}))"
    else:
        l = "(LMany " + clist([f"(QObj {v})" for v in lf[1]]) + ")"
    errs = "[]" if o["err"] is None else "[EUnwrap 4999]"
    return f"(Ok (Stack {frs} {l} {errs}))"


def coq_case(desc, obs):
    if "chain" not in obs:
        return None
    sl = clist([f"({k}, {clist(map(str, v))})" for k, v in obs["sl"].items()])
    tb = "None" if "tb" not in obs else "(Some " + clist([str(f) for f, _ in obs["tb"]]) + ")"
    return f"({c_chain(obs['chain'])}, {sl}, {c_outcome(obs.get('wc1'))}, {c_outcome(obs.get('wc0'))}, {tb})"


# ------------------------------------------------------------------ oracle on the implementation alone
def direct_oracle(desc, obs):
    if "harness_error" in obs:
        return "harness: " + obs["harness_error"]
    msgs = []
    for key in ("wc1", "wc0"):
        o = obs.get(key)
        if o is None or "raised" in o:
            msgs.append(f"extract raised ({key}): {o}")
            continue
        if o["err"] is not None:
            msgs.append(f"{key}: Stack.error = {o['err']}")
        if not o["root_is_x"]:
            msgs.append(f"{key}: root is not x")
        if not o["leaf_is_expected"]:
            msgs.append(f"{key}: leaf is not the terminal non-frame object / None")
        if o.get("f_back_ok") is False:
            msgs.append(f"{key}: frames of a running link differ from the f_back walk")
        if desc["stop"] in ("done", "closed") and o["frames"]:
            msgs.append(f"{key}: exhausted object yields frames")
    if obs.get("same_pyframes") is False:
        msgs.append("with_contexts=True and False give different frames / line numbers")
    if "tb_problem" in obs:
        msgs.append("traceback oracle unavailable: " + obs["tb_problem"])
    if obs.get("tb_identical") is False:
        msgs.append("extract(x).frames differ from the traceback of an exception thrown into x: "
                    f"frames={[(f['f'], f['line']) for f in obs['wc1']['frames']] if 'frames' in obs.get('wc1', {}) else None} tb={obs.get('tb')}")
    return "; ".join(msgs) or None


def classify(desc, obs):
    labs = ["root:" + desc.get("root", "awaitable"), "depth=%d" % len(desc.get("links", [])),
            "stop:" + (desc["stop"] if isinstance(desc["stop"], str) else ("unstarted" if desc["stop"] < 0 else "suspended"))]
    for l in desc.get("links", []):
        labs.append("edge:" + l[0] + ("(" + l[1] + ")" if len(l) > 1 else ""))
    if "deep" in desc:
        labs.append("deep:%s/%d" % (desc["deep"]["kind"], desc["deep"]["n"]))
    if desc.get("term"):
        labs.append("term:" + desc["term"] + ("/" + desc["leaf"] if desc.get("leaf") else ""))
    if desc.get("monitor"):
        labs.append("monitored")
    for fam in ("zip", "awroot"):
        if fam in desc:
            labs.append(fam + ":" + "/".join(str(desc[fam][k]) for k in sorted(desc[fam])))
    for n in desc.get("nodes", []):
        labs.append("layout:" + n[0])
    if "chain" in obs:
        labs.append("chainlen=%d" % len(obs["chain"]))
        if obs.get("wc1", {}).get("ncontexts"):
            labs.append("has-contexts")
    return sorted(set(labs))


# ------------------------------------------------------------------ generation
VALKINDS = ["agen", "coro", "gen"]
VAL_EDGES = ("asend", "athrow", "yf_asend", "yf_athrow")


def program(root, edges, term, rng, layouts=None, prepost=None, leaf=None, vals=None, leafdirect=None):
    n = len(edges) + 1
    nodes = []
    for i in range(n):
        lay = layouts[i] if layouts else rng.choice(LAYOUTS)
        pp = prepost[i] if prepost else [rng.random() < 0.3, rng.random() < 0.3]
        nodes.append([lay, bool(pp[0]), bool(pp[1])])
    links = []
    for i, e in enumerate(edges):
        v = None
        if e in VAL_EDGES:
            v = vals.get(i) if vals is not None else (rng.choice(VALKINDS) if rng.random() < 0.4 else None)
        links.append([e, v] if v else [e])
    prog = {"root": root, "links": links, "term": term, "nodes": nodes}
    if term == "leaf":
        prog["leaf"] = leaf or rng.choice(LEAFKINDS)
        if prog["leaf"] in SELFAWAIT and prog["leaf"] != "selfaw":
            # awaited directly (its own __await__) or handed out by another object's __await__
            prog["leafdirect"] = bool(rng.random() < 0.5 if leafdirect is None else leafdirect)
    return prog


def with_stops(prog, rng=None, max_stops=None):
    n = count_stops(prog)
    stops = [-1] + list(range(n)) + ["done"]
    if max_stops is not None and len(stops) > max_stops:
        keep = rng.sample(range(n), max_stops - 2)
        stops = [-1] + sorted(keep) + ["done"]
    for s in stops:
        yield dict(prog, stop=s)


def all_edge_paths(root, depth):
    """All legal edge sequences of the given depth below a root kind, with legal terminals."""
    def rec(kind, d):
        if d == 0:
            for t in terms_for(kind):
                yield [], t
            return
        for e in edges_for(kind):
            for rest, t in rec(child_kind(e), d - 1):
                yield [e] + rest, t
    yield from rec(root, depth)


def make_inputs(tier, seed):
    rng = random.Random(seed * 7919 + 3)
    roots = ["coro", "gencoro", "gen", "agen"]
    # closed and self-extracting roots
    for root in roots:
        yield dict(program(root, [], "trap", rng, layouts=["plain"], prepost=[[False, False]]), stop="closed")
        for helper in (False, True):
            yield {"root": root, "helper": helper, "stop": "self"}
    # depth 0: every layout x pre/post
    for root in roots:
        for term in terms_for(root):
            for lay in LAYOUTS:
                for pp in itertools.product([False, True], repeat=2):
                    for lk in (LEAFKINDS if term == "leaf" else [None]):
                        if lk not in (None, "plain", "bool") and (pp != (False, True) or lay in ("assign", "try", "with")):
                            continue      # the other leaf kinds: one pre/post shape, three layouts
                        yield from with_stops(program(root, [], term, rng, layouts=[lay], prepost=[list(pp)], leaf=lk))
    # exhaustive edge kinds
    n2 = 0
    for d in (1, 2):
        for root in roots:
            for edges, term in all_edge_paths(root, d):
                if d == 2 and tier == "quick":
                    n2 += 1
                    if (n2 + seed) % 4:
                        continue        # quick: every 4th depth-2 path (rotating with the seed)
                if d == 1 and term == "leaf":
                    for lk in LEAFKINDS:       # every way a chain can end in a non-frame leaf x every leaf kind
                        n2 += 1                # direct / via another object's __await__: alternate (both occur per kind)
                        yield from with_stops(program(root, edges, term, rng, leaf=lk, leafdirect=bool((n2 + seed) % 2)))
                    continue
                reps = 2 if d == 1 else 1
                for _ in range(reps):
                    yield from with_stops(program(root, edges, term, rng))
    # asend(value) / athrow(exception carrying value) with stack-like values, for every parent kind
    for root in roots:
        for e in edges_for(root):
            if e in VAL_EDGES:
                for vk in VALKINDS:
                    for term in ("trap", "leaf"):
                        yield from with_stops(program(root, [e], term, rng, vals={0: vk}))
    for root in roots:      # ... and one level further down
        for e0 in edges_for(root):
            for e in edges_for(child_kind(e0)):
                if e in VAL_EDGES:
                    yield from with_stops(program(root, [e0, e], "trap", rng, vals={1: rng.choice(VALKINDS)}))
    # long homogeneous chains, probed at the innermost suspension
    for kind, n in DEEP:
        yield {"deep": {"kind": kind, "n": n}, "stop": 0}
    # every layout on the parent side of every edge kind (depth 1)
    for root in roots:
        for e in edges_for(root):
            for lay in LAYOUTS:
                yield from with_stops(program(root, [e], "trap", rng, layouts=[lay, rng.choice(LAYOUTS)],
                                              prepost=[[True, True], [rng.random() < 0.5, rng.random() < 0.5]]))
    # random deeper chains
    nrand, maxd = (220, 4) if tier == "quick" else (9000, 6)
    for _ in range(nrand):
        root = rng.choice(roots)
        d = rng.randrange(2, maxd + 1)
        edges, kind = [], root
        for _ in range(d):
            e = rng.choice(edges_for(kind))
            edges.append(e)
            kind = child_kind(e)
        prog = program(root, edges, rng.choice(terms_for(kind)), rng)
        if rng.random() < 0.3:
            prog["monitor"] = True      # extract at every suspension point on the way, as a monitoring tool would
        yield from with_stops(prog, rng, max_stops=8 if tier == "quick" else 12)
    # sibling async generators consumed alternately ("async zip"), monitored at every suspension point
    for z in zip_programs(tier, rng):
        yield from with_stops(z)
    # awaitables (coroutine wrappers / asend / athrow) of alternating long-lived targets as extraction roots
    for kind in ("wrap", "asend", "athrow"):
        for n in (2, 3):
            rounds = 3 if n == 2 else 2
            for k in range(n * rounds):
                yield {"awroot": {"kind": kind, "n": n, "rounds": rounds}, "stop": k}
