"""./check <property> [--tier quick|thorough] [--replay file]

One run = regenerate source facts from /repo, rebuild and re-check the property's theorems,
run the correspondence (implementation from /repo's working tree vs the Coq model, compared
inside Coq), run the property's runtime legs, filter known findings, write evidence, exit.
"""
from __future__ import annotations

import fcntl
import glob
import json
import os
import re
import shutil
import subprocess
import sys
import time

from . import srcfacts
from .common import BUILD, COQ, PY, ROOT, REPO, coqc, dump_json, parse_evals, parse_nat_list
from .registry import REGISTRY, COMMON_TRUSTED

ENV = dict(os.environ, PYTHONPATH=f"{REPO}:{ROOT}", PYTHONHASHSEED="0", STACKSCOPE_VERIF="1",
           PYTHONDONTWRITEBYTECODE="1", PIP_NO_INDEX="1")


def sh(cmd, timeout, cwd=ROOT, env=ENV):
    try:
        p = subprocess.run(cmd, stdout=subprocess.PIPE, stderr=subprocess.STDOUT, timeout=timeout,
                           text=True, cwd=cwd, env=env)
        return p.returncode, p.stdout
    except subprocess.TimeoutExpired as ex:
        out = ex.stdout
        if isinstance(out, bytes):
            out = out.decode("utf8", "replace")
        return 124, (out or "") + f"\nTIMEOUT after {timeout}s"


class Lock:
    def __enter__(self):
        os.makedirs(BUILD, exist_ok=True)
        self.fh = open(os.path.join(BUILD, ".lock"), "w")
        fcntl.flock(self.fh, fcntl.LOCK_EX)
        return self

    def __exit__(self, *a):
        fcntl.flock(self.fh, fcntl.LOCK_UN)
        self.fh.close()


def ensure_makefile():
    mk = os.path.join(COQ, "Makefile")
    proj = os.path.join(COQ, "_CoqProject")
    vs = sorted(os.path.relpath(p, COQ) for p in glob.glob(os.path.join(COQ, "*.v")) + glob.glob(os.path.join(COQ, "gen", "*.v")))
    text = "-R . SS\n" + "\n".join(vs) + "\n"
    if not os.path.exists(proj) or open(proj).read() != text:
        open(proj, "w").write(text)
    if not os.path.exists(mk) or os.path.getmtime(mk) < os.path.getmtime(proj):
        sh(["coq_makefile", "-f", "_CoqProject", "-o", "Makefile"], 120, cwd=COQ)


def build_proofs(prop, files):
    """Returns dict(ok, log, obligations, discharged, axioms, checker_cmd, failed_target)."""
    with Lock():
        srcfacts.regenerate()
        ensure_makefile()
        targets = [f + ".vo" for f in files]
        # the property files themselves are always recompiled so that their
        # `Print Assumptions` output is captured on every run
        for f in files:
            for ext in (".vo", ".glob", ".vok", ".vos"):
                try:
                    os.remove(os.path.join(COQ, f + ext))
                except FileNotFoundError:
                    pass
        cmd = ["make", "-C", COQ, "-j8"] + targets
        rc, log = sh(["timeout", "1500"] + cmd, 1600)
    os.makedirs(os.path.join(BUILD, "logs"), exist_ok=True)
    open(os.path.join(BUILD, "logs", f"{prop}.make.log"), "w").write(log)
    obligations = 0
    names = []
    for f in files:
        src = open(os.path.join(COQ, f + ".v")).read()
        src = re.sub(r"\(\*.*?\*\)", "", src, flags=re.S)
        names += re.findall(r"(?m)^\s*(?:Theorem|Corollary)\s+(\w+)", src)
    obligations = len(names)
    closed = len(re.findall(r"Closed under the global context", log))
    axblocks = re.findall(r"Axioms:\n((?:.+\n)+?)(?=\n|\Z|[A-Z]\w+ )", log)
    axioms = sorted(set(re.findall(r"(?m)^(\w[\w.']*)\s*:", "\n".join(axblocks))))
    reported = closed + len(re.findall(r"(?m)^Axioms:", log))
    ok = rc == 0
    failed = None
    if not ok:
        m = re.search(r'File "\./([\w/]+)\.v", line (\d+)[^\n]*\n(Error:.*?)(?:\n\n|\Z)', log, re.S)
        if m:
            failed = {"file": m.group(1) + ".v", "line": int(m.group(2)), "error": " ".join(m.group(3).split())[:600]}
        else:
            failed = {"file": "?", "error": log[-800:]}
    return dict(ok=ok, log=log, obligations=obligations, theorems=names,
                discharged=(obligations if ok and reported >= obligations else (min(reported, obligations) if ok else 0)),
                assumption_reports=reported, axioms=axioms,
                checker_cmd="make -C coq " + " ".join(targets) + "  (coqc 8.16.1, full .vo build; each property file ends every theorem with Print Assumptions)",
                failed=failed)


def run_child(prop, module, tier, seed, outdir, timeout, inputs=None):
    shutil.rmtree(outdir, ignore_errors=True)
    os.makedirs(outdir, exist_ok=True)
    cmd = ["bash", "-c", 'ulimit -v 12000000; exec "$@"', "x", PY, "-X", "faulthandler", "-m", "harness.child",
           module, tier, str(seed), outdir]
    if inputs:
        cmd += ["--inputs", inputs]
    rc, out = sh(cmd, timeout)
    open(os.path.join(outdir, "child.log"), "w").write(out)
    meta_path = os.path.join(outdir, "meta.json")
    if rc != 0 or not os.path.exists(meta_path):
        cur = None
        try:
            cur = json.load(open(os.path.join(outdir, "progress.json")))
        except Exception:
            pass
        return None, dict(rc=rc, tail=out[-3000:], current=cur)
    return json.load(open(meta_path)), None


def run_case_files(outdir, meta):
    """coqc every cases file (in parallel); returns (mismatching cases, nontrivial count, errors)."""
    files = meta["files"]
    procs = []
    results = {}
    pending = list(files)
    running = []
    errors = []
    while pending or running:
        while pending and len(running) < 12:
            f = pending.pop(0)
            path = os.path.join(outdir, f["file"])
            p = subprocess.Popen(["timeout", "900", "coqc", "-R", COQ, "SS", "-w", "-all", path],
                                 stdout=subprocess.PIPE, stderr=subprocess.STDOUT, text=True, cwd=outdir)
            running.append((f, p))
        for f, p in list(running):
            if p.poll() is not None:
                running.remove((f, p))
                results[f["file"]] = (p.returncode, p.stdout.read())
        time.sleep(0.05)
    mism = []
    nontriv = 0
    for f in files:
        rc, out = results[f["file"]]
        if rc != 0:
            errors.append({"file": f["file"], "output": out[-1500:]})
            continue
        evs = parse_evals(out)
        if not evs:
            errors.append({"file": f["file"], "output": out[-1500:]})
            continue
        for idx in parse_nat_list(evs[0][0]):
            mism.append(dict(meta["descs"][f["cases"][idx]], file=f["file"], index=idx, kind=f["kind"]))
        if f.get("has_nontrivial") and len(evs) > 1:
            nontriv += int(evs[1][0].split('%')[0])
        elif not f.get("has_nontrivial"):
            nontriv += len(f["cases"])
    return mism, nontriv, errors


def load_findings(prop):
    path = os.path.join(ROOT, "known_findings.json")
    if not os.path.exists(path):
        return []
    return [e for e in json.load(open(path)) if e["property"] == prop]


def main(argv=None):
    argv = list(sys.argv[1:] if argv is None else argv)
    if not argv:
        print("usage: check <property> [--tier quick|thorough] [--replay file]")
        return 2
    prop = argv[0]
    tier = os.environ.get("VERIF_TIER", "quick")
    if "--tier" in argv:
        tier = argv[argv.index("--tier") + 1]
    replay = argv[argv.index("--replay") + 1] if "--replay" in argv else None
    seed = int(os.environ.get("VERIF_SEED", "0") or 0)
    if prop not in REGISTRY:
        print(f"unknown property {prop}")
        return 2
    cfg = REGISTRY[prop]
    t0 = time.time()
    violations = []      # dicts: what, replay payload, no_input(bool)
    known_lines = []
    replay_dir = os.path.join(BUILD, "replay")
    os.makedirs(replay_dir, exist_ok=True)

    # 1+2: facts and proofs
    pr = build_proofs(prop, cfg["coq"])
    t_proofs = time.time() - t0
    proof_broken = not pr["ok"]

    # 3+4: correspondence and runtime legs (escalated to thorough if a proof obligation broke)
    # (not for the with-machine checks: their thorough corpus takes 30-45 minutes; the quick corpus is
    #  searched instead and the thorough command searches the large one)
    run_tier = "thorough" if (proof_broken and not replay and cfg.get("escalate", True)) else tier
    # one directory per run, so that two runs of the same check cannot delete each other's files
    base = os.path.join(BUILD, "cases", prop)
    os.makedirs(base, exist_ok=True)
    for old in os.listdir(base):
        po = os.path.join(base, old)
        try:
            if old.startswith("run-") and time.time() - os.path.getmtime(po) > 3 * 3600:
                shutil.rmtree(po, ignore_errors=True)
        except OSError:
            pass
    outdir = os.path.join(base, "run-%d" % os.getpid())
    timeout = cfg.get("timeout", {}).get(run_tier, 900 if run_tier == "quick" else 5400)
    t1 = time.time()
    meta, fail = run_child(prop, cfg["module"], run_tier, seed, outdir, timeout, inputs=replay)
    t_child = time.time() - t1
    t1 = time.time()
    mism, nontriv, coq_errors = [], 0, []
    failing = []
    if meta is None:
        failing.append({"what": "the implementation run did not finish (crash, hang or resource exhaustion): rc=%s" % fail["rc"],
                        "input": fail.get("current"), "detail": fail["tail"], "sig": None})
    else:
        if not proof_broken or True:
            # the models of the case files may themselves fail to build if a model file is broken
            mism, nontriv, coq_errors = run_case_files(outdir, meta)
        for m in mism:
            failing.append({"what": "implementation and Coq model disagree on this input (%s, case %d)" % (m["file"], m["index"]),
                            "input": m["input"], "observed": m["observed"], "sig": m["input"].get("_sig") if isinstance(m["input"], dict) else None})
        for d in meta["direct_violations"]:
            failing.append({"what": d["what"], "input": d["input"], "observed": d.get("observed"),
                            "sig": (d["input"].get("_sig") if isinstance(d["input"], dict) else None)})
        if meta.get("extra"):
            for d in meta["extra"].get("violations", []):
                failing.append({"what": d["what"], "input": d.get("input"), "observed": d.get("observed"), "sig": d.get("sig")})

    # 5: findings filter
    findings = load_findings(prop)
    known = {e["signature"]: e for e in findings if e["kind"] == "known"}
    real = []
    seen_known = {}
    for f in failing:
        if f.get("sig") and f["sig"] in known:
            seen_known.setdefault(f["sig"], f)
        else:
            real.append(f)
    # modules may also report reproduced known findings explicitly
    if meta and meta.get("extra"):
        for s in meta["extra"].get("known_reproduced", []):
            if s in known:
                seen_known.setdefault(s, {})
    for sig, f in seen_known.items():
        e = known[sig]
        known_lines.append(f"KNOWN-FINDING: property={prop} {e['finding']} {e['text']}")

    n = 0
    out_lines = []
    for f in real[:5]:
        path = os.path.join(replay_dir, f"{prop}-{n}.json")
        dump_json(path, {"property": prop, "seed": seed, "tier": run_tier, "what": f["what"],
                         "input": f.get("input"), "observed": f.get("observed"), "detail": f.get("detail"),
                         "proof_status": ("broken: %r" % pr["failed"]) if proof_broken else "all theorems re-checked",
                         "replay_cmd": f"./check {prop} --replay {path}"})
        out_lines.append(f"VIOLATION property={prop} replay={path}")
        n += 1
    if coq_errors and not proof_broken:
        path = os.path.join(replay_dir, f"{prop}-cases-error.json")
        dump_json(path, {"property": prop, "what": "a generated cases file did not compile against the model (correspondence could not be checked)",
                         "errors": coq_errors})
        out_lines.append(f"VIOLATION property={prop} replay={path} no-failing-input-found")
    if meta and meta.get("correspondence_unavailable"):
        path = os.path.join(replay_dir, f"{prop}-correspondence.json")
        dump_json(path, {"property": prop, "what": "part of the correspondence check can no longer be run against this source (the harness "
                         "does not recognise the shape of the code it cuts out of the implementation); the remaining legs found no failing input"
                         if not real else "part of the correspondence check can no longer be run against this source",
                         "unavailable": meta["correspondence_unavailable"]})
        out_lines.append(f"VIOLATION property={prop} replay={path} no-failing-input-found")
    if proof_broken and not real:
        path = os.path.join(replay_dir, f"{prop}-proof.json")
        dump_json(path, {"property": prop, "what": "a proof obligation of this property no longer checks against the facts regenerated from the source; the search (thorough generator, targeted faults) found no failing input",
                         "failed": pr["failed"], "theorems": pr["theorems"], "srcfacts": srcfacts.last_facts()})
        out_lines.append(f"VIOLATION property={prop} replay={path} no-failing-input-found")

    # thorough tier: independent re-check of the compiled theorems and their whole closure
    coqchk = None
    if run_tier == "thorough" and not proof_broken and not replay:
        with Lock():
            # another check may have regenerated gen/SrcFacts.vo since our build: bring the property's
            # closure up to date under the same lock, then re-check it with coqchk
            sh(["timeout", "1500", "make", "-C", COQ, "-j8"] + [f + ".vo" for f in cfg["coq"]], 1600)
            rc_chk, out_chk = sh(["timeout", "2400", "coqchk", "-silent", "-o", "-R", COQ, "SS"] + ["SS." + f for f in cfg["coq"]], 2500)
        m = re.search(r"\* Axioms:(.*?)\n\s*\n\* Constants/Inductives relying on type-in-type:(.*?)\n", out_chk, re.S)
        coqchk = {"rc": rc_chk, "axioms": " ".join(m.group(1).split()) if m else "?",
                  "type_in_type": " ".join(m.group(2).split()) if m else "?", "tail": out_chk[-600:] if rc_chk else ""}
        if rc_chk != 0:
            path = os.path.join(replay_dir, f"{prop}-coqchk.json")
            dump_json(path, {"property": prop, "what": "coqchk rejected the compiled development", "output": out_chk[-3000:]})
            out_lines.append(f"VIOLATION property={prop} replay={path} no-failing-input-found")

    # 6: evidence
    evaluations = (meta["evaluations"] if meta else 0) + ((meta.get("extra") or {}).get("evaluations", 0) if meta else 0)
    cov = {
        "obligations": pr["obligations"], "discharged": pr["discharged"], "checker_cmd": pr["checker_cmd"],
        "theorems": pr["theorems"], "axioms_reported_by_Print_Assumptions": pr["axioms"] or ["none: every theorem is closed under the global context"],
        "trusted_base": COMMON_TRUSTED + cfg.get("trusted_base", []),
        "evaluations": evaluations, "distinct_nontrivial": nontriv,
        "rule": (meta or {}).get("rule") or cfg.get("rule", ""),
        "samples": (meta or {}).get("samples") or [{"note": "no sample: the implementation run did not finish"}],
        "input_distribution": (meta or {}).get("input_distribution", {}),
        "correspondence_mismatches": len(mism), "direct_violations": len((meta or {}).get("direct_violations", [])),
        "known_findings_reproduced": sorted(seen_known),
        "unproved_legs": cfg.get("unproved_legs", []),
        "extra_legs": ((meta or {}).get("extra") or {}).get("info", {}),
        "srcfacts": srcfacts.last_facts(),
        "explanation": cfg.get("explanation", ""),
        "coqchk": coqchk if coqchk is not None else "run in the thorough tier only",
        "phase_wall_s": {"facts+proofs": round(t_proofs, 1), "implementation_runs": round(t_child, 1), "coq_case_files": round(time.time() - t1, 1)},
    }
    if cfg.get("exhaustive_in", {}).get(run_tier):
        cov["exhaustive"] = True
    ev = {"property_id": prop, "tier": tier, "seed": seed, "level": cfg["level"], "coverage": cov,
          "assumptions": cfg.get("assumptions", []), "wall_s": round(time.time() - t0, 2),
          "violations": len(out_lines)}
    if not replay:
        dump_json(os.path.join(ROOT, "evidence", f"{prop}.json"), ev)

    if not out_lines and not os.environ.get("VERIF_KEEP_CASES"):
        shutil.rmtree(outdir, ignore_errors=True)       # keep the case files only when something failed
    for l in known_lines:
        print(l)
    for l in out_lines:
        print(l)
    print(f"{prop} [{tier}] theorems {pr['discharged']}/{pr['obligations']} checked; {evaluations} implementation runs, "
          f"{nontriv} distinct non-trivial cases compared in Coq, {len(mism)} mismatches, "
          f"{len((meta or {}).get('direct_violations', []))} direct-oracle failures "
          f"({len(failing) - len(real)} failing cases match a known finding, {len(real)} do not); {time.time() - t0:.1f}s")
    return 1 if out_lines else 0


if __name__ == "__main__":
    sys.exit(main())
