"""Runs pieces of stackscope's real source in isolation (fail-closed): the exception-table walk
and the running-frame trim of _lowlevel_cpython_311.inspect_frame are cut out of the function's
AST and compiled into standalone functions, so that they can be evaluated at EVERY (code, lasti)
rather than only on the live frames a test happens to have.  Recognition is by shape, not by the
names of locals.  If the source no longer has a recognised shape, `load()` raises SnippetError and
the caller reports that the correspondence can no longer be checked."""
from __future__ import annotations

import ast
import bisect
import builtins
import os

from .common import REPO


class SnippetError(Exception):
    harness_only = True     # child.py: not a failing input, the correspondence cannot be run


def _calls(node, name):
    return any(isinstance(x, ast.Call) and isinstance(x.func, ast.Name) and x.func.id == name for x in ast.walk(node))


def _stored(nodes):
    out = set()
    for n in nodes:
        for x in ast.walk(n):
            if isinstance(x, ast.Name) and isinstance(x.ctx, ast.Store):
                out.add(x.id)
    return out


def _loaded(nodes):
    out = []
    for n in nodes:
        for x in ast.walk(n):
            if isinstance(x, ast.Name) and isinstance(x.ctx, ast.Load) and x.id not in out:
                out.append(x.id)
    return out


KNOWN = {"_parse_exception_table", "bisect", "FrameDetails"} | set(dir(builtins))


def _bodies(fn):
    """every statement list inside fn"""
    for n in ast.walk(fn):
        for field in ("body", "orelse", "finalbody"):
            v = getattr(n, field, None)
            if isinstance(v, list) and v and isinstance(v[0], ast.stmt):
                yield v


def find_trim(fn):
    """The handler-depth scan of inspect_frame, in either of its two equivalent shapes:
         for ... in _parse_exception_table(co): if <cond>: <d> = depth; break
         else: <d> = 0
       or
         <d> = 0
         for ... in _parse_exception_table(co): if <cond>: <d> = depth; break
    Returns (statements, loop, depth variable, default statements) or None."""
    for body in _bodies(fn):
        for i, n in enumerate(body):
            if not (isinstance(n, ast.For) and _calls(n.iter, "_parse_exception_table")):
                continue
            if n.orelse:
                both = _stored(n.body) & _stored(n.orelse)
                if len(both) == 1:
                    return [n], n, next(iter(both)), n.orelse
            elif i > 0:
                prev = body[i - 1]
                if (isinstance(prev, ast.Assign) and len(prev.targets) == 1 and isinstance(prev.targets[0], ast.Name)
                        and prev.targets[0].id in _stored(n.body)):
                    return [prev, n], n, prev.targets[0].id, [prev]
    return None


def _module_funcs(tree):
    return {n.name: n for n in tree.body if isinstance(n, ast.FunctionDef)}


def _helper_calls(tree, fn):
    """module-level functions of the same file that fn calls as `helper(a, b)` with two plain names and
    that read the exception table: [(call node, FunctionDef)]"""
    funcs = _module_funcs(tree)
    out = []
    for x in ast.walk(fn):
        if (isinstance(x, ast.Call) and isinstance(x.func, ast.Name) and x.func.id in funcs and x.func.id != fn.name
                and len(x.args) == 2 and not x.keywords and all(isinstance(a, ast.Name) for a in x.args)
                and _calls(funcs[x.func.id], "_parse_exception_table")):
            out.append((x, funcs[x.func.id]))
    return out


def find_trim_helper(tree, fn):
    """The handler-depth scan extracted into a helper:
         def helper(co, pos): for ... in _parse_exception_table(co): if <cond>: return depth
                              return 0
    Returns (call, helper def, loop, hit statements, default statements) or None."""
    for call, h in _helper_calls(tree, fn):
        if any(isinstance(x, ast.While) for x in ast.walk(h)):
            continue
        loops = [n for n in h.body if isinstance(n, ast.For) and _calls(n.iter, "_parse_exception_table")]
        rets = [x for x in ast.walk(h) if isinstance(x, ast.Return)]
        if len(loops) != 1 or len(rets) != 2 or not isinstance(h.body[-1], ast.Return):
            continue
        loop = loops[0]
        if loop.orelse or len(loop.body) != 1 or not isinstance(loop.body[0], ast.If):
            continue
        return call, h, loop, loop.body[0].body, [h.body[-1]]
    return None


def find_walk_helper(tree, fn):
    """The exception-table walk extracted into a helper(co, pos) that returns the block list."""
    for call, h in _helper_calls(tree, fn):
        if any(isinstance(x, ast.While) for x in ast.walk(h)) and any(
                isinstance(x, ast.Attribute) and x.attr == "FinallyBlock" for x in ast.walk(h)):
            return call, h
    return None


def load():
    path = os.path.join(REPO, "stackscope", "_lowlevel_cpython_311.py")
    tree = ast.parse(open(path).read())
    fn = next((n for n in ast.walk(tree) if isinstance(n, ast.FunctionDef) and n.name == "inspect_frame"), None)
    if fn is None:
        raise SnippetError("inspect_frame not found")
    frame_arg = fn.args.args[0].arg if fn.args.args else "frame"
    # the code object local: `<co> = <frame>.f_code`
    co_name = None
    for x in ast.walk(fn):
        if (isinstance(x, ast.Assign) and len(x.targets) == 1 and isinstance(x.targets[0], ast.Name)
                and isinstance(x.value, ast.Attribute) and x.value.attr == "f_code"):
            co_name = x.targets[0].id
            break
    if co_name is None:
        raise SnippetError("no `co = frame.f_code` in inspect_frame")

    # (1) trim: `for ... in _parse_exception_table(co): if <cond>: <d> = depth; break  else: <d> = 0`
    import importlib
    real = importlib.import_module("stackscope._lowlevel_cpython_311")
    found = find_trim(fn)
    trim_helper = None
    if found is None:
        th = find_trim_helper(tree, fn)
        if th is None:
            raise SnippetError("handler-depth scan (loop over the exception table with a default of 0) not found in "
                               "inspect_frame or in a helper it calls")
        if th[0].args[0].id != co_name:
            raise SnippetError("handler-depth helper is not called with the code object first")
        trim_helper = getattr(real, th[1].name)      # pure: callable in isolation at every (code, position)
        trim, depth_var, trim_lasti = [], "None", "_unused"
    else:
        trim, _, depth_var, _ = found
        free = [v for v in _loaded(trim) if v not in KNOWN and v != co_name and v not in _stored(trim)]
        if len(free) != 1:
            raise SnippetError("handler-depth scan depends on %r, expected exactly the instruction position" % (free,))
        trim_lasti = free[0]

    # (2) chain walk: the top-level statements from the first `<x> = list(_parse_exception_table(co))`
    #     after the retry loop up to the `<details>.blocks.reverse()` call
    body = fn.body
    start = end = None
    details_name = None
    for i, st in enumerate(body):
        if (start is None and isinstance(st, ast.Assign) and len(st.targets) == 1
                and isinstance(st.targets[0], ast.Name) and _calls(st.value, "_parse_exception_table")):
            start = i
        if (start is not None and isinstance(st, ast.Expr) and isinstance(st.value, ast.Call)
                and isinstance(st.value.func, ast.Attribute) and st.value.func.attr == "reverse"
                and isinstance(st.value.func.value, ast.Attribute) and st.value.func.value.attr == "blocks"
                and isinstance(st.value.func.value.value, ast.Name)):
            end = i
            details_name = st.value.func.value.value.id
            break
    walk_helper = None
    if start is None or end is None:
        wh = find_walk_helper(tree, fn)
        if wh is None:
            raise SnippetError("exception-table walk not found at the top level of inspect_frame or in a helper it calls")
        if wh[0].args[0].id != co_name:
            raise SnippetError("exception-table walk helper is not called with the code object first")
        walk_helper = getattr(real, wh[1].name)
        details_name = "details"
        body, start, end = [ast.Pass()], 0, 0
    walk = body[start:end + 1]
    assigned = _stored(walk)
    free = [v for v in _loaded(walk) if v not in KNOWN and v not in assigned and v not in (co_name, details_name)]
    if walk_helper is not None:
        free = ["_unused2"]
    if len(free) != 1:
        raise SnippetError("exception-table walk depends on %r, expected exactly the accepted instruction position" % (free,))
    walk_lasti = free[0]
    for st in walk:
        if any(isinstance(x, ast.Attribute) and isinstance(x.value, ast.Name) and x.value.id == frame_arg for x in ast.walk(st)):
            raise SnippetError("exception-table walk reads the frame again")

    def mkfn(name, args, stmts, ret):
        return ast.FunctionDef(name=name, args=ast.arguments(posonlyargs=[], args=[ast.arg(arg=a) for a in args],
                                                             kwonlyargs=[], kw_defaults=[], defaults=[]),
                               body=list(stmts) + [ast.Return(value=ast.parse(ret, mode="eval").body)],
                               decorator_list=[], type_params=[])

    mod = ast.Module(body=[mkfn("_trim", [co_name, trim_lasti], trim, depth_var),
                           mkfn("_walk", [co_name, walk_lasti, details_name], walk, details_name + ".blocks")],
                     type_ignores=[])
    ast.fix_missing_locations(mod)
    from stackscope import _lowlevel as ll
    ns = {"_parse_exception_table": ll._parse_exception_table, "bisect": bisect, "FrameDetails": ll.FrameDetails}
    exec(compile(mod, path + "<snippets>", "exec"), ns)

    def blocks(co, lasti):
        if walk_helper is not None:
            return list(walk_helper(co, lasti))
        return ns["_walk"](co, lasti, ll.FrameDetails())

    return (trim_helper if trim_helper is not None else ns["_trim"]), blocks
