"""Runs pieces of stackscope's real source in isolation (fail-closed): the exception-table walk
and the running-frame trim of _lowlevel_cpython_311.inspect_frame are cut out of the function's
AST and compiled into standalone functions, so that they can be evaluated at EVERY (code, lasti)
rather than only on the live frames a test happens to have.  If the source no longer has the
recognised shape, `load()` raises SnippetError and the caller reports that the correspondence can
no longer be checked."""
from __future__ import annotations

import ast
import bisect
import os

from .common import REPO


class SnippetError(Exception):
    pass


def _uses(node, name):
    return any(isinstance(x, ast.Name) and x.id == name for x in ast.walk(node))


def load():
    path = os.path.join(REPO, "stackscope", "_lowlevel_cpython_311.py")
    tree = ast.parse(open(path).read())
    fn = next((n for n in ast.walk(tree) if isinstance(n, ast.FunctionDef) and n.name == "inspect_frame"), None)
    if fn is None:
        raise SnippetError("inspect_frame not found")
    # (1) trim: the first `for ... in _parse_exception_table(co): ... else: handler_depth = ...`
    trim = None
    for n in ast.walk(fn):
        if (isinstance(n, ast.For) and n.orelse and _uses(n.iter, "_parse_exception_table")
                and any(isinstance(x, ast.Name) and x.id == "handler_depth" and isinstance(x.ctx, ast.Store)
                        for x in ast.walk(n))):
            trim = n
            break
    if trim is None:
        raise SnippetError("handler_depth loop not found in inspect_frame")
    # (2) chain walk: from `handlers = list(_parse_exception_table(co))` to `details.blocks.reverse()`
    body = fn.body
    start = end = None
    for i, st in enumerate(body):
        if (start is None and isinstance(st, ast.Assign) and len(st.targets) == 1
                and isinstance(st.targets[0], ast.Name) and st.targets[0].id == "handlers"):
            start = i
        if (start is not None and isinstance(st, ast.Expr) and isinstance(st.value, ast.Call)
                and isinstance(st.value.func, ast.Attribute) and st.value.func.attr == "reverse"
                and _uses(st.value.func, "details")):
            end = i
            break
    if start is None or end is None:
        raise SnippetError("exception-table walk not found at the top level of inspect_frame")
    walk = body[start:end + 1]
    for st in walk:
        for x in ast.walk(st):
            if isinstance(x, ast.Name) and isinstance(x.ctx, ast.Load) and x.id not in (
                    "handlers", "current", "idx", "start", "end", "target", "depth", "details", "lasti", "co",
                    "bisect", "list", "_parse_exception_table", "FrameDetails", "_", "True", "False", "len"):
                raise SnippetError("exception-table walk uses unexpected name %r" % x.id)

    def mkfn(name, args, stmts, ret):
        f = ast.FunctionDef(name=name, args=ast.arguments(posonlyargs=[], args=[ast.arg(arg=a) for a in args],
                                                          kwonlyargs=[], kw_defaults=[], defaults=[]),
                            body=list(stmts) + [ast.Return(value=ast.parse(ret, mode="eval").body)],
                            decorator_list=[], type_params=[])
        return f

    mod = ast.Module(body=[mkfn("_trim", ["co", "lasti_before"], [trim], "handler_depth"),
                           mkfn("_walk", ["co", "lasti", "details"], walk, "details.blocks")], type_ignores=[])
    ast.fix_missing_locations(mod)
    from stackscope import _lowlevel as ll
    ns = {"_parse_exception_table": ll._parse_exception_table, "bisect": bisect, "FrameDetails": ll.FrameDetails}
    exec(compile(mod, path + "<snippets>", "exec"), ns)

    def blocks(co, lasti):
        d = ll.FrameDetails()
        return ns["_walk"](co, lasti, d)

    return ns["_trim"], blocks
