"""C14 helper: generated Trio programs, ground-truth abstraction and observation.

Two families of descriptors (both JSON, both sufficient for replay):

tree   {"kind":"tree","rc":bool,"root":TASK}
       TASK  = {"frames":[FRAME,...], "block":"body"|"aexit", "how":"sleep"|"event", "closed":k}
       FRAME = {"ctxs":[CTX,...]}                       contexts opened in that frame, outer first
       CTX   = {"t":"n","kids":[TASK,...],"end":END} | {"t":"cs","end":END} | {"t":"lock","end":END}
       END   = "plain"|"tryexc"|"tryfin"|"ifret0"|"ifret1"|"none"   what ends the with-body
       The task's frame j awaits frame j+1 from inside its innermost context; the last frame
       blocks in its innermost body (block=body) or runs off the end of it, so that the task
       is parked in the innermost nursery's __aexit__ (block=aexit; that nursery has a child;
       `closed` empty nurseries were opened and left inside it before).
chain  {"kind":"chain","rc":bool,"start":"task"|"thread","hops":"THTS...","end":"park"|"inside"|"limiter",
        "nurs":[bool per segment], "deep":[bool per segment]}
       segment 0 is the start task / a foreign thread; hop T = await trio.to_thread.run_sync(next),
       H = trio.from_thread.run(next) (re-enters the host task), S = trio.from_thread.run(next,
       trio_token=...) (served by a system task).  The innermost segment parks (task: Event.wait,
       thread: Lock.acquire) and a supervisor task extracts the start object, or (end=inside)
       the innermost task segment itself calls extract on the start object, or (end=limiter)
       parks in to_thread.run_sync before the worker thread exists.

Ground truth is taken from the objects themselves, without stackscope: coroutine chains by
cr_frame/cr_await (gi_frame/gi_yieldfrom), thread stacks by f_back, nurseries and children from
Trio's task.child_nurseries / nursery.child_tasks, which manager is open in which generated
frame from the generator's own registry.
"""
from __future__ import annotations

import sys
import threading
import types
import warnings

END_SHAPES = ("plain", "tryexc", "tryfin", "ifret0", "ifret1", "none")
UNKNOWN = 4999


# ------------------------------------------------------------------------------- source text
class Src:
    def __init__(self):
        self.lines = []

    def add(self, ind, text):
        self.lines.append("    " * ind + text)

    def text(self):
        return "\n".join(self.lines) + "\n"


def emit_end(src, ind, end):
    if end == "plain":
        src.add(ind, "x = 1")
    elif end == "tryexc":
        src.add(ind, "try:")
        src.add(ind + 1, "x = 1")
        src.add(ind, "except ValueError:")
        src.add(ind + 1, "x = 2")
    elif end == "tryfin":
        src.add(ind, "try:")
        src.add(ind + 1, "x = 1")
        src.add(ind, "finally:")
        src.add(ind + 1, "y = 2")
    elif end == "ifret0":
        src.add(ind, "if W.false:")
        src.add(ind + 1, "return 7")
    elif end == "ifret1":
        src.add(ind, "if W.true:")
        src.add(ind + 1, "return 7")
    elif end == "none":
        pass
    else:
        raise ValueError(end)


def number_tasks(task, counter=None, out=None):
    """preorder ids; returns list of (tid, task)"""
    if counter is None:
        counter, out = [0], []
    tid = counter[0]
    counter[0] += 1
    task["_id"] = tid
    out.append((tid, task))
    for fr in task["frames"]:
        for c in fr["ctxs"]:
            for k in c.get("kids", []):
                number_tasks(k, counter, out)
    return out


def tree_source(root):
    src = Src()
    for tid, task in number_tasks(root):
        nfr = len(task["frames"])
        for j, fr in enumerate(task["frames"]):
            src.add(0, f"async def t{tid}_f{j}(W):")
            src.add(1, f"W.reg({tid}, {j})")
            src.add(1, "x = 0")
            ind = 1
            ctxs = fr["ctxs"]
            for i, c in enumerate(ctxs):
                if c["t"] == "n":
                    src.add(ind, f"async with trio.open_nursery() as n{i}:")
                    src.add(ind + 1, f"W.other({tid}, {j}, {i}, n{i})")
                    for k in c["kids"]:
                        # one task name for all: Trio then names the worker threads of sibling
                        # to_thread.run_sync(same_fn) calls with EQUAL (but distinct) strings
                        src.add(ind + 1, f"n{i}.start_soon(t{k['_id']}_f0, W, name='t')")
                elif c["t"] == "cs":
                    src.add(ind, f"with W.other({tid}, {j}, {i}, trio.CancelScope()):")
                    src.add(ind + 1, "x = 3")
                elif c["t"] == "lock":
                    src.add(ind, f"async with W.other({tid}, {j}, {i}, trio.Lock()):")
                    src.add(ind + 1, "x = 4")
                else:
                    raise ValueError(c["t"])
                ind += 1
            # innermost body
            pad = int(task.get("pad", 0))
            if j + 1 < nfr:
                if pad:
                    # `pad` nested awaits (one recursive coroutine) between two frames of the task
                    src.add(ind, f"await W.via({pad}, t{tid}_f{j + 1}, W)")
                else:
                    src.add(ind, f"await t{tid}_f{j + 1}(W)")
            elif task["block"] == "body":
                if pad and nfr == 1 and task["how"] in ("sleep", "event"):
                    fn = "trio.sleep_forever" if task["how"] == "sleep" else "W.gate.wait"
                    src.add(ind, f"await W.via({pad}, {fn})")
                elif task["how"] == "sleep":
                    src.add(ind, "await trio.sleep_forever()")
                elif task["how"] == "poll":
                    # runnable at a checkpoint, never blocked: seen parked in cancel_shielded_checkpoint
                    src.add(ind, "while not W.gate.is_set():")
                    src.add(ind + 1, "await trio.lowlevel.checkpoint()")
                elif task["how"] == "thread":
                    src.add(ind, f"await trio.to_thread.run_sync(W.tpark, {tid})")
                elif task["how"] == "pingpong":
                    # same-named sibling tasks each in to_thread(one fn) -> from_thread.run(one afn)
                    src.add(ind, f"await trio.to_thread.run_sync(W.tpp, {tid})")
                else:
                    src.add(ind, "await W.gate.wait()")
            else:
                for q in range(task.get("closed", 0)):
                    src.add(ind + q, "async with trio.open_nursery():")
                    src.add(ind + q + 1, "x = 5")
            # ends, innermost first
            for i in range(len(ctxs) - 1, -1, -1):
                emit_end(src, ind, ctxs[i].get("end", "plain"))
                ind -= 1
            src.add(1, "return x")
            src.add(0, "")
    return src.text()


SHARED_SRC = """
async def aseg(W, k):
    W.seg_enter(k)
    h = W.hop(k)
    if h == "T":
        await trio.to_thread.run_sync(sseg, W, k + 1)
    elif h == "park":
        W.ready.set()
        await W.gate.wait()
    elif h == "inside":
        await trio.testing.wait_all_tasks_blocked()
        W.observe()
        W.ready.set()
    elif h == "limiter":
        W.ready.set()
        await trio.to_thread.run_sync(W.never, limiter=W.full_limiter)

def sseg(W, k):
    W.thr_enter(k)
    h = W.hop(k)
    if h == "H":
        trio.from_thread.run(aseg, W, k + 1)
    elif h == "S":
        trio.from_thread.run(aseg, W, k + 1, trio_token=W.token)
    else:
        W.token.run_sync_soon(W.ready.set)
        W.tlock.acquire()
        W.tlock.release()

async def seg0_a(W):
    await aseg(W, 0)

def seg0_s(W):
    sseg(W, 0)
"""


def chain_source(desc):
    if desc.get("shared"):
        # ONE sync and ONE async function at every level: all worker threads get equal names
        return SHARED_SRC
    hops = desc["hops"]
    nseg = len(hops) + 1
    src = Src()
    is_task = desc["start"] == "task"
    for k in range(nseg):
        last = k == nseg - 1
        nurs = bool(desc["nurs"][k]) and is_task
        deep = bool(desc["deep"][k])
        if is_task and k > 0 and hops[k - 1] == "R":
            # trio.from_thread.run_sync: a SYNC function run by the host task inside its
            # to_thread.run_sync frame (the glue registers nothing for from_thread.run_sync)
            src.add(0, f"def seg{k}(W):")
            src.add(1, f"W.seg_enter({k})")
            src.add(1, f"W.settle({k - 1})")
            src.add(1, "W.observe()")
            src.add(1, "W.ready.set()")
        elif is_task:
            src.add(0, f"async def seg{k}(W):")
            src.add(1, f"W.seg_enter({k})")
            if deep:
                src.add(1, f"return await seg{k}_b(W)")
                src.add(0, f"async def seg{k}_b(W):")
                src.add(1, f"W.reg_code({k}, 1)")
            ind = 1
            if nurs:
                src.add(ind, "async with trio.open_nursery() as n0:")
                src.add(ind + 1, f"W.other(('s', {k}), {1 if deep else 0}, 0, n0)")
                src.add(ind + 1, f"n0.start_soon(W.leaf, {200 + k})")
                ind += 1
            if not last:
                assert hops[k] == "T"
                src.add(ind, f"await trio.to_thread.run_sync(seg{k + 1}, W)")
            elif desc["end"] == "park":
                src.add(ind, "W.ready.set()")
                src.add(ind, "await W.gate.wait()")
            elif desc["end"] == "inside":
                src.add(ind, "await trio.testing.wait_all_tasks_blocked()")
                src.add(ind, "W.observe()")
                src.add(ind, "W.ready.set()")
            elif desc["end"] == "limiter":
                src.add(ind, "W.ready.set()")
                src.add(ind, "await trio.to_thread.run_sync(W.never, limiter=W.full_limiter)")
            if nurs:
                src.add(ind, "n0.cancel_scope.cancel()")
        else:
            src.add(0, f"def seg{k}(W):")
            src.add(1, f"W.thr_enter({k})")
            if deep:
                src.add(1, f"return seg{k}_b(W)")
                src.add(0, f"def seg{k}_b(W):")
            if not last:
                if hops[k] == "R":
                    src.add(1, f"trio.from_thread.run_sync(seg{k + 1}, W)")
                elif hops[k] == "H":
                    src.add(1, f"trio.from_thread.run(seg{k + 1}, W)")
                else:
                    assert hops[k] == "S"
                    src.add(1, f"trio.from_thread.run(seg{k + 1}, W, trio_token=W.token)")
            else:
                src.add(1, "W.token.run_sync_soon(W.ready.set)")
                src.add(1, "W.tlock.acquire()")
                src.add(1, "W.tlock.release()")
        src.add(0, "")
        if not last:
            is_task = not is_task
    return src.text()


def chain_valid(desc):
    hops = desc["hops"]
    is_task = desc["start"] == "task"
    foreign = not is_task
    for i, h in enumerate(hops):
        if is_task:
            if h != "T":
                return False
        else:
            if h not in "HSR":
                return False
            if h in "HR" and i == 0 and foreign:
                return False
            if h == "R" and (i != len(hops) - 1 or desc["end"] != "inside" or desc.get("shared")):
                return False
        is_task = not is_task
    if desc["end"] in ("inside", "limiter") and not is_task:
        return False
    if len(desc["nurs"]) != len(hops) + 1 or len(desc["deep"]) != len(hops) + 1:
        return False
    return True


# ------------------------------------------------------------------------------- runtime world
class World:
    true = True
    false = False

    def __init__(self, desc):
        import trio
        self.trio = trio
        self.desc = desc
        self.task_ids = {}      # id(task) -> root id
        self.tasks = {}         # root id -> task
        self.objs = {}          # id(obj) -> ("n"|"o", number)
        self.obj_at = {}        # (tkey, frame idx, ctx idx) -> obj
        self.keep = []
        self.codes = {}         # code -> (tkey, frame idx)
        self.seg_task = {}      # segment -> task
        self.seg_thread = {}    # segment -> (thread, entry frame)
        self.nn = 0
        self.no = 0
        self.result = None
        self.gate = trio.Event()
        self.ready = trio.Event()
        self.tlock = threading.Lock()
        self.token = None
        self.start_obj = None
        self.full_limiter = trio.CapacityLimiter(1)
        self.pp_parked = set()
        self.ns = None

    # --- called by generated code
    def reg(self, tid, j):
        fr = sys._getframe(1)
        self.codes[fr.f_code] = (tid, j)
        if j == 0:
            t = self.trio.lowlevel.current_task()
            self.task_ids[id(t)] = tid
            self.tasks[tid] = t

    def reg_code(self, k, j):
        self.codes[sys._getframe(1).f_code] = (("s", k), j)

    def other(self, tkey, j, i, obj):
        self.keep.append(obj)
        if isinstance(obj, self.trio.Nursery):
            self.objs[id(obj)] = ("n", self.nn)
            self.nn += 1
        else:
            self.objs[id(obj)] = ("o", self.no)
            self.no += 1
        self.obj_at[(tkey if not isinstance(tkey, list) else tuple(tkey), j, i)] = obj
        return obj

    async def leaf(self, rid):
        t = self.trio.lowlevel.current_task()
        self.task_ids[id(t)] = rid
        self.tasks[rid] = t
        await self.gate.wait()

    def never(self):
        return None

    async def via(self, n, fn, *args):
        """n nested awaits above fn(*args)"""
        if n > 0:
            return await self.via(n - 1, fn, *args)
        return await fn(*args)

    def tpark(self, tid):
        """body of a tree task parked in to_thread.run_sync: one function for all tasks"""
        self.seg_thread[("t", tid)] = (threading.current_thread(), sys._getframe(0))
        self.tlock.acquire()
        self.tlock.release()

    def tpp(self, tid):
        """worker of a tree task in a one-level ping-pong: re-enters its host task"""
        self.seg_thread[("t", tid)] = (threading.current_thread(), sys._getframe(0))
        self.trio.from_thread.run(self.app, tid)

    async def app(self, tid):
        self.pp_parked.add(tid)
        await self.gate.wait()

    def hop(self, k):
        hops = self.desc["hops"]
        return hops[k] if k < len(hops) else self.desc["end"]

    def seg_enter(self, k):
        fr = sys._getframe(1)
        self.codes[fr.f_code] = (("s", k), 0)
        t = self.trio.lowlevel.current_task()
        self.seg_task[k] = t
        if id(t) not in self.task_ids:
            rid = 0 if k == 0 else 100 + k
            self.task_ids[id(t)] = rid
            self.tasks[rid] = t

    def settle(self, k):
        """wait (briefly, from the Trio thread) until the worker thread of segment k sits in
        SimpleQueue.get() inside _send_message_to_trio, so that its frames no longer change"""
        import time
        th = self.seg_thread[k][0]
        for _ in range(2000):
            top = sys._current_frames().get(th.ident)
            if top is not None and top.f_code.co_name == "_send_message_to_trio":
                return
            time.sleep(0.0005)

    def thr_enter(self, k):
        self.seg_thread[k] = (threading.current_thread(), sys._getframe(1))

    # --- ground truth
    def seg_of_call(self, frame, fn_local):
        """which generated segment / parked tree task a to_thread / from_thread call starts:
        by the call's own arguments (shared functions) or by the function's identity"""
        args = frame.f_locals.get("args") or ()
        fn = frame.f_locals.get(fn_local)
        if getattr(fn, "__func__", None) in (World.tpark, World.tpp) and len(args) == 1:
            return ("t", args[0])
        if len(args) >= 2 and isinstance(args[1], int):
            return args[1]
        return self.seg_of_fn(fn)

    def seg_of_fn(self, fn):
        if self.ns is None or fn is None:
            return None
        for name, val in self.ns.items():
            if val is fn and name.startswith("seg") and name[3:].isdigit():
                return int(name[3:])
        return None

    def observe(self):
        """Build the ground-truth world, call the real extract() on the start object from THIS
        frame, abstract the result.  Stores a JSON-able dict in self.result."""
        import stackscope
        trio = self.trio
        me = sys._getframe(0)
        desc = self.desc
        try:
            cur_task = trio.lowlevel.current_task()
        except RuntimeError:
            cur_task = None
        fids = {}
        fkeep = []

        def fid(frame):
            if id(frame) not in fids:
                fids[id(frame)] = len(fkeep)
                fkeep.append(frame)
            return fids[id(frame)]

        def coro_chain(coro):
            out = []
            cur = coro
            while cur is not None:
                if isinstance(cur, types.CoroutineType):
                    f, nxt = cur.cr_frame, cur.cr_await
                elif isinstance(cur, types.GeneratorType):
                    f, nxt = cur.gi_frame, cur.gi_yieldfrom
                else:
                    break
                if f is None:
                    break
                out.append(f)
                cur = nxt
            return out

        def running_chain(outer):
            out = []
            cur = me
            while cur is not None:
                out.append(cur)
                if cur is outer:
                    return out[::-1]
                cur = cur.f_back
            return None

        def thread_frames(thread, entry):
            top = sys._current_frames().get(thread.ident)
            out = []
            cur = top
            while cur is not None:
                out.append(cur)
                if cur is entry:
                    return out[::-1]
                cur = cur.f_back
            return out[::-1] if entry is None else None

        def task_frames(task):
            if task is cur_task:
                return running_chain(task.coro.cr_frame) or [], True
            return coro_chain(task.coro), False

        def gt_task(task):
            frames, running = task_frames(task)
            rid = self.task_ids.get(id(task), UNKNOWN)
            return {"root": rid, "frames": [gt_frame(f) for f in frames]}, running

        def gt_ctxs(frame):
            key = self.codes.get(frame.f_code)
            if key is None:
                return []
            tkey, j = key
            out = []
            i = 0
            while (tkey, j, i) in self.obj_at:
                obj = self.obj_at[(tkey, j, i)]
                kind, num = self.objs[id(obj)]
                if kind == "n":
                    kids = [gt_task(t)[0] for t in obj.child_tasks]
                    out.append(["n", num, kids])
                else:
                    out.append(["o", num])
                i += 1
            return out

        def gt_frame(frame):
            code = frame.f_code
            base = code.co_filename.replace("\\", "/").rsplit("/", 2)[-2:]
            where = ("/".join(base), code.co_qualname)
            kind = ["plain"]
            if where[0] == "_core/_traps.py" and where[1] in TRAPS:
                kind = ["trap", where[1] == "wait_task_rescheduled"]
            elif where in HIDDEN:
                kind = ["hidden"]
            elif where == ("trio/_threads.py", "to_thread_run_sync"):
                k = self.seg_of_call(frame, "sync_fn")
                kind = ["to_nf"]
                if k is not None and k in self.seg_thread:
                    th, entry = self.seg_thread[k]
                    tfs = thread_frames(th, entry)
                    if tfs:
                        kind = ["to", [gt_frame(f) for f in tfs]]
            elif where == ("trio/_threads.py", "from_thread_run"):
                if frame.f_locals.get("trio_token") is None:
                    kind = ["from_host"]
                else:
                    k = self.seg_of_call(frame, "afn")
                    kind = ["plain"]      # unknown serving task: cannot happen for generated programs
                    if k is not None and k in self.seg_task:
                        t, running = gt_task(self.seg_task[k])
                        # Trio's Run.run replaces task.context while the task serves a re-entrant
                        # from_thread.run; the glue identifies the serving task by context identity
                        swapped = any(x["name"] == "Run.run" for x in t["frames"])
                        kind = ["from_sys", running, t, swapped]
            return {"id": fid(frame), "kind": kind, "ctxs": gt_ctxs(frame),
                    "name": code.co_qualname}

        start = self.start_obj
        if isinstance(start, threading.Thread):
            world = {"thread": 0, "frames": [gt_frame(f) for f in thread_frames(start, None)]}
        else:
            t, running = gt_task(start)
            world = {"task": t, "running": running}

        # Trio's own tables
        nurs_tab, kids_tab = {}, {}
        seen = set()

        def tables(task):
            if id(task) in seen:
                return
            seen.add(id(task))
            rid = self.task_ids.get(id(task), UNKNOWN)
            lst = []
            for n in task.child_nurseries:
                nid = self.objs.get(id(n), ("n", UNKNOWN))[1]
                lst.append(nid)
                kids_tab[nid] = [self.task_ids.get(id(c), UNKNOWN) for c in n.child_tasks]
                for c in n.child_tasks:
                    tables(c)
            nurs_tab[rid] = lst

        for t in list(self.tasks.values()):
            tables(t)

        # the real implementation
        rc = bool(desc["rc"])
        escaped = None
        st = None
        intr = desc.get("intr")
        intr_state = None
        if intr:
            intr_state = self.arm_interleaving(intr)
        try:
            with warnings.catch_warnings():
                warnings.simplefilter("error", stackscope.InspectionWarning)
                try:
                    st = stackscope.extract(start, recurse_child_tasks=rc)
                except BaseException as ex:  # property: extract does not raise
                    escaped = repr(ex)
        finally:
            if intr_state is not None:
                self.disarm_interleaving(intr_state)

        problems = []
        dirty = []

        def abs_stack(s, path):
            if not isinstance(s, stackscope.Stack):
                problems.append(f"{path}: child is {type(s).__name__}, not a Stack")
                return {"root": ["H", UNKNOWN], "frames": []}
            if s.error is not None:
                problems.append(f"{path}: Stack.error = {str(s.error)[:300]!r}")
                dirty.append(path)
            if s.leaf is not None:
                problems.append(f"{path}: Stack.leaf = {type(s.leaf).__name__}")
                dirty.append(path)
            r = s.root
            if isinstance(r, threading.Thread):
                root = ["H", 0 if r is self.start_obj else UNKNOWN]
            elif id(r) in self.task_ids:
                root = ["T", self.task_ids[id(r)]]
            else:
                root = ["T", UNKNOWN]
                problems.append(f"{path}: Stack.root is {type(r).__name__}, not a known task")
            frames = []
            for n, f in enumerate(s.frames):
                cx = []
                for c in f.contexts:
                    reg = self.objs.get(id(c.obj))
                    if reg is None:
                        if isinstance(c.obj, trio.Nursery) or type(c.obj).__name__ == "NurseryManager":
                            reg = ("n", UNKNOWN)
                        elif c.children:
                            reg = ("o", UNKNOWN)
                        else:
                            continue        # a library's own context manager: not part of the comparison
                    cx.append([reg[0], reg[1], [abs_stack(k, f"{path}/{reg[0]}{reg[1]}[{m}]")
                                               for m, k in enumerate(c.children)]])
                frames.append([fids.get(id(f.pyframe), UNKNOWN), bool(f.hide), cx])
            return {"root": root, "frames": frames}

        obs = abs_stack(st, "") if st is not None else None
        oracle = None
        if escaped:
            oracle = ["fatal", "extract() raised " + escaped]
        elif problems:
            oracle = ["fatal", "; ".join(problems[:4])]
        else:
            try:
                oracle = self.direct(st, start, rc, world, [fids.get(id(f.pyframe), UNKNOWN) for f in st.frames])
            except Exception as ex:  # the oracle itself must not take the run down
                oracle = ["fatal", "oracle crashed: " + repr(ex)]
        if intr_state is not None and oracle is None and intr_state["problem"]:
            oracle = ["fatal", intr_state["problem"]]
        self.result = {"world": world, "stack": obs, "nurs": sorted(nurs_tab.items()),
                       "kids": sorted(kids_tab.items()), "oracle": oracle, "clean": not dirty,
                       "interleaved": bool(intr_state and intr_state.get("interleaved")),
                       "nframes": len(fkeep)}
        del fkeep[:]

    # --- a second thread inside an extraction of its own, with other options, while the tree is
    #     being extracted: scheduled deterministically through stackscope._verif ("glue:enter" is
    #     reached once at the start of every stack that gets extracted)
    def arm_interleaving(self, intr):
        from stackscope import _verif
        st = {"problem": None, "started": 0, "go": threading.Event(), "inside": threading.Event(),
              "done": threading.Event(), "result": [], "main": threading.current_thread(), "prev": _verif.hook}
        if not _verif.ENABLED:
            st["problem"] = "STACKSCOPE_VERIF is not enabled: the interleaving cannot be scheduled"
            return st

        def gen():
            yield 1

        g = gen()
        next(g)

        def other():
            import stackscope
            st["go"].wait(10)
            if st["done"].is_set():
                return
            try:
                st["result"].append(stackscope.extract(g, with_contexts=bool(intr["wc"]),
                                                       recurse_child_tasks=bool(intr["rc"])))
            except BaseException as ex:
                st["result"].append(ex)

        def hook(tag, info):
            if tag != "glue:enter":
                return
            if threading.current_thread() is st["main"]:
                st["started"] += 1
                if st["started"] == int(intr["at"]):
                    st["go"].set()
                    if not st["inside"].wait(10):
                        st["problem"] = "the second thread never entered its extraction"
            else:
                st["inside"].set()
                st["done"].wait(10)        # stay inside extract() until the tree is finished

        st["thread"] = threading.Thread(target=other, daemon=True)
        st["thread"].start()
        _verif.hook = hook
        return st

    def disarm_interleaving(self, st):
        from stackscope import _verif
        st["done"].set()
        st["go"].set()
        if "thread" in st:
            st["thread"].join(10)
            _verif.hook = st["prev"]
            if st["problem"] is None and st["inside"].is_set():
                r = st["result"]
                if not (r and not isinstance(r[0], BaseException) and r[0].error is None
                        and [f.pyframe.f_code.co_name for f in r[0].frames] == ["gen"]):
                    st["problem"] = "the second thread's own extract() came out wrong: %r" % (r,)
            elif st["problem"] is None:
                st["problem"] = None      # fewer stacks than `at`: nothing was interleaved (recorded)
        st["interleaved"] = st["inside"].is_set()

    # --- property oracle on the implementation alone (live objects)
    def direct(self, st, start, rc, world, gids):
        trio = self.trio
        if isinstance(start, threading.Thread):
            exp_nurs = None
        else:
            exp_nurs = list(start.child_nurseries)
            # nurseries of system tasks continued into through from_thread.run(trio_token=...)
            def more(frames):
                for f in frames:
                    k = f["kind"]
                    if k[0] == "to":
                        more(k[1])
                    elif k[0] == "from_sys":
                        t = self.tasks.get(k[2]["root"])
                        if t is not None:
                            exp_nurs.extend(t.child_nurseries)
                        more(k[2]["frames"])
            more(world["task"]["frames"])

        def check(stack, task, path, nurs_expected):
            if stack.root is not task:
                return f"{path}: root is not the task"
            for q, fr in enumerate(stack.frames):
                fn = fr.pyframe.f_code.co_filename.replace("\\", "/")
                if fn.endswith("_core/_traps.py"):
                    if not fr.hide:
                        return f"{path}: Trio trap plumbing ({fr.pyframe.f_code.co_name}) is visible past the blocking point"
                    if q != len(stack.frames) - 1:
                        return f"{path}: frames extracted inward of the trap {fr.pyframe.f_code.co_name}"
            # a task parked in to_thread.run_sync shows ITS OWN worker: the marker argument of the
            # worker function (and of the coroutine it called back into the task) is the task's id
            mine = self.task_ids.get(id(task))
            for fr in stack.frames:
                if fr.pyframe.f_code in (World.tpark.__code__, World.tpp.__code__, World.app.__code__):
                    if fr.pyframe.f_locals.get("tid") != mine:
                        return (f"{path}: the worker-thread frames shown for task {mine} belong to the "
                                f"to_thread.run_sync call of task {fr.pyframe.f_locals.get('tid')}")
            got = [c for f in stack.frames for c in f.contexts if isinstance(c.obj, trio.Nursery)]
            if nurs_expected is not None:
                if [id(c.obj) for c in got] != [id(n) for n in nurs_expected]:
                    return (f"{path}: nursery contexts {[self.objs.get(id(c.obj)) for c in got]} != "
                            f"task.child_nurseries {[self.objs.get(id(n)) for n in nurs_expected]}")
            for c in got:
                kids = list(c.obj.child_tasks)
                if [id(k.root) for k in c.children] != [id(k) for k in kids]:
                    return f"{path}: children of nursery {self.objs.get(id(c.obj))} are not its child_tasks (by root, in order)"
                for m, (ks, kt) in enumerate(zip(c.children, kids)):
                    if not rc:
                        if len(ks.frames) or ks.leaf is not None or ks.error is not None:
                            return f"{path}: child {m} is not a stub although recurse_child_tasks=False"
                        continue
                    if not ks.frames:
                        return f"{path}: child {m} has no frames although recurse_child_tasks=True"
                    if ks.frames[0].pyframe is not kt.coro.cr_frame:
                        return f"{path}: child {m} does not start at its coroutine's frame"
                    inner = ks.frames[-1].pyframe
                    if inner.f_code.co_name not in TRAPS and "tlock" not in inner.f_code.co_names:
                        return f"{path}: child {m} does not end at its blocking point ({inner.f_code.co_name})"
                    msg = check(ks, kt, f"{path}/{self.task_ids.get(id(kt))}", list(kt.child_nurseries))
                    if msg:
                        return msg
            for f in stack.frames:
                for c in f.contexts:
                    if not isinstance(c.obj, trio.Nursery) and id(c.obj) in self.objs and c.children:
                        return f"{path}: non-nursery context has children"
            return None

        # thread hops, straight from the property text
        if self.desc["kind"] == "chain":
            want = splice(world["task"]["frames"] if "task" in world else world["frames"])
            if gids != want:
                return ["hops", f"frames across thread hops: got {gids}, the property text gives {want}"]
        if isinstance(start, threading.Thread):
            msg = None
            if st.root is not start:
                msg = "root is not the thread"
        else:
            msg = check(st, start, "0", exp_nurs)
        if msg:
            return ["tree", msg]
        return None


def splice(frames):
    """Expected frame ids per the property text: the worker thread's frames take the place of
    the wait; a thread inside from_thread.run continues into the task serving it; traps end a
    stack.  (No depths, no pruning thresholds: this is the specification, not the mechanism.)"""
    out, _ = _splice(frames)
    return out


def _splice(frames):
    """-> (ids, go_on) ; go_on False = the stack ends here for good"""
    out = []
    i = 0
    while i < len(frames):
        f = frames[i]
        k = f["kind"]
        out.append(f["id"])
        if k[0] == "trap":
            return out, False
        if k[0] == "from_host":
            return out, True            # the serving (host) task's frames follow
        if k[0] == "from_sys":
            sub, _ = _splice(k[2]["frames"])
            return out + sub, False
        if k[0] == "to":
            sub, go_on = _splice(k[1])
            out += sub
            nxt = frames[i + 1] if i + 1 < len(frames) else None
            if nxt is not None and nxt["kind"] == ["trap", True]:
                return out, False       # thread frames in place of the wait
            if not go_on:
                return out, False
        i += 1
    return out, True


TRAPS = ("cancel_shielded_checkpoint", "wait_task_rescheduled",
         "temporarily_detach_coroutine_object", "permanently_detach_coroutine_object")
HIDDEN = {
    ("trio/_threads.py", "Run.run"), ("trio/_threads.py", "Run.run_system"),
    ("trio/_threads.py", "Run.unprotected_afn"), ("trio/_threads.py", "RunSync.run_sync"),
    ("trio/_threads.py", "RunSync.unprotected_fn"),
    ("outcome/_impl.py", "capture"), ("outcome/_impl.py", "acapture"),
    ("outcome/_impl.py", "Value.send"), ("outcome/_impl.py", "Error.send"),
    ("python3.12/threading.py", "Thread.run"), ("python3.12/threading.py", "Thread._bootstrap"),
    ("python3.12/threading.py", "Thread._bootstrap_inner"),
}


def count_tasks(task):
    n, p = 1, int(task["block"] == "body" and task["how"] == "poll")
    for fr in task["frames"]:
        for c in fr["ctxs"]:
            for k in c.get("kids", []):
                a, b = count_tasks(k)
                n += a
                p += b
    return n, p


def count_how(task, how):
    n = int(task["block"] == "body" and task["how"] == how)
    for fr in task["frames"]:
        for c in fr["ctxs"]:
            for k in c.get("kids", []):
                n += count_how(k, how)
    return n


def count_thread_parked(task):
    n = int(task["block"] == "body" and task["how"] in ("thread", "pingpong"))
    for fr in task["frames"]:
        for c in fr["ctxs"]:
            for k in c.get("kids", []):
                n += count_thread_parked(k)
    return n


# ------------------------------------------------------------------------------- running a case
_counter = [0]


def run(desc):
    """Run one generated program under trio.run and return the observation dict."""
    import trio
    import trio.testing

    _counter[0] += 1
    if desc["kind"] == "tree":
        src = tree_source(desc["root"])
    else:
        if not chain_valid(desc):
            raise ValueError("invalid chain descriptor")
        src = chain_source(desc)
    ns = {"trio": trio}
    exec(compile(src, f"<c14-{_counter[0]}>", "exec"), ns)
    holder = {}
    import trio.testing  # noqa: F401  (used by the shared chain source)

    async def main():
        W = World(desc)
        holder["W"] = W
        W.ns = ns
        W.token = trio.lowlevel.current_trio_token()
        W.tlock.acquire()
        W.full_limiter.acquire_on_behalf_of_nowait(W)
        released = [False]

        def release():
            if not released[0]:
                released[0] = True
                W.gate.set()
                W.tlock.release()
                W.full_limiter.release_on_behalf_of(W)

        try:
            with trio.fail_after(30):
                async with trio.open_nursery() as sup:
                    if desc["kind"] == "tree":
                        sup.start_soon(ns["t0_f0"], W)
                        total, polls = count_tasks(desc["root"])
                        if polls:
                            # pollers are never blocked: wait, tick by tick, until every task has
                            # started, then long enough for every other task to reach its parking
                            # place (each Lock acquisition on the way costs one tick)
                            for _ in range(100000):
                                if len(W.tasks) >= total:
                                    break
                                await trio.sleep(0)
                            for _ in range(60):
                                await trio.sleep(0)
                        else:
                            await trio.testing.wait_all_tasks_blocked()
                        want = count_thread_parked(desc["root"])
                        while sum(1 for k in W.seg_thread if isinstance(k, tuple)) < want:
                            await trio.sleep(0.001)
                        npp = count_how(desc["root"], "pingpong")
                        while len(W.pp_parked) < npp:
                            await trio.sleep(0.001)
                        if want:
                            if polls:
                                await trio.sleep(0.01)
                            else:
                                await trio.testing.wait_all_tasks_blocked()
                                await trio.sleep(0.002)
                        W.start_obj = W.tasks[0]
                        W.observe()
                        release()
                        sup.cancel_scope.cancel()
                    else:
                        foreign = None
                        if desc["start"] == "task":
                            async def starter():
                                W.start_obj = trio.lowlevel.current_task()
                                await ns["seg0_a" if desc.get("shared") else "seg0"](W)
                            sup.start_soon(starter)
                        else:
                            foreign = threading.Thread(target=ns["seg0_s" if desc.get("shared") else "seg0"],
                                                       args=(W,), daemon=True)
                            W.start_obj = foreign
                            foreign.start()
                        await W.ready.wait()
                        if desc["end"] != "inside":
                            await trio.testing.wait_all_tasks_blocked()
                            await trio.sleep(0.003)
                            W.observe()
                        release()
                        while foreign is not None and foreign.is_alive():
                            await trio.sleep(0.001)
        finally:
            release()

    trio.run(main)
    W = holder["W"]
    if W.result is None:
        raise RuntimeError("no observation was made")
    return W.result
