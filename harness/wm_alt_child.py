"""Runs under another CPython (3.11): computes, for the corpus of that interpreter, the abstract
code, exception table, certificate and what the real stackscope functions return there; prints one
JSON line per case.  usage: python -m harness.wm_alt_child <tier> <seed> <susp|run>"""
import json
import sys

from . import withmachine as W
from . import wm_cases as WC


def main():
    tier, seed, which = sys.argv[1], int(sys.argv[2]), sys.argv[3]
    # states of real frames under this interpreter (f_lasti + logged truth) for the `live` kind
    try:
        d = {"_kind": "live", "which": which, "tier": tier, "seed": seed}
        obs = WC.run_live(d)
        if "live_error" not in obs:
            data = WC.live_data()
            sys.stdout.write(json.dumps(dict(d, ver=W.VER, pre={"obs": obs, "live": data})) + "\n")
    except Exception as ex:  # noqa: BLE001
        sys.stderr.write("live leg under this interpreter failed: %r\n" % (ex,))
    for d in WC.make_descs(tier, seed, which, alt=True):
        if d["_kind"] == "live":
            continue
        try:
            obs = WC.run_case(d)
        except SyntaxError:
            continue                       # a generated program this interpreter's grammar rejects
        except Exception as ex:  # noqa: BLE001
            if getattr(ex, "harness_only", False):
                # the harness cannot take the source apart: not a failing input (reported by the parent as
                # "correspondence unavailable")
                sys.stdout.write(json.dumps({"_kind": d["_kind"], "which": which, "ver": W.VER, "src": "alt-unavailable",
                                             "unavailable": repr(ex)}) + "\n")
                return
            raise
        pre = {"obs": obs}
        if "machine_error" not in obs and d["_kind"] != "table":
            co, _ = WC.load_code(d)
            units, table = W.abstract_code(co)
            cert = W.certificate(units, table)
            pre.update(units=units, table=table, cert=cert)
        d = dict(d, ver=W.VER, pre=pre)
        sys.stdout.write(json.dumps(d) + "\n")


if __name__ == "__main__":
    main()
