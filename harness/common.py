"""Shared helpers: Gallina literal printing, coqc runner, paths."""
from __future__ import annotations

import json
import os
import re
import subprocess
import sys
import time

ROOT = os.path.dirname(os.path.dirname(os.path.abspath(__file__)))
COQ = os.path.join(ROOT, "coq")
BUILD = os.path.join(ROOT, "build")
REPO = os.environ.get("VERIF_REPO", "/repo")
PY = "/venv/bin/python"


# ---------------------------------------------------------------- Gallina literals
def cbool(b) -> str:
    return "true" if b else "false"


def cnat(n: int) -> str:
    assert isinstance(n, int) and 0 <= n < 5000, n
    return str(n)


def cZ(n: int) -> str:
    return f"({n})%Z" if n < 0 else f"{n}%Z"


def clist(xs) -> str:
    return "[" + "; ".join(xs) + "]"


def copt(x) -> str:
    return "None" if x is None else f"(Some {x})"


def cpair(a, b) -> str:
    return f"({a}, {b})"


def cstr(s: str) -> str:
    """Coq string literal (String scope); only printable ASCII is emitted verbatim, anything
    else must be encoded by the caller first."""
    assert all(32 <= ord(ch) < 127 for ch in s), repr(s)
    return '"' + s.replace('"', '""') + '"'


# ---------------------------------------------------------------- coqc
def coqc(path: str, timeout: int = 600):
    """Compile one .v file below COQ or BUILD with the project's load path; returns
    (ok, stdout+stderr)."""
    cmd = ["coqc", "-R", COQ, "SS", "-w", "-all", path]
    try:
        p = subprocess.run(cmd, stdout=subprocess.PIPE, stderr=subprocess.STDOUT,
                           timeout=timeout, text=True, cwd=os.path.dirname(path))
        return p.returncode == 0, p.stdout
    except subprocess.TimeoutExpired as ex:
        return False, f"TIMEOUT after {timeout}s\n" + (ex.stdout or "")


_RES = re.compile(r"^\s*=\s*(.*?)\n\s*:\s*([^\n]*)$", re.S | re.M)


def parse_evals(out: str):
    """Results of `Eval vm_compute in ...` commands, in order: list of (value, type) strings."""
    res = []
    # split on lines starting with "     = "
    chunks = re.split(r"(?m)^\s*= ", out)
    for ch in chunks[1:]:
        m = re.search(r"\n\s*: ", ch)
        if not m:
            continue
        val = " ".join(ch[: m.start()].split())
        rest = ch[m.end():]
        typ = rest.split("\n", 1)[0].strip()
        res.append((val, typ))
    return res


def parse_nat_list(val: str):
    val = val.strip()
    assert val.startswith("[") and val.endswith("]"), val
    body = val[1:-1].strip()
    if not body:
        return []
    return [int(x.split("%")[0]) for x in body.split(";")]      # numerals may be printed as `3%nat`


def now() -> float:
    return time.time()


def dump_json(path: str, obj) -> None:
    os.makedirs(os.path.dirname(path), exist_ok=True)
    tmp = path + ".tmp"
    with open(tmp, "w") as fh:
        json.dump(obj, fh, indent=1, sort_keys=True, default=repr)
    os.replace(tmp, path)
