"""C05 — extract never raises: faults contained, reported in .error, outer frames kept.

Leg 1 (Coq correspondence): synthetic hook tables (frames_gen) run through the real extract()
with an exception injected at the k-th dynamic hook invocation (unwrap_stackitem, FrameIterator
step, contexts_active_in_frame, fill_context, elaborate_frame) for every k, pairs of faults and
random multi-fault sets; the observed Stack tree (frames, hide flags, origins, contexts, child
stacks, per-Stack ordered errors) is compared inside Coq with M_Frames.extract evaluated at the
PROVEN guard values (all_guards); the facts regenerated from the source enter only through the proof
obligation C05_guards_regenerated (src_guards = all_guards), so a mismatch is always a real
disagreement between the implementation and the proven model.
Direct oracles on the implementation alone: extract() returned; str/format_flat/as_stdlib_summary
work; error shape (alone if one, ExceptionGroup of >= 2 otherwise, on every Stack of the tree);
frames yielded by the top-level extraction before the first fault fired are identical (same
frame ids, flags, contexts) to the fault-free run.
Leg 2 (extra_legs, harness/c05_real.py): real scenarios with the public hooks wrapped to raise at
the k-th invocation, and arbitrary non-stack roots.
"""
import itertools
import json
import random

from . import frames_gen as G

PROP = "C05"
IMPORTS = "From SS Require Import Base M_Frames M_Frames_Fault."
KINDS = {"main": dict(imports=IMPORTS, type="fcase", mismatch="fmismatches", nontrivial="fcount_nontrivial")}
RULE = ("rank-ordered hook tables (frames_gen) x fault sets: for each base table every single k-th-invocation fault "
        "(k swept until no fault fires), pairs (k1<k2, all pairs on the small scope in thorough, sampled in quick) and random "
        "sets of 1-4 fault ticks; with and without the contexts step (contexts_active_in_frame / fill_context with nested "
        "extract_child). distinct = distinct descriptors; non-trivial = the model run records at least one error or a fault in a nested Stack. "
        "Real-scenario leg: see extra_legs info")
SHARD = 250
CONFIG = dict(
    coq=["C05"], level="proof",
    claim=("Coq theorems (all hook tables, all fault sets, guards regenerated from the source of extract_iter) about the executable "
           "model M_Frames.extract: never Raised, reported faults = fired faults, yielded frames never dropped, local effect of a failing "
           "elaborate_frame / contexts step; tied to the code by differential comparison evaluated inside Coq on fault-injected runs of the "
           "real extract(), plus a runtime leg on real scenarios (async chains with generator-based managers and exit stacks, thread, "
           "greenlet, custom items, running stack) with every public hook raising at every k-th invocation."),
    design_ref="DESIGN.md section 5 C05",
    trusted_base=["model M_Frames.v (extract_iter, contexts step, nested extract_child, tick-based fault injection) is hand-written",
                  "gen/SrcFacts.v facts extract_g_unwrap/g_iter/g_ctx/g_fill/g_elab (ast, fail-closed) give the guard record"],
    assumptions=["hook results are tuples/lists/FrameIterators (a hostile Sequence whose __reversed__/__len__ raises is out of scope)",
                 "warnings are not turned into errors; injected exceptions derive from Exception (BaseException such as KeyboardInterrupt propagates by design)",
                 "unwrap tables are rank-ordered (acyclic) apart from the linear self-loop"],
    unproved_legs=["the two-run prefix theorems (C05_prefix_two_run, C05_prefix_vs_fault_free) are stated on runT, the model's run with a yield-tick stamp "
                   "per frame; C05_instrumented_is_run proves that forgetting the stamps gives M_Frames.run (the function the case files evaluate); "
                   "the runtime direct oracle on every synthetic case and the per-level oracle of the real-scenario leg check the same statement on the implementation",
                   "C05_error_shape is proved for the projection error_of / errs_of (list of saved errors <-> None | single | group) defined next to the model, "
                   "which keeps a list per Stack; that extract_child applies exactly this projection is checked by the runtime shape oracle on every case",
                   "real-scenario leg is a runtime oracle, not a model comparison (DESIGN's record/replay abstraction was replaced by a direct oracle); "
                   "small scope in thorough = every 41st table of the exhaustive 3-object x 2-frame space, each with all single faults and all pairs"],
    notes=("two known findings are reproduced by the real-scenario leg and reported through the normal KNOWN-FINDING path, both about an exiting "
           "generator-based manager with a registered unwrap_context_generator hook, where the contextlib glue calls extract_outermost(mgr.gen): "
           "F23 (C05_fault_inside_glue_extract_outermost) a hook failure after that nested call has its frame is discarded with the call's private "
           "error list; F24 (C05_runtimeerror_in_glue_extract_outermost_taken_for_no_frames) a hook failure of type RuntimeError (or subclass) "
           "before any frame is produced is re-raised as-is and eaten by the glue's `except RuntimeError:  # no frames`. Any other lost error is a "
           "VIOLATION. Counted, not flagged: faults held by an inner_stack that a later unwrap_context replacement discards (documented reset)"),
    timeout={"quick": 900, "thorough": 5400},
)
NOTES = CONFIG["notes"]


# ----------------------------------------------------------------- inputs
def _base(**kw):
    d = {"nf": 4, "no": 3, "frames": {str(i): ["plain"] for i in range(4)}, "attr": {}, "ctxs": {}, "fill": {},
         "faults": [], "with_ctx": False, "mode": "extract", "unwrap": {}, "elab": {}, "root": ["O", 0]}
    d.update(kw)
    return d


def specials():
    out = []
    # one of each call site, nested child extraction inside fill_context
    out.append(_base(unwrap={"0": ["seq", [["F", 0], ["O", 1], ["F", 3]], "tuple"], "1": ["iter", [["F", 1], ["F", 2]], False],
                             "2": ["seq", [["F", 3], None], "list"]},
                     elab={"1": ["seq", [], True], "0": ["none", None, True]},
                     ctxs={"0": ["ok", [0, 1]], "1": ["ok", [2]]},
                     fill={"0": ["ok", [["O", 2]]], "1": ["ok", []], "2": ["ok", [["F", 3], ["F", 2]]]},
                     with_ctx=True))
    out.append(_base(unwrap={"0": ["seq", [["F", 0], ["F", 1], ["F", 2]], "list"]},
                     elab={"0": ["seq", [["I", ["F", 3]], ["N"]], False], "1": ["one", ["I", ["O", 1]], True]},
                     with_ctx=False))
    out.append(_base(unwrap={"0": ["iter", [["F", 0], ["O", 1], ["F", 1]], True], "1": ["raise"]},
                     elab={"0": ["raise", None, True]}, ctxs={"0": ["raise"], "1": ["ok", [0]]}, fill={"0": ["raise"]},
                     with_ctx=True))
    out.append(_base(root=["F", 0], elab={"0": ["seq", [["I", ["F", 1]], ["N"]], False]}))      # F6 shape
    out.append(_base(root=["O", 2]))                                                              # irreducible root
    return out


def _fired(obs, k):
    """did fault tick k fire (is it reported anywhere, or did extract raise)?"""
    if obs.get("kind") != "ok":
        return True
    return '["fault", %d]' % k in json.dumps(obs)


def sweep_single(base, limit=60):
    for k in range(limit):
        d = dict(base, faults=[k])
        yield d
        obs = G.run_impl(d)
        forget_synthetic_classes()
        if not _fired(obs, k) or obs.get("kind") != "ok":
            return          # past the last invocation, or a witness that extract() raises: stop sweeping


def sweep_pairs(base, limit=40, rng=None, sample=None):
    for k1 in range(limit):
        obs1 = G.run_impl(dict(base, faults=[k1]))
        forget_synthetic_classes()
        if not _fired(obs1, k1) or obs1.get("kind") != "ok":
            return
        for k2 in range(k1 + 1, limit):
            d = dict(base, faults=[k1, k2])
            obs2 = G.run_impl(d)
            forget_synthetic_classes()
            if sample is None or rng.random() < sample or obs2.get("kind") != "ok":
                yield d
            if obs2.get("kind") != "ok":
                return
            if not _fired(obs2, k2):
                break


def small_scope(stride, offset):
    from .c10 import exhaustive
    yield from exhaustive(3, 2, stride=stride, offset=offset)


def acyclic(d):
    """the item graph (unwrap results, elaborate payloads, context children) has no cycle:
    frames_gen's rank order does not cover the own frame of a generator object"""
    edges = {}

    def key(it):
        return (it[0], it[1])
    for o, s in d["unwrap"].items():
        k = ("O", int(o))
        if s[0] == "one":
            edges.setdefault(k, []).append(key(s[1]))
        elif s[0] in ("seq", "iter"):
            edges.setdefault(k, []).extend(key(i) for i in s[1] if i)
        elif s[0] in ("gen", "gen2"):
            # gen2 = a second instance of the generator function of "gen" object s[2]: same target
            tgt = s[2] if s[0] == "gen" else d["unwrap"][str(s[2])][2]
            edges.setdefault(k, []).append(("F", s[1]))
            if tgt:
                edges[k].append(key(tgt))
    for f in range(d["nf"]):
        # frames may share a code object ("samecode" / gen2): the hook row is the code's, not the frame's
        s = G.eff_elab(d, f) if hasattr(G, "eff_elab") else d["elab"].get(str(f), ["none", None, True])
        k = ("F", f)
        pl = [s[1]] if s[0] == "one" else (s[1] if s[0] == "seq" else [])
        edges.setdefault(k, []).extend(key(r[1]) for r in pl if r[0] == "I")
    for f, s in d["ctxs"].items():
        if s[0] == "ok":
            for c in s[1]:
                fs = d["fill"].get(str(c), ["ok", []])
                if fs[0] == "ok":
                    edges.setdefault(("F", int(f)), []).extend(key(i) for i in fs[1])
    state = {}

    def visit(n):
        if state.get(n) == 1:
            return n[0] == "O" and edges.get(n) == [n]      # the linear self-loop is allowed
        if state.get(n) == 2:
            return True
        state[n] = 1
        for m in edges.get(n, []):
            if m == n and n[0] == "O" and edges[n] == [n]:
                continue
            if not visit(m):
                return False
        state[n] = 2
        return True
    return all(visit(n) for n in list(edges))


def make_inputs(tier, seed):
    for d in _make_inputs(tier, seed):
        if acyclic(d):
            yield d


def _make_inputs(tier, seed):
    rng = random.Random(seed * 7919 + 5)
    quick = tier == "quick"
    for b in specials():
        yield b
        yield from sweep_single(b)
        yield from sweep_pairs(b)
    # random tables, every single fault; pairs on a subset
    nb = 40 if quick else 400
    for i in range(nb):
        wc = i % 2 == 0
        b = G.gen_case(rng, nf=rng.choice([3, 4, 5]), no=rng.choice([3, 4, 5]), with_ctx=wc, gens=(not wc and i % 3 == 1))
        if not acyclic(b):
            continue
        yield b
        yield from sweep_single(b)
        if i % (8 if quick else 4) == 0:
            yield from sweep_pairs(b, rng=rng, sample=0.5 if quick else 1.0)
    # random multi-fault sets
    for _ in range(600 if quick else 8000):
        yield G.gen_case(rng, nf=5, no=5, faults=rng.randrange(1, 5), **rng.choice([dict(with_ctx=True), dict(with_ctx=True), dict(gens=True), dict()]))
    # small scope of C10 (3 objects x 2 frames, all result alphabets): every single fault, all pairs
    for b in small_scope(1499 if quick else 41, seed):
        yield from sweep_single(b)
        if not quick:
            yield from sweep_pairs(b)


# ----------------------------------------------------------------- running the implementation
_clean_cache = [None, None]


def _run_instrumented(desc):
    """G.run_impl with harness-side observation of (a) the Stack objects returned, (b) how many
    frames the top-level extraction had yielded when each fault fired."""
    import stackscope
    from stackscope import _extract

    captured = []
    active = []          # per running extract_iter: [frames yielded so far]
    fired = []           # (tick, yielded-by-top-level, nesting depth)
    orig_extract, orig_iter, orig_boom = stackscope.extract, _extract.extract_iter, G.Boom

    def p_extract(*a, **kw):
        st = orig_extract(*a, **kw)
        captured.append(st)
        return st

    def p_iter(item, errs):
        rec = [0]
        gen = orig_iter(item, errs)

        def drive():
            while True:
                active.append(rec)
                try:
                    fr = next(gen)
                except StopIteration as ex:
                    return ex.value
                finally:
                    active.pop()
                rec[0] += 1
                yield fr
        return drive()

    class Boom(orig_boom):
        def __init__(self, kind, ident):
            super().__init__(kind, ident)
            if kind == "fault":
                fired.append((ident, active[0][0] if active else -1, len(active)))

    stackscope.extract = p_extract
    _extract.extract_iter = p_iter
    G.Boom = Boom
    try:
        obs = G.run_impl(desc)
    finally:
        stackscope.extract = orig_extract
        _extract.extract_iter = orig_iter
        G.Boom = orig_boom

    def shape(st, path="root"):
        ExcGroup = ExceptionGroup  # noqa: F821  (3.11+)
        e = st.error
        if isinstance(e, ExcGroup):
            if len(e.exceptions) < 2:
                return f"{path}: ExceptionGroup of {len(e.exceptions)}"
            if any(isinstance(x, ExcGroup) for x in e.exceptions):
                return f"{path}: nested ExceptionGroup"
        elif e is not None and not isinstance(e, Exception):
            return f"{path}: error is {type(e)}"
        for i, fr in enumerate(st.frames):
            for j, c in enumerate(fr.contexts):
                for k, ch in enumerate(c.children):
                    if isinstance(ch, stackscope.Stack):
                        r = shape(ch, f"{path}.f{i}.c{j}.k{k}")
                        if r:
                            return r
        return None

    if obs.get("kind") == "ok" and captured:
        obs["shape"] = shape(captured[-1]) or True
        from .c05_real import render_checks
        bad = render_checks(captured[-1])
        obs["render"] = bad[0] if bad else True
    obs["fired"] = fired
    return obs


def forget_synthetic_classes():
    """no-op: frames_gen now pools its synthetic item classes (registered once), so nothing accumulates
    in the singledispatch registry any more"""
    return None


def run_case(desc):
    try:
        return _run_case(desc)
    finally:
        forget_synthetic_classes()


def _run_case(desc):
    obs = _run_instrumented(desc)
    if desc["faults"] and desc["mode"] == "extract" and obs.get("kind") == "ok":
        key = json.dumps(dict(desc, faults=[]), sort_keys=True)
        if _clean_cache[0] != key:
            _clean_cache[0], _clean_cache[1] = key, G.run_impl(dict(desc, faults=[]))
        clean = _clean_cache[1]
        if obs["fired"] and clean.get("kind") == "ok":
            k = obs["fired"][0][1]
            a, b = obs["frames"][:k], clean["frames"][:k]
            if k < 0 or len(obs["frames"]) < k or a != b:
                obs["prefix"] = f"first fault fired after {k} yielded frames; faulty prefix {a} != fault-free prefix {b}"
            else:
                obs["prefix"] = True
                obs["prefix_len"] = k
    return obs


def coq_case(desc, obs):
    if obs.get("kind") == "raised":
        out = "(Raised (EFault 0))"
    else:
        out = f"(Ok {G.c_stack(obs)})"
    return f"({G.c_cfg(desc)}, {G.c_item(desc['root'])}, {out})"


def direct_oracle(desc, obs):
    if obs.get("kind") == "raised":
        return "extract() raised: " + obs.get("exc", "")
    if obs.get("formats") is not True:
        return "the returned Stack cannot be formatted/summarised: %r" % (obs.get("formats"),)
    if obs.get("render", True) is not True:
        return "the returned Stack is not renderable by every public renderer: " + str(obs["render"])
    if obs.get("shape", True) is not True:
        return "error shape: " + str(obs["shape"])
    if obs.get("prefix", True) is not True:
        return "outer frames not kept: " + str(obs["prefix"])
    return None


def classify(desc, obs):
    labs = ["faults=%d" % len(desc["faults"]), "with_ctx=%s" % desc["with_ctx"]]
    if obs.get("kind") == "ok":
        labs.append("fired=%d" % min(len(obs.get("fired", [])), 4))
        labs.append("top_errs=%d" % min(len(obs["errs"]), 4))
        if obs.get("fired"):
            labs.append("first_fault_depth=%d" % obs["fired"][0][2])
            labs.append("kept_prefix=%d" % min(obs.get("prefix_len", 0), 5))
    return labs


def extra_legs(tier, seed):
    from . import c05_real
    return c05_real.run(tier, seed)
