"""C07 -- thread stacks: exact when the thread is blocked, memory-safe when it is racing.

Two correspondences, both evaluated inside Coq, plus runtime legs:

* kind "snap"  (M_Snapshot): the real lowlevel.inspect_frame() is called on the frame of a second
  thread (the target) that the controller moves deterministically *while* the call is in progress:
  the guarded checkpoints "snap:lasti", "snap:slot", "snap:retry" (and a line-trace hook standing
  in for the switch point between the header read and the second f_lasti re-check, where no
  checkpoint exists) run a schedule {(attempt, point) -> move}; a move puts the target at another
  park site of a generated function (other f_lasti, other value stack, Python-level park =
  stacktop saved, C-level park = stacktop -1) or lets the frame return.  Observed: result class
  (snapshot / AssertionError / RuntimeError), reported lasti, tokens of details.stack, number of
  retries.  The states the model is given are derived from the generated program (dis + the
  stdlib exception-table parser), not from stackscope.
* kind "life"  (M_ThreadLife): extract(thread) on real threads with start/step/finish/other-thread
  events placed before the call and at the checkpoints "thread:was_alive" / "thread:got_frame".
  Observed: no frames / exactly the thread's own f_back walk recorded at park number n
  (outermost first) / anything else.  Blocked threads additionally: exact contexts against the
  logged truth of the managers the thread entered.
* kind "search" (M_ThreadLife, unwrap_outer): extract(StackSlice(outer=frame)) / extract(running generator) called from a
  thread that is older or NEWER than the thread on whose stack the frame lives, with other threads listed before and after
  the caller in sys._current_frames(); observed: the frames (as positions in each thread's own recorded f_back walk) and
  whether the "can't continue traceback" error was reported; oracle: exactly the target thread's frames from `outer` inward.
* extra legs: extract(thread) under a 10-fold retry schedule (RuntimeError -> warning, no raise,
  only own frames); randomized stress with sys.setswitchinterval(1e-6) in a child process without
  the hooks (exit status = crash oracle).
"""
from __future__ import annotations

import itertools
import json
import os
import random
import subprocess
import sys
import time

from .common import cbool, clist, copt, REPO, ROOT, PY

PROP = "C07"
SHARD = 400
KINDS = {
    "snap": dict(imports="From SS Require Import Base M_Snapshot.",
                 type="scase", mismatch="mismatches", nontrivial="count_nontrivial"),
    "life": dict(imports="From SS Require Import Base M_ThreadLife.", type="lcase",
                 mismatch="lmismatches", nontrivial="lcount_nontrivial"),
    "search": dict(imports="From SS Require Import Base M_ThreadLife.", type="ocase",
                   mismatch="omismatches", nontrivial="ocount_nontrivial"),
}
RULE = ("snap: generated target functions with 4-6 park sites (0-2 enclosing with blocks, 0-3 pending call operands, "
        "Python-level or C-level park; plus running frames whose f_lasti is the first (UNPACK_SEQUENCE of `with .. as (x,)`) "
        "or the last (BEFORE_WITH of an inner `with lock`) code unit of an exception-table range) + frame return; schedules = all placements of 1 move (quick) / 2 moves "
        "(thorough) over the switch points P1, P2, P3 i, P5 of attempts 0-1 x all target moves, then random "
        "schedules with up to 4 moves over attempts 0-3, plus 9- and 10-fold retry schedules; "
        "life: all valid event sequences (start, step, finish, other-start, other-finish) up to length 3 (quick) / 4 "
        "(thorough) x all splits over the three windows of unwrap_thread, plus blocked threads at call depth 1-4(6) "
        "x with-nesting 0-2 per frame; search: 2-4 (thorough 2-6) worker threads created in a fixed order, each parked in a call "
        "chain (one level optionally a running generator), every (target thread, outer level in {outermost, middle, innermost}, "
        "caller in {harness thread (oldest), each worker incl. the target itself}) x {StackSlice(outer=frame), extract(running "
        "generator)} plus a frame that runs nowhere, plus random configurations; the observed order of sys._current_frames() is "
        "given to the model.  distinct = distinct descriptors; non-trivial (snap) = the target moved, a "
        "retry happened or a non-empty stack was read; (life) = an event inside a window or a slice returned")
CONFIG = dict(
    coq=["C07"], level="proof",
    claim=("Coq theorems, for all schedules and target behaviours, about executable models of inspect_frame's "
           "snapshot/retry protocol and of unwrap_thread's alive window; tied to the code by deterministic "
           "schedule replay through the guarded checkpoints compared inside Coq, by regenerated structural facts, "
           "and by a stress leg whose oracle is the exit status. Memory safety of the raw reads themselves is a "
           "runtime observation, not a proof."),
    design_ref="DESIGN.md section 5 C07",
    trusted_base=["models M_Snapshot.v / M_ThreadLife.v are hand-written from _lowlevel_cpython_311.inspect_frame and "
                  "_glue.unwrap_thread",
                  "the target states given to the model are derived from the generated program with dis and "
                  "dis._parse_exception_table (stdlib); code positions are passed as order-preserving ranks",
                  "harness/facts_c07.py (ast): adjacency of the f_lasti re-checks to the header and slot reads, all "
                  "InterpreterFrame reads inside the retry loop, handler re-raises only if f_lasti is unchanged"],
    assumptions=["CPython switches threads only at calls and backward jumps: the pair `assert frame.f_lasti == "
                 "lasti_before; obj = stack_ptr[i]` and the triple `stacktop read; owner read; assert` contain no "
                 "switch point (facts_c07 checks there is no call in them, syntactically and on the 3.12 bytecode)",
                 "the depth of the value stack is a function of f_lasti (compiler invariant); the depth recorded in "
                 "an exception-table entry is <= the real depth at every covered instruction; finishing a frame "
                 "changes f_lasti and a finished frame never runs again",
                 "asserts are enabled (no python -O)", "warnings are not turned into errors"],
    unproved_legs=["real memory safety of the ctypes reads (py_object from_address, INCREF of the pointee) cannot be "
                   "proved: runtime stress leg only (child process exit status under sys.setswitchinterval(1e-6))",
                   "the switch-point discipline of CPython's eval loop is an assumption of M_Snapshot",
                   "switch points P1b and P4 of the model are not driven by the harness (no checkpoint there); the "
                   "theorems cover them, the correspondence keeps them at Stay",
                   "_lowlevel_cpython_310.py (3.8-3.10 block-stack reader, no retry protocol) has only a descriptive model "
                   "(M_Snapshot310, theorem C07_py310_reads_below_limit) that is NOT tied by a Coq correspondence; it is exercised "
                   "by the blocked-thread leg on CPython 3.9/3.10 (exact frames and contexts), racing schedules run on 3.12 only",
                   "slice arithmetic and context recovery of a blocked thread's frames belong to C04 / C02; here they are checked "
                   "end-to-end (own f_back walk + manager truth log)",
                   "CPython 3.12 leaves the JUMP_BACKWARD of a `while` loop outside every exception-table range: a frame preempted "
                   "there inside a with-block is reported with no contexts (observation, running frames only; C02's subject)"],
    timeout={"quick": 900, "thorough": 5400},
    NOTES=("The model's environment is indexed by (attempt, switch point) instead of a global step counter. "
           "While building this property the A-B-A defect F13 was found in the protocol and fixed in /repo (98ca0a6); "
           "the model has the flags chk_hdr / chk_slot / hdr_atomic / blk_from_accepted; the theorems of C07.v are "
           "instantiated on SrcFacts (a removed re-check breaks the proof), the case files are always evaluated at the "
           "proven configuration (retries 10, all flags true), so a harmless refactor that confuses the fact extractor "
           "yields the proof-level no-failing-input-found line only, never a bogus failing input."),
)

RET = "ret"
RETX = "retx"      # the frame returns AND its thread exits (its data-stack memory is unmapped)
T_NULL, T_KEEP, T_LOCK, T_ITER, T_OTHER = 1, 2, 3, 4, 999


# ======================================================================= snap: target programs
def site_source(sites):
    """Source of the target function; returns (source, {site: line of its park instruction}, line of return).
    Site kinds: "py" (parks inside a Python-level call: stacktop saved), "c" (blocks inside a C-level call:
    stacktop -1), and two kinds whose f_lasti sits exactly on a boundary of an exception-table range while the
    frame is executing (stacktop -1):
      "lock"    blocks in the BEFORE_WITH of `with ctl.lock:` (lock.__enter__ is C) -- the LAST code unit of the
                enclosing with-body range;
      "unpack"  blocks in the UNPACK_SEQUENCE of `with UCM(n) as (nxt,):` (__enter__ returns iter(cget, None),
                whose __next__ is C) -- the FIRST code unit of that with's own range."""
    L = ["def target(ctl):", "    nxt = ctl.park(-1)", "    while True:"]
    lines = {}
    for s, st in enumerate(sites):
        L.append(f"        {'if' if s == 0 else 'elif'} nxt == {s}:")
        base = ind = "            "
        for j in range(st["w"]):
            L.append(f"{ind}with CM({s * 3 + j + 1}):")
            ind += "    "
        if st["k"] in ("lock", "unpack"):
            L.append(f"{ind}ctl.note({s})")
            if st["k"] == "lock":
                L.append(f"{ind}with ctl.lock:")
                lines[s] = len(L)
                L.append(f"{ind}    pass")
                L.append(f"{base}nxt = cget()")
            else:
                L.append(f"{ind}with UCM({s * 3 + st['w'] + 1}) as (nxt,):")
                lines[s] = len(L)
                L.append(f"{ind}    pass")
            continue
        call = "ctl.park(%d)" % s if st["k"] == "py" else "cget()"
        if st["k"] == "c":
            L.append(f"{ind}ctl.note({s})")
        if st["a"] == 0:
            L.append(f"{ind}nxt = {call}")
            lines[s] = len(L)
        else:
            L.append(f"{ind}nxt = keep({', '.join(str(i + 1) for i in range(st['a']))},")
            L.append(f"{ind}    {call})[-1]")
            lines[s] = len(L)
    L.append("        else:")
    L.append("            return 0")
    return "\n".join(L) + "\n", lines, len(L)


_PROG_CACHE = {}


def build_program(sites):
    """-> dict(code-level facts derived with dis: per-site lasti/top/slots tokens, table, stacksize, ret_lasti)"""
    key = json.dumps(sites, sort_keys=True)
    if key in _PROG_CACHE:
        return _PROG_CACHE[key]
    import dis
    src, lines, retline = site_source(sites)
    ns = {}
    exec(compile(src, "<c07-target>", "exec"), ns)
    fn = ns["target"]
    co = fn.__code__
    ins = list(dis.get_instructions(co))
    states = []
    full = [(a, b - 2, t, d) for a, b, t, d, _l in dis._parse_exception_table(co)]
    table = [(a, b, d) for a, b, _t, d in full]
    for s, st in enumerate(sites):
        exits = [10 + s * 3 + j + 1 for j in range(st["w"])]
        if st["k"] in ("lock", "unpack"):
            op = "BEFORE_WITH" if st["k"] == "lock" else "UNPACK_SEQUENCE"
            cand = [i.offset for i in ins if i.opname == op and i.positions.lineno == lines[s]]
            lasti = cand[-1] if st["k"] == "lock" else cand[0]
            if st["k"] == "lock":
                slots = exits + [T_LOCK]
                on_boundary = any(e == lasti for _a, e, _d in table)
            else:
                slots = exits + [10 + s * 3 + st["w"] + 1, T_ITER]
                on_boundary = any(a == lasti for a, _e, _d in table)
            if not on_boundary:
                raise RuntimeError("site %d (%s) is not on a boundary of an exception-table range" % (s, st["k"]))
            states.append({"lasti": lasti, "top": None, "slots": slots})
            continue
        calls = [k for k, i in enumerate(ins) if i.opname == "CALL" and i.positions.lineno == lines[s]
                 and i.positions.end_lineno == lines[s]]
        # the park call is the first CALL that starts and ends on its own line
        k = calls[0]
        if st["k"] == "py":
            # a Python-to-Python call leaves prev_instr on the last cache entry of the CALL
            lasti = ins[k + 1].offset - 2
        else:
            lasti = ins[k].offset
        slots = list(exits)
        if st["a"]:
            slots += [T_NULL, T_KEEP] + [100 + i + 1 for i in range(st["a"])]
        states.append({"lasti": lasti, "top": len(slots) if st["k"] == "py" else None, "slots": slots})
    rets = [i.offset for i in ins if i.opname in ("RETURN_CONST", "RETURN_VALUE") and i.positions.lineno == retline]
    srclines = src.split("\n")
    branch = [k + 1 for k, l in enumerate(srclines) if l.strip().startswith(("if nxt ==", "elif nxt =="))]
    prog = dict(src=src, fn=fn, ns=ns, states=states, table=table, full=full, branch=branch, stacksize=co.co_stacksize, ret_lasti=rets[0])
    _PROG_CACHE[key] = prog
    return prog


class Ctl:
    """Controller side of one target thread."""

    def __init__(self):
        import queue
        import threading
        self.cmd = queue.SimpleQueue()
        self.parked = threading.Semaphore(0)
        self.site = None
        self.frame = None
        self.returned = False
        self.thread = None
        self.lock = None

    # --- called on the target thread
    def park(self, k):
        if k == -1:
            self.frame = sys._getframe(1)
        self.site = k
        self.parked.release()
        return self.cmd.get()

    def note(self, k):
        self.site = k
        self.parked.release()


class CM:
    def __init__(self, n):
        self.n = n

    def __enter__(self):
        return self

    def __exit__(self, *a):
        return False


class UCM(CM):
    """__enter__ hands out a C-level iterator whose __next__ blocks in queue.get: unpacking it in
    `with UCM(n) as (nxt,)` parks the frame inside UNPACK_SEQUENCE"""
    cget = None

    def __enter__(self):
        return iter(self.cget, None)


def keep(*a):
    return a


def token(x):
    if x is None:
        return T_NULL
    if x is keep:
        return T_KEEP
    if isinstance(x, int) and not isinstance(x, bool) and 0 <= x < 50:
        return 100 + x
    if type(x).__name__ == "lock":
        return T_LOCK
    if type(x).__name__ == "callable_iterator":
        return T_ITER
    s = getattr(x, "__self__", None)
    if isinstance(s, CM) and getattr(x, "__name__", "") == "__exit__":
        return 10 + s.n
    return T_OTHER


class SnapRun:
    """One target thread parked inside `target`, movable from the inspector thread."""

    def __init__(self, sites):
        import threading
        self.sites = sites
        self.prog = build_program(sites)
        self.ctl = Ctl()
        ns = self.prog["ns"]
        ucm = type("UCM", (UCM,), {"cget": staticmethod(self.ctl.cmd.get)})
        ns["CM"], ns["keep"], ns["cget"], ns["UCM"] = CM, keep, self.ctl.cmd.get, ucm
        self.cur = None
        self.held = None

        def outer(ctl=self.ctl, fn=self.prog["fn"]):
            fn(ctl)
            ctl.returned = True
            ctl.park(1000)

        self.thread = threading.Thread(target=outer, daemon=True)
        self.thread.start()
        self.ctl.parked.acquire()
        self.frame = self.ctl.frame

    def _send(self, cmd):
        """deliver a command to the target wherever it is parked"""
        import threading
        kind = self.sites[self.cur]["k"] if isinstance(self.cur, int) and self.cur >= 0 else "py"
        if isinstance(cmd, int) and 0 <= cmd < len(self.sites) and self.sites[cmd]["k"] == "lock":
            # the lock the target will block on at its next site: a fresh one, held by the controller
            nl = threading.Lock()
            nl.acquire()
            nxt_lock = nl
        else:
            nxt_lock = None
        old = self.held
        if nxt_lock is not None:
            self.ctl.lock = nxt_lock
        self.held = nxt_lock
        self.ctl.cmd.put(cmd)
        if kind == "unpack":
            self.ctl.cmd.put(None)        # sentinel: ends the one-element unpacking
        elif kind == "lock":
            old.release()

    def goto(self, mv):
        if self.ctl.returned:
            return
        if mv in (RET, RETX):
            self._send(len(self.sites) + 7)
            self.ctl.parked.acquire()
            assert self.ctl.returned
            self.cur = RET
            if mv == RETX:
                self.ctl.cmd.put(0)
                self.thread.join(10)
            return
        self._send(mv)
        self.ctl.parked.acquire()
        assert self.ctl.site == mv, (self.ctl.site, mv)
        if self.sites[mv]["k"] != "py":
            # `note` has announced the site; wait until the frame really sits in the blocking C code
            want = self.prog["states"][mv]["lasti"]
            t0 = time.time()
            while self.frame.f_lasti != want:
                time.sleep(0.0002)
                if time.time() - t0 > 10:
                    raise RuntimeError("target did not reach its C-level park")
        self.cur = mv

    def close(self):
        if not self.ctl.returned:
            self.goto(RET)
        self.ctl.cmd.put(0)
        self.thread.join(10)


def _stack_len_line():
    """line of the `stack_len = ...` statement of inspect_frame (stands for switch point P2)"""
    import ast
    import inspect
    import stackscope._lowlevel_cpython_311 as L
    from . import facts_c07 as F
    src, first = inspect.getsourcelines(L.inspect_frame)
    tree = ast.parse("".join(src))
    try:
        name = F._derive_names(tree.body[0])["len"]
    except Exception:
        return None
    for n in ast.walk(tree):
        if isinstance(n, ast.Assign) and len(n.targets) == 1 and isinstance(n.targets[0], ast.Name) \
                and n.targets[0].id == name:
            return first + n.lineno - 1
    return None


def _p1b_lines():
    """Lines of inspect_frame at which a line-trace event comes right after a CALL that sits between the
    capture of the InterpreterFrame pointer and the first f_lasti re-check (switch point P1b).  Empty if
    there is no such call (the code as fixed for finding F15): the point then cannot be driven, in
    agreement with the model (hdr_atomic)."""
    import ast
    import inspect
    import stackscope._lowlevel_cpython_311 as L
    from . import facts_c07 as F
    src, first = inspect.getsourcelines(L.inspect_frame)
    fn = ast.parse("".join(src)).body[0]
    loop = F._retry_loop(fn)
    if loop is None:
        return []
    tries = [s for s in loop.body if isinstance(s, ast.Try)]
    if len(tries) != 1:
        return []
    body = tries[0].body
    try:
        F.NAMES.update(F._derive_names(fn))
    except Exception:
        return []
    caps = [k for k, st in enumerate(body) if isinstance(st, ast.Assign) and isinstance(st.targets[0], ast.Name)
            and st.targets[0].id == F.NAMES["iframe"]]
    if not caps:
        return []
    out = []
    for k in range(caps[0], len(body) - 1):
        if F._is_lasti_assert(body[k]):
            break
        if k > caps[0] - 1 and F._has_call(body[k]) and k >= caps[0]:
            out.append(first + body[k + 1].lineno - 1)
    return out


def run_schedule(run: SnapRun, sched, call):
    """Install the checkpoint hook + line tracer, run call(frame), return (result|exception, log)."""
    from stackscope import _verif
    import stackscope._lowlevel_cpython_311 as L
    moves = {}
    for a, p, i, mv in sched:
        moves[(a, p, i)] = mv
    st = {"attempt": -1, "retries": 0, "ok_lasti": None, "p2_done": set(), "site_at_ok": None}
    frame = run.frame

    def hook(tag, info):
        if info.get("frame") is not frame:
            return
        if tag == "snap:lasti":
            st["attempt"] += 1
            key = (st["attempt"], "P1", 0)
        elif tag == "snap:slot":
            key = (st["attempt"], "P3", info["index"])
        elif tag == "snap:retry":
            st["retries"] += 1
            key = (st["attempt"], "P5", 0)
        elif tag == "snap:ok":
            st["ok_lasti"] = info["lasti"]
            st["site_at_ok"] = run.cur
            key = (st["attempt"], "P6", 0)
        else:
            return
        mv = moves.get(key)
        if mv is not None:
            run.goto(mv)

    p2line = _stack_len_line()
    p1b_lines = _p1b_lines()
    st["p1b_done"] = set()
    code = L.inspect_frame.__code__

    def tracer(fr, event, arg):
        if fr.f_code is not code or fr.f_locals.get(code.co_varnames[0]) is not frame:
            return None

        def local(fr, event, arg):
            if event == "line" and fr.f_lineno == p2line and st["attempt"] not in st["p2_done"]:
                st["p2_done"].add(st["attempt"])
                mv = moves.get((st["attempt"], "P2", 0))
                if mv is not None:
                    run.goto(mv)
            if event == "line" and fr.f_lineno in p1b_lines and st["attempt"] not in st["p1b_done"]:
                st["p1b_done"].add(st["attempt"])
                mv = moves.get((st["attempt"], "P1b", 0))
                if mv is not None:
                    run.goto(mv)
            return local
        return local

    need_trace = any(p in ("P2", "P1b") for _a, p, _i, _m in sched) and p2line is not None
    st["p2_drivable"] = p2line is not None
    _verif.hook = hook
    if need_trace:
        sys.settrace(tracer)
    try:
        try:
            res = call(frame)
            exc = None
        except BaseException as ex:  # noqa
            res, exc = None, ex
    finally:
        if need_trace:
            sys.settrace(None)
        _verif.hook = None
    return res, exc, st


def run_snap(desc):
    from stackscope._lowlevel import inspect_frame
    run = SnapRun(desc["sites"])
    try:
        run.goto(desc["init"])
        res, exc, st = run_schedule(run, desc["sched"], inspect_frame)
        if exc is None:
            toks = [token(x) for x in res.stack]
            # slots beyond the valid depth of the state in which the snapshot was accepted are stale
            site = st["site_at_ok"]
            valid = 0 if site == RET else len(run.prog["states"][site]["slots"])
            toks = [t if i < valid else 0 for i, t in enumerate(toks)]
            obs = {"cls": 0, "lasti": st["ok_lasti"], "stack": toks, "retries": st["retries"],
                   "site_at_ok": site, "blocks": [[b.handler, b.level] for b in res.blocks]}
            del res
        elif isinstance(exc, AssertionError):
            obs = {"cls": 1, "lasti": 0, "stack": [], "retries": st["retries"]}
        elif isinstance(exc, RuntimeError):
            obs = {"cls": 2, "lasti": 0, "stack": [], "retries": st["retries"]}
        else:
            obs = {"cls": 3, "lasti": 0, "stack": [], "retries": st["retries"], "exc": repr(exc)}
        if not st["p2_drivable"]:
            obs["nop2"] = True
    finally:
        run.close()
    return obs


def _encoder(prog):
    """Code positions are handed to the model as ranks (2*rank+1) in the sorted set of all positions that occur in
    the exception table, the park sites and the return; a position outside that set gets the even number between
    its neighbours.  Strictly order-preserving, and the model only compares positions (<=, =), so nothing is lost;
    it keeps the unary nat literals of the cases files small."""
    import bisect
    pos = sorted({x for a, b, t, _d in prog["full"] for x in (a, b, t)} | {st["lasti"] for st in prog["states"]}
                 | {prog["ret_lasti"]})
    index = {x: 2 * k + 1 for k, x in enumerate(pos)}

    def enc(x):
        return index[x] if x in index else 2 * bisect.bisect_left(pos, x)
    return enc


def c_state(s, enc):
    return "(mkT %d %s %s)" % (enc(s["lasti"]), copt(None if s["top"] is None else str(s["top"])),
                               clist(str(t) for t in s["slots"]))


def coq_snap(desc, obs):
    prog = build_program(desc["sites"])
    enc = _encoder(prog)
    # the PROVEN configuration (retry bound 10, every structural flag true): the values the theorems of C07.v are
    # stated for.  SrcFacts enters only through the proof obligations, never through the model the cases run on.
    cfg = "(mkC %s %d 10 %d true true true %s true)" % (
        clist("(%d, %d, %d)" % (enc(a), enc(b), d) for a, b, d in prog["table"]), prog["stacksize"], enc(prog["ret_lasti"]),
        clist(str(enc(t)) for _a, _b, t, _d in prog["full"]))
    if desc["init"] == RET:
        w = "(mkW (mkT %d (Some 0) []) InFrameObj)" % enc(prog["ret_lasti"])
    else:
        w = "(mkW %s OnThread)" % c_state(prog["states"][desc["init"]], enc)
    ms = []
    for a, p, i, mv in desc["sched"]:
        if p == "P2" and obs.get("nop2"):
            continue      # the statement that stands for P2 was not recognised: the move could not be delivered
        pt = {"P1": "P1", "P1b": "P1b", "P2": "P2", "P5": "P5", "P6": "P6"}.get(p) or "(P3 %d)" % i
        m = "Ret" if mv in (RET, RETX) else "(Goto %s)" % c_state(prog["states"][mv], enc)
        ms.append("(%d, %s, %s)" % (a, pt, m))
    o = "(mkO %d %d %s %d %s)" % (obs["cls"], enc(obs["lasti"]) if obs["cls"] == 0 and obs["lasti"] is not None else 0,
                                  clist(str(t) for t in obs["stack"]), obs["retries"],
                                  clist("(%d, %d)" % (enc(h), l) for h, l in obs.get("blocks", [])))
    return "(%s, %s, %s, %s)" % (cfg, w, clist(ms), o)


def expected_blocks(prog, pos):
    """(handler, level) of the handlers active at code position pos, outermost first, from the stdlib-parsed
    exception table: the entry covering pos, then the entry covering its handler, and so on."""
    out, seen = [], set()
    while pos not in seen:
        seen.add(pos)
        cover = [(a, b, t, d) for a, b, t, d in prog["full"] if a <= pos <= b]
        if not cover:
            break
        _a, _b, t, d = cover[0]
        out.append([t, d])
        pos = t
    return out[::-1]


def oracle_snap(desc, obs):
    """Property oracle on the implementation alone: an accepted snapshot must be the valid stack of
    the state the target was in when it was accepted (full stack for a Python-level park, the
    handler-depth prefix for a C-level park, nothing for a finished frame), with that state's lasti."""
    if obs["cls"] == 3:
        return "inspect_frame raised an unexpected exception: " + obs.get("exc", "")
    if obs["cls"] == 1:
        return "inspect_frame raised AssertionError although every target state is well-formed"
    if obs["cls"] != 0:
        return None
    prog = build_program(desc["sites"])
    site = obs["site_at_ok"]
    if site == RET:
        want_lasti, full = prog["ret_lasti"], []
    else:
        want_lasti, full = prog["states"][site]["lasti"], prog["states"][site]["slots"]
    if obs["lasti"] != want_lasti:
        return "snapshot accepted for lasti %r while the frame was at %r" % (obs["lasti"], want_lasti)
    if obs.get("blocks") != expected_blocks(prog, want_lasti):
        return ("FrameDetails.blocks %r are not the handlers active at the accepted position %r (expected %r): stack and "
                "blocks belong to different positions" % (obs.get("blocks"), want_lasti, expected_blocks(prog, want_lasti)))
    if 0 in obs["stack"] or len(obs["stack"]) > len(full):
        return "snapshot contains slots beyond the valid depth of its instruction position"
    if obs["stack"] != full[:len(obs["stack"])]:
        return "snapshot differs from the program-derived stack of that position"
    if site != RET and desc["sites"][site]["k"] == "py" and len(obs["stack"]) != len(full):
        return "snapshot of a frame suspended in a call is shorter than its saved stack"
    if site != RET and desc["sites"][site]["k"] != "py":
        st = desc["sites"][site]
        want = st["w"] + (1 if st["k"] == "unpack" else 0)      # the managers entered so far
        if len(obs["stack"]) != want:
            return ("snapshot of an executing frame inside %d with-block(s) has %d slot(s): not trimmed at the depth of "
                    "the enclosing handler" % (want, len(obs["stack"])))
    return None


# ----------------------------------------------------------------------- snap: schedules
BOUNDARY_PROGRAM = [{"w": 1, "a": 0, "k": "lock"}, {"w": 0, "a": 0, "k": "unpack"}, {"w": 2, "a": 0, "k": "lock"},
                    {"w": 1, "a": 0, "k": "unpack"}, {"w": 1, "a": 2, "k": "py"}, {"w": 2, "a": 0, "k": "unpack"}]
PROGRAMS = [
    [{"w": 0, "a": 0, "k": "py"}, {"w": 0, "a": 3, "k": "py"}, {"w": 1, "a": 1, "k": "py"},
     {"w": 2, "a": 0, "k": "c"}, {"w": 1, "a": 2, "k": "c"}],
    [{"w": 1, "a": 0, "k": "py"}, {"w": 2, "a": 2, "k": "py"}, {"w": 0, "a": 2, "k": "c"},
     {"w": 2, "a": 1, "k": "py"}],
]


def points_for(sites, attempts):
    maxd = max(s["w"] + (2 + s["a"] if s["a"] else 0) for s in sites)
    pts = []
    for a in attempts:
        pts += [(a, "P1", 0), (a, "P2", 0)] + [(a, "P3", i) for i in range(maxd)] + [(a, "P5", 0), (a, "P6", 0)]
    return pts


def snap_inputs(tier, rng):
    def mk(sites, init, sched):
        return {"_kind": "snap", "sites": sites, "init": init, "sched": [list(x) for x in sched]}
    for sites in PROGRAMS + [BOUNDARY_PROGRAM]:
        moves = list(range(len(sites))) + [RET]
        inits = list(range(len(sites))) + [RET]
        # quiet target (blocked at every site)
        for i in inits:
            yield mk(sites, i, [])
        # finding F15 (fixed): the frame returns and its thread exits right after the pointer capture
        for i in range(len(sites)):
            yield mk(sites, i, [(0, "P1b", 0, RETX)])
            yield mk(sites, i, [(0, "P1", 0, (i + 1) % len(sites)), (1, "P1b", 0, RETX)])
            yield mk(sites, i, [(0, "P3", 0, RETX)])
        # the A-B-A schedule of finding F13 (fixed): away at P1, back at P2
        for i in range(len(sites)):
            for j in range(len(sites)):
                if i != j:
                    yield mk(sites, i, [(0, "P1", 0, j), (0, "P2", 0, i)])
                    if tier == "quick" and sites is BOUNDARY_PROGRAM:
                        continue
                    yield mk(sites, i, [(0, "P1", 0, j), (0, "P5", 0, j), (1, "P1", 0, i), (1, "P2", 0, j)])
        # every single move at every switch point of attempts 0 and 1
        pts = points_for(sites, (0, 1))
        light = tier == "quick" and sites is BOUNDARY_PROGRAM
        for i in inits[:-1]:
            for (a, p, x) in (points_for(sites, (0,)) if light else pts):
                for m in moves:
                    if a == 0:
                        yield mk(sites, i, [(a, p, x, m)])
                    else:
                        # make attempt 1 exist: reject attempt 0 first
                        other = (i + 1) % len(sites)
                        yield mk(sites, i, [(0, "P1", 0, other), (a, p, x, m)])
        # retry exhaustion: 10 rejected attempts, 9 rejected + success, rejected by slot re-checks
        n = len(sites)
        yield mk(sites, 0, [(a, "P1", 0, (a + 1) % n) for a in range(10)])
        yield mk(sites, 0, [(a, "P1", 0, (a + 1) % n) for a in range(9)])
        yield mk(sites, 0, [(a, "P1", 0, (a + 1) % n) for a in range(12)])
        yield mk(sites, 1, [(a, "P3", a % 3, 2 if a % 2 == 0 else 1) for a in range(10)])
        yield mk(sites, 1, [(a, "P2", 0, 2 if a % 2 == 0 else 1) for a in range(10)])
        yield mk(sites, 1, [(a, "P5", 0, 1) for a in range(3)] + [(a, "P3", 1, 2 if a % 2 == 0 else 1) for a in range(8)])
        # pairs of moves
        pts0 = points_for(sites, (0,))
        pairs = [(p, q) for p in pts for q in pts if p < q]
        if tier == "quick":
            pairs = rng.sample(pairs, 60 if sites is not BOUNDARY_PROGRAM else 25)
        for (p, q) in pairs:
            combos = [(m1, m2) for m1 in moves for m2 in moves]
            if tier == "quick":
                combos = rng.sample(combos, 3)
            for m1, m2 in combos:
                i = rng.randrange(len(sites))
                yield mk(sites, i, [p + (m1,), q + (m2,)])
    # random programs and longer random schedules
    nprog = 6 if tier == "quick" else 40
    nsch = 40 if tier == "quick" else 150
    for _ in range(nprog):
        sites = [{"w": rng.randrange(0, 3), "a": rng.randrange(0, 4), "k": rng.choice(["py", "py", "py", "c", "c", "lock", "unpack"])}
                 for _ in range(rng.randrange(3, 7))]
        for st in sites:
            if st["k"] in ("lock", "unpack"):
                st["a"] = 0
                if st["k"] == "lock":
                    st["w"] = max(1, st["w"])
        moves = list(range(len(sites))) + [RET]
        pts = points_for(sites, (0, 1, 2, 3))
        for i in list(range(len(sites))) + [RET]:
            yield mk(sites, i, [])
        for _ in range(nsch):
            k = rng.randrange(1, 5)
            chosen = sorted(rng.sample(pts, k))
            sched = [pt + (rng.choice(moves if rng.random() < 0.9 else [RET]),) for pt in chosen]
            yield mk(sites, rng.randrange(len(sites)), sched)


# ======================================================================= life
class LifeRun:
    """A thread T whose body is a chain of `depth` nested calls, each inside withs[k] with-blocks,
    parking before and after the deeper call; every park records T's own f_back walk and the
    managers it has entered (truth)."""

    def __init__(self, depth, withs):
        import queue
        import threading
        self.depth, self.withs = depth, withs
        self.cmd = queue.SimpleQueue()
        self.parked = threading.Semaphore(0)
        self.walks = []      # per park serial: list of frames, innermost first
        self.truth = []      # per park serial: {id(frame): [manager, ...] outermost first}
        self.active = {}     # id(frame) -> managers (maintained by T)
        self.frames_alive = []
        self.thread = threading.Thread(target=self.body, daemon=True)
        self.state = "new"
        self.other = None
        self.other_cmd = queue.SimpleQueue()
        self.other_parked = threading.Semaphore(0)
        self.reused = False

    class Quit(Exception):
        pass

    def park(self):
        f = sys._getframe()
        walk = []
        while f is not None:
            walk.append(f)
            f = f.f_back
        self.walks.append(walk)
        self.truth.append({k: list(v) for k, v in self.active.items()})
        self.parked.release()
        if self.cmd.get() == "finish":
            raise LifeRun.Quit()

    def level(self, k):
        me = sys._getframe()
        self.frames_alive.append(me)
        mine = self.active.setdefault(id(me), [])
        w = self.withs[k] if k < len(self.withs) else 0
        if w == 0:
            self.level_body(k)
        elif w == 1:
            with LCM(self, mine, k * 10 + 1):
                self.level_body(k)
        else:
            with LCM(self, mine, k * 10 + 1) as a, LCM(self, mine, k * 10 + 2) as b:
                self.level_body(k)

    def level_body(self, k):
        # runs in its own frame (no managers of its own)
        self.park()
        if k + 1 < self.depth:
            self.level(k + 1)
            self.park()

    def body(self):
        try:
            self.level(0)
            while True:
                self.park()
        except LifeRun.Quit:
            pass

    # --- controller side
    def do(self, ev):
        import threading
        if ev == "start":
            self.thread.start()
            self.parked.acquire()
            self.state = "alive"
        elif ev == "step":
            self.cmd.put("go")
            self.parked.acquire()
        elif ev == "finish":
            self.cmd.put("finish")
            self.thread.join(10)
            self.state = "finished"
        elif ev == "ostart":
            def obody():
                self.other_parked.release()
                self.other_cmd.get()
            self.other = threading.Thread(target=obody, daemon=True)
            self.other.start()
            self.other_parked.acquire()
            self.reused = self.thread.ident is not None and self.other.ident == self.thread.ident
        elif ev == "ofinish":
            self.other_cmd.put(1)
            self.other.join(10)

    def close(self):
        if self.state == "alive":
            self.do("finish")
        if self.other is not None and self.other.is_alive():
            self.do("ofinish")


class LCM:
    def __init__(self, run, lst, n):
        self.run, self.lst, self.n = run, lst, n

    def __enter__(self):
        self.lst.append(self)
        return self

    def __exit__(self, *a):
        self.lst.remove(self)
        return False


def run_life(desc):
    import warnings
    import stackscope
    from stackscope import _verif
    run = LifeRun(desc["depth"], desc["withs"])
    reuse_at = []
    try:
        def play(evs):
            for e in evs:
                run.do(e)
                if e == "ostart":
                    reuse_at.append(run.reused)
        play(desc["pre"])

        def hook(tag, info):
            if info.get("thread") is not run.thread:
                return
            if tag == "thread:was_alive":
                play(desc["e2"])
            elif tag == "thread:got_frame":
                play(desc["e3"])

        _verif.hook = hook
        with warnings.catch_warnings(record=True) as wlist:
            warnings.simplefilter("always")
            try:
                st = stackscope.extract(run.thread, with_contexts=True)
                exc = None
            except BaseException as ex:  # noqa
                st, exc = None, ex
            finally:
                _verif.hook = None
        if exc is not None:
            return {"res": "raised", "exc": repr(exc), "reused": any(reuse_at)}
        frames = [f.pyframe for f in st.frames]
        obs = {"reused": any(reuse_at), "nframes": len(frames), "warnings": len(wlist),
               "errors": 0 if st.error is None else 1}
        if not frames:
            obs["res"] = "empty"
            return obs
        serial = None
        for n, walk in enumerate(run.walks):
            if len(walk) == len(frames) and all(a is b for a, b in zip(reversed(walk), frames)):
                serial = n
        if serial is None:
            obs["res"] = "foreign"
            return obs
        obs["res"] = "slice"
        obs["serial"] = serial
        # exact contexts (only meaningful if T did not move after the frame was read)
        if "step" not in desc["e3"] and "finish" not in desc["e3"]:
            truth = run.truth[serial]
            bad = []
            for fr in st.frames:
                got = [c.obj for c in fr.contexts]
                want = truth.get(id(fr.pyframe), [])
                if fr.pyframe.f_code in (LifeRun.level.__code__, LifeRun.level_body.__code__, LifeRun.park.__code__,
                                         LifeRun.body.__code__):
                    if len(got) != len(want) or any(a is not b for a, b in zip(got, want)):
                        bad.append((fr.pyframe.f_code.co_name, [getattr(g, "n", repr(g)) for g in got],
                                    [w.n for w in want]))
            obs["ctx_bad"] = bad
            obs["nctx"] = sum(len(v) for v in truth.values())
        return obs
    finally:
        run.close()


def life_events(desc, obs):
    """Events as the model sees them: T has ident 7; the other thread gets 7 if the operating
    system really reused T's ident, else 8; T's park number is its frame serial."""
    out = []
    serial = -1
    for part in ("pre", "e2", "e3"):
        evs = []
        for e in desc[part]:
            if e == "start":
                serial = 0
                evs.append("EStart 7")
            elif e == "step":
                serial += 1
                evs.append("EStep %d" % serial)
            elif e == "finish":
                evs.append("EFinish")
            elif e == "ostart":
                evs.append("OStart 1 %d 0" % (7 if obs.get("reused") else 8))
            elif e == "ofinish":
                evs.append("OFinish %d" % (7 if obs.get("reused") else 8))
        out.append(clist(evs))
    return out


def coq_life(desc, obs):
    e1, e2, e3 = life_events(desc, obs)
    if obs["res"] == "empty":
        r = "REmpty"
    elif obs["res"] == "slice":
        r = "(RSlice (0, %d))" % obs["serial"]
    else:
        r = "(RSlice (9, 9))"
    return "(mkL NotStarted 0 [], %s, %s, %s, %s)" % (e1, e2, e3, r)


def oracle_life(desc, obs):
    if obs["res"] == "raised":
        return "extract(thread) raised: " + obs["exc"]
    if obs["res"] == "foreign":
        return "extract(thread) reported frames that are not the thread's own f_back walk at any park"
    if obs.get("ctx_bad"):
        return "contexts of a blocked thread's frames differ from the logged truth: %r" % (obs["ctx_bad"],)
    blocked = desc["pre"] and desc["pre"][0] == "start" and "finish" not in desc["pre"] and not desc["e2"] and not desc["e3"]
    if blocked:
        want = sum(1 for e in desc["pre"] if e == "step")
        if obs["res"] != "slice" or obs["serial"] != want:
            return "blocked thread: expected exactly its own frames at park %d, got %r" % (want, obs)
    never = "start" not in desc["pre"] + desc["e2"] + desc["e3"]
    done = "finish" in desc["pre"]
    if (never or done) and obs["res"] != "empty":
        return "thread not started / finished but frames were reported"
    return None


def valid_seqs(maxlen, max_steps):
    """event sequences the operating system can produce"""
    out = []

    def rec(seq, t, steps, o):
        out.append(list(seq))
        if len(seq) == maxlen:
            return
        if t == "new":
            rec(seq + ["start"], "alive", steps, o)
        if t == "alive":
            if steps < max_steps:
                rec(seq + ["step"], t, steps + 1, o)
            rec(seq + ["finish"], "done", steps, o)
        if o == "new":
            rec(seq + ["ostart"], t, steps, "alive")
        if o == "alive":
            rec(seq + ["ofinish"], t, steps, "done")
    rec([], "new", 0, "new")
    return out


def life_inputs(tier, rng):
    def mk(depth, withs, pre, e2, e3):
        return {"_kind": "life", "depth": depth, "withs": withs, "pre": pre, "e2": e2, "e3": e3}
    # blocked threads: every park of call chains of depth d with all with-nestings
    maxd = 4 if tier == "quick" else 6
    for d in range(1, maxd + 1):
        nestings = list(itertools.product(range(3), repeat=d))
        if len(nestings) > (12 if tier == "quick" else 60):
            nestings = rng.sample(nestings, 12 if tier == "quick" else 60)
        for ws in nestings:
            for steps in range(0, 2 * d):
                if tier == "quick" and d >= 3 and rng.random() < 0.5:
                    continue
                yield mk(d, list(ws), ["start"] + ["step"] * steps, [], [])
    # life-cycle schedules
    maxlen = 3 if tier == "quick" else 4
    for seq in valid_seqs(maxlen, 3):
        n = len(seq)
        for i in range(n + 1):
            for j in range(i, n + 1):
                yield mk(2, [1, 2], seq[:i], seq[i:j], seq[j:])
    extra = 150 if tier == "quick" else 1500
    long_seqs = valid_seqs(6, 3)
    for _ in range(extra):
        seq = rng.choice(long_seqs)
        n = len(seq)
        i = rng.randrange(n + 1)
        j = rng.randrange(i, n + 1)
        d = rng.randrange(1, 4)
        yield mk(d, [rng.randrange(3) for _ in range(d)], seq[:i], seq[i:j], seq[j:])


# ======================================================================= search (other threads' stacks)
class SearchRun:
    """n worker threads created in order 0..n-1 (the harness thread is older than all of them); each runs a chain
    of nested calls -- one level optionally a running generator -- records its own f_back walk and parks in a
    C-level queue.get.  One of them (or the harness thread) is then asked to extract a StackSlice / generator
    whose outer frame lives on another thread's stack."""

    def __init__(self, depths, gen_level):
        import queue
        import threading
        self.n = len(depths)
        self.depths = depths
        self.gen_level = gen_level          # {thread: level that is a generator}
        self.cmd = [queue.SimpleQueue() for _ in depths]
        self.done = queue.SimpleQueue()
        self.walk = [None] * self.n         # frames, innermost first, as recorded by the thread itself
        self.level_frame = [dict() for _ in depths]
        self.gens = [dict() for _ in depths]
        self.result = None
        self.threads = []
        for t in range(self.n):
            th = threading.Thread(target=self.call, args=(t, 0), daemon=True)
            self.threads.append(th)
            th.start()
            self.done.get()                 # parked before the next one is created: creation order is fixed

    def call(self, t, k):
        if self.gen_level.get(t) == k:
            g = self.glevel(t, k)
            self.gens[t][k] = g
            next(g)
        else:
            self.level(t, k)

    def level(self, t, k):
        self.level_frame[t][k] = sys._getframe()
        if k + 1 < self.depths[t]:
            self.call(t, k + 1)
        else:
            self.park(t)

    def glevel(self, t, k):
        self.level_frame[t][k] = sys._getframe()
        if k + 1 < self.depths[t]:
            self.call(t, k + 1)
        else:
            self.park(t)
        yield 1

    def park(self, t):
        f = sys._getframe()
        w = []
        while f is not None:
            w.append(f)
            f = f.f_back
        self.walk[t] = w
        self.done.put(t)
        while True:
            job = self.cmd[t].get()
            if job is None:
                return
            self.result = self.extract_here(job)
            self.done.put(t)

    def extract_here(self, job):
        import threading
        import stackscope
        order = list(sys._current_frames())
        self.extra_frame = sys._getframe()
        try:
            st = stackscope.extract(job, with_contexts=False)
            return {"order": order, "me": threading.get_ident(), "stack": st}
        except BaseException as ex:  # noqa
            return {"order": order, "me": threading.get_ident(), "raised": repr(ex)}

    def close(self):
        for t in range(self.n):
            self.cmd[t].put(None)
        for th in self.threads:
            th.join(10)


def run_search(desc):
    import threading
    import stackscope
    run = SearchRun(desc["depths"], {int(k): v for k, v in desc["gens"].items()})
    try:
        t, od = desc["target"], desc["outer"]
        if t is None:
            # a frame that is on no stack at all: the frame of a call that has returned
            def gone():
                return sys._getframe()
            outer = gone()
            job = stackscope.StackSlice(outer=outer)
        elif desc["via"] == "gen":
            g = run.gens[t][od]
            outer = g.gi_frame
            job = g
        else:
            outer = run.level_frame[t][od]
            job = stackscope.StackSlice(outer=outer)
        c = desc["caller"]
        if c is None:
            main_walk = []
            res = run.extract_here(job)
            f = sys._getframe()
            while f is not None:
                main_walk.append(f)
                f = f.f_back
        else:
            run.cmd[c].put(job)
            run.done.get()
            res = run.result
            main_walk = None
        if "raised" in res:
            return {"res": "raised", "exc": res["raised"]}
        # frame ids: thread k (harness thread = n), position from the outermost frame
        B = 20
        ids = {}
        stacks = {}
        if c is not None:
            run.walk[c] = [run.extra_frame] + run.walk[c]     # the caller extracts from one frame further in
        for k in range(run.n):
            w = run.walk[k]
            assert len(w) < B
            for j, fr in enumerate(reversed(w)):
                ids[id(fr)] = (k + 1) * B + j
            stacks[run.threads[k].ident] = [(k + 1) * B + j for j in range(len(w) - 1, -1, -1)]
        main_ident = threading.main_thread().ident if threading.current_thread() is threading.main_thread() else threading.get_ident()
        hid = (run.n + 1) * B
        stacks[threading.get_ident()] = [hid]
        if main_walk is not None:
            for j, fr in enumerate(reversed(main_walk)):
                ids.setdefault(id(fr), hid + 1 + j)
        ids.setdefault(id(outer), 199)
        st = res["stack"]
        frames = [ids.get(id(f.pyframe), 198) for f in st.frames]
        order = []
        for ident in res["order"]:
            order.append([("H" if ident == threading.get_ident() else run.threads.index(next(th for th in run.threads if th.ident == ident)))
                          if (ident == threading.get_ident() or any(th.ident == ident for th in run.threads)) else "?",
                          stacks.get(ident, [197])])
        me = "H" if c is None else c
        if c is None:
            own = [hid]     # the harness thread's own stack never holds the outer frame
        else:
            own = stacks[run.threads[c].ident]
        want = None
        if t is not None:
            w = run.walk[t]
            pos = next(j for j, fr in enumerate(reversed(w)) if fr is outer)
            want = [(t + 1) * B + j for j in range(pos, len(w))]
        return {"res": "ok", "frames": frames, "error": st.error is not None, "order": order, "me": me, "own": own,
                "outer": ids[id(outer)], "want": want,
                "errtext": None if st.error is None else repr(st.error)[:120]}
    finally:
        run.close()


def coq_search(desc, obs):
    if obs["res"] != "ok":
        return None
    n = len(desc["depths"])
    tid = lambda x: n + 1 if x == "H" else (n + 2 if x == "?" else x + 1)
    ths = clist("(%d, %s)" % (tid(k), clist(str(f) for f in st)) for k, st in obs["order"])
    return "(%d, %d, %s, %s, (%s, %s))" % (tid(obs["me"]), obs["outer"], clist(str(f) for f in obs["own"]), ths,
                                           clist(str(f) for f in obs["frames"]), cbool(obs["error"]))


def oracle_search(desc, obs):
    if obs["res"] == "raised":
        return "extract() raised: " + obs["exc"]
    if desc["target"] is None:
        if not obs["error"] or obs["frames"] != [obs["outer"]]:
            return "a frame that is running nowhere must yield that frame plus the 'can't continue traceback' error"
        return None
    if obs["error"]:
        return ("the outer frame is running on thread %r but extract() reported %s (caller %r, order of "
                "sys._current_frames(): %r)" % (desc["target"], obs["errtext"], obs["me"], [k for k, _ in obs["order"]]))
    if obs["frames"] != obs["want"]:
        return "frames are not exactly the target thread's frames from `outer` inward: %r, expected %r" % (obs["frames"], obs["want"])
    return None


def search_inputs(tier, rng):
    def mk(depths, gens, target, outer, caller, via):
        return {"_kind": "search", "depths": depths, "gens": {str(k): v for k, v in gens.items()}, "target": target,
                "outer": outer, "caller": caller, "via": via}
    ns = (2, 3, 4) if tier == "quick" else (2, 3, 4, 5, 6)
    for n in ns:
        depths = [2 + (k * 2 + n) % 3 for k in range(n)]
        for t in range(n):
            for c in [None] + list(range(n)):
                for od in sorted({0, depths[t] - 1, depths[t] // 2}):
                    yield mk(depths, {}, t, od, c, "slice")
                    yield mk(depths, {t: od}, t, od, c, "gen")
        for c in [None] + list(range(n)):
            yield mk(depths, {}, None, 0, c, "slice")
    for _ in range(40 if tier == "quick" else 600):
        n = rng.randrange(2, 7)
        depths = [rng.randrange(1, 5) for _ in range(n)]
        t = rng.randrange(n)
        od = rng.randrange(depths[t])
        via = rng.choice(["slice", "gen"])
        gens = {k: rng.randrange(depths[k]) for k in range(n) if rng.random() < 0.3}
        if via == "gen":
            gens[t] = od
        yield mk(depths, gens, t, od, rng.choice([None] + list(range(n))), via)


# ======================================================================= module API
def make_inputs(tier, seed):
    rng = random.Random(seed * 7919 + 7)
    yield from life_inputs(tier, rng)
    yield from search_inputs(tier, rng)
    yield from snap_inputs(tier, rng)


def run_case(desc):
    if desc["_kind"] == "search":
        return run_search(desc)
    return run_snap(desc) if desc["_kind"] == "snap" else run_life(desc)


def coq_case(desc, obs):
    if desc["_kind"] == "snap":
        return coq_snap(desc, obs)
    if desc["_kind"] == "search":
        return coq_search(desc, obs)
    if obs["res"] == "raised":
        return None
    return coq_life(desc, obs)


def direct_oracle(desc, obs):
    if desc["_kind"] == "search":
        return oracle_search(desc, obs)
    return oracle_snap(desc, obs) if desc["_kind"] == "snap" else oracle_life(desc, obs)


def classify(desc, obs):
    if desc["_kind"] == "search":
        if obs["res"] != "ok":
            return ["search:raised"]
        pos = [k for k, _ in obs["order"]]
        rel = "caller=harness(oldest)" if obs["me"] == "H" else (
            "target=caller" if desc["target"] == obs["me"] else
            ("nowhere" if desc["target"] is None else
             ("target listed AFTER caller" if pos.index(desc["target"]) > pos.index(obs["me"]) else "target listed before caller")))
        return ["search:" + rel, "search:via=" + desc["via"], "search:error" if obs["error"] else "search:found"]
    if desc["_kind"] == "snap":
        cls = {0: "ok", 1: "assert", 2: "runtime", 3: "other"}[obs["cls"]]
        return ["snap:%s" % cls, "snap:retries=%d" % min(obs["retries"], 10), "snap:moves=%d" % min(len(desc["sched"]), 5),
                "snap:len=%d" % len(obs["stack"])]
    labs = ["life:" + obs["res"], "life:window-events=%d" % (len(desc["e2"]) + len(desc["e3"]))]
    if obs.get("reused"):
        labs.append("life:ident-reused")
    if not desc["e2"] and not desc["e3"] and obs["res"] == "slice":
        labs.append("life:blocked depth=%d ctx=%d" % (desc["depth"], obs.get("nctx", 0)))
    return labs


# ======================================================================= extra legs
def leg_extract_racing():
    """extract(thread) while the schedule rejects all 10 attempts on the target's frame: must not
    raise, must warn (RuntimeError -> InspectionWarning), and every frame must be the thread's."""
    import contextlib
    import io
    import warnings
    import stackscope
    viol, n = [], 0
    for variant in ("exhaust", "one-retry", "return-midway", "ok-A2-to-B1", "ok-A2-to-none", "ok-B1-to-A2", "ok-after-retry"):
        sites = PROGRAMS[1] if variant.startswith("ok-") else PROGRAMS[0]
        run = SnapRun(sites)
        try:
            nn = len(sites)
            if variant == "exhaust":
                run.goto(0)
                sched = [(a, "P1", 0, (a + 1) % nn) for a in range(10)]
            elif variant == "one-retry":
                run.goto(1)
                sched = [(0, "P3", 1, 2)]
            elif variant == "return-midway":
                run.goto(1)
                sched = [(0, "P3", 2, RET)]
            elif variant == "ok-A2-to-B1":      # accepted inside `with A1: with A2:`, then the target moves into `with B:`
                run.goto(1)
                sched = [(0, "P6", 0, 0)]
            elif variant == "ok-A2-to-none":    # ... or to a position outside any with
                run.goto(1)
                sched = [(0, "P6", 0, 2)]
            elif variant == "ok-B1-to-A2":
                run.goto(0)
                sched = [(0, "P6", 0, 3)]
            else:
                run.goto(3)
                sched = [(0, "P3", 1, 1), (1, "P6", 0, 0)]
            own_codes = {run.prog["fn"].__code__, Ctl.park.__code__, Ctl.note.__code__}
            with warnings.catch_warnings(record=True) as wl, contextlib.redirect_stderr(io.StringIO()):
                warnings.simplefilter("always")
                res, exc, st = run_schedule(run, sched, lambda fr: stackscope.extract(run.thread, with_contexts=True))
            n += 1
            if exc is not None:
                viol.append({"what": "extract(thread) raised under schedule %s: %r" % (variant, exc), "input": {"variant": variant}})
                continue
            names = [f.pyframe.f_code.co_name for f in res.frames]
            foreign = [f.pyframe.f_code.co_name for f in res.frames
                       if f.pyframe.f_code not in own_codes and "threading" not in f.pyframe.f_code.co_filename
                       and f.pyframe.f_code.co_name != "outer"]
            if foreign:
                viol.append({"what": "extract(thread) reported frames of another thread: %r" % foreign, "input": {"variant": variant}})
            nwarn = sum(1 for w in wl if issubclass(w.category, stackscope.InspectionWarning))
            if variant == "exhaust" and (st["retries"] != 10 or nwarn < 1):
                viol.append({"what": "10 rejected snapshots did not end in an InspectionWarning (retries=%d, warnings=%d)"
                                     % (st["retries"], nwarn), "input": {"variant": variant}})
            # every context reported for the target's frame must belong to ONE position: the manager object and
            # the with statement (start_line) of each context, and all contexts together, lie in one branch
            branch = run.prog["branch"]

            def site_of_line(ln):
                k = [i for i, b in enumerate(branch) if b <= ln]
                return k[-1] if k else None
            for f in res.frames:
                if f.pyframe is not run.frame:
                    continue
                where = set()
                for cx in f.contexts:
                    so = (cx.obj.n - 1) // 3 if isinstance(cx.obj, CM) else ("?", repr(cx.obj))
                    sl = site_of_line(cx.start_line) if cx.start_line is not None else ("?", None)
                    where.add(so)
                    where.add(sl)
                if len(where) > 1:
                    viol.append({"what": "extract(thread): the contexts of one frame mix positions (manager objects and with "
                                         "statements of different with-blocks): %r" % [(getattr(cx.obj, "n", None), cx.start_line) for cx in f.contexts],
                                 "input": {"variant": variant}})
            if variant != "exhaust" and nwarn:
                viol.append({"what": "unexpected InspectionWarning under schedule " + variant, "input": {"variant": variant, "names": names}})
        finally:
            run.close()
    return n, viol


STRESS_SRC = r'''
import sys, threading, time, random, warnings, io, contextlib
sys.setswitchinterval(1e-6)
import stackscope
from stackscope import _verif
assert not _verif.ENABLED
warnings.simplefilter("ignore")
DUR = float(sys.argv[1]); SEED = int(sys.argv[2])
rng = random.Random(SEED)
stop = False
class CM:
    def __init__(s, n): s.n = n
    def __enter__(s): return s
    def __exit__(s, *a): return False
SRC = """
def leaf(n, CM=CM):
    acc = []
    for i in range(n):
        with CM(i) as c:
            acc.append((i, c.n, [i, i + 1, str(i)]))
        if i % 3 == 0:
            acc = acc[-2:]
    return len(acc)
def mid(n, d):
    with CM(d) as a:
        if d > 0:
            return mid(n, d - 1) + keep(object(), [d], leaf(n % 5))[-1]
        with CM(-d) as b, CM(d + 100):
            return keep(1, 2, leaf(n))[-1]
def keep(*a): return a
def body(stopf, seed):
    k = seed
    while not stopf():
        k = (k * 1103515245 + 12345) % 2147483648
        mid(3 + k % 7, k % 4)
"""
def make_thread(seed):
    ns = {"CM": CM}
    exec(compile(SRC, "<stress-%d>" % seed, "exec"), ns)
    codes = {v.__code__ for v in ns.values() if hasattr(v, "__code__")} | {CM.__enter__.__code__, CM.__exit__.__code__, CM.__init__.__code__}
    flag = {"stop": False}
    t = threading.Thread(target=ns["body"], args=(lambda: flag["stop"] or stop, seed), daemon=True)
    return t, codes, flag
def own(frame, codes):
    co = frame.f_code
    return co in codes or co.co_filename.endswith("threading.py") or co.co_name == "<lambda>"
threads = []
for s in range(3):
    t, codes, flag = make_thread(s); t.start(); threads.append((t, codes, flag))
n = bad = 0
t0 = time.time()
err = io.StringIO()
serial = 10
while time.time() - t0 < DUR:
    r = rng.random()
    if r < 0.1:
        # a short-lived thread: extract it before start, while running, around its end
        t, codes, flag = make_thread(serial); serial += 1
        st = stackscope.extract(t, with_contexts=True); n += 1
        if st.frames: bad += 1; print("frames of a thread that has not started"); break
        t.start()
        for _ in range(rng.randrange(1, 4)):
            with contextlib.redirect_stderr(err):
                st = stackscope.extract(t, with_contexts=True)
            n += 1
            if not all(own(f.pyframe, codes) for f in st.frames): bad += 1; print("foreign frame", [f.pyframe.f_code.co_name for f in st.frames]); break
        flag["stop"] = True
        with contextlib.redirect_stderr(err):
            st = stackscope.extract(t, with_contexts=True)
        n += 1
        if not all(own(f.pyframe, codes) for f in st.frames): bad += 1; print("foreign frame (ending)"); break
        t.join()
        st = stackscope.extract(t, with_contexts=True); n += 1
        if st.frames: bad += 1; print("frames of a finished thread"); break
    else:
        t, codes, flag = rng.choice(threads)
        with contextlib.redirect_stderr(err):
            st = stackscope.extract(t, with_contexts=(r < 0.8))
        n += 1
        if not all(own(f.pyframe, codes) for f in st.frames):
            bad += 1; print("foreign frame", [f.pyframe.f_code.co_name for f in st.frames]); break
        del st
stop = True
for t, _, _ in threads: t.join(5)
print("STRESS extractions=%d bad=%d" % (n, bad))
sys.exit(1 if bad else 0)
'''


def leg_stress(tier, seed):
    dur = 10 if tier == "quick" else 150
    env = dict(os.environ)
    env.pop("STACKSCOPE_VERIF", None)
    env["PYTHONPATH"] = REPO
    path = os.path.join(ROOT, "build", "cases", "C07", "stress.py")
    os.makedirs(os.path.dirname(path), exist_ok=True)
    with open(path, "w") as fh:
        fh.write(STRESS_SRC)
    try:
        p = subprocess.run(["bash", "-c", 'ulimit -v 8000000; exec "$@"', "x", PY, "-X", "faulthandler", path, str(dur), str(seed)],
                           stdout=subprocess.PIPE, stderr=subprocess.STDOUT, text=True, timeout=dur + 120, env=env)
        rc, out = p.returncode, p.stdout
    except subprocess.TimeoutExpired as ex:
        rc, out = 124, "timeout"
    n = 0
    for line in out.splitlines():
        if line.startswith("STRESS extractions="):
            n = int(line.split("=")[1].split()[0])
    viol = []
    if rc != 0:
        viol.append({"what": "stress child (switch interval 1e-6, hooks off) did not exit cleanly: rc=%s (negative = signal)" % rc,
                     "input": {"seed": seed, "duration": dur, "replay": "%s %s %d %d" % (PY, path, dur, seed)},
                     "observed": out[-1500:]})
    return n, viol, {"stress_rc": rc, "stress_extractions": n, "stress_seconds": dur}


OTHER_SRC = r'''
import itertools, json, sys
from harness import c07
bad = []; n = 0; ctx = 0
for d in (1, 2, 3):
    for ws in itertools.product(range(3), repeat=d):
        for steps in range(0, 2 * d):
            desc = {"_kind": "life", "depth": d, "withs": list(ws), "pre": ["start"] + ["step"] * steps, "e2": [], "e3": []}
            obs = c07.run_life(desc); n += 1; ctx += obs.get("nctx", 0)
            m = c07.oracle_life(desc, obs)
            if m: bad.append([desc, m])
for desc in ({"pre": [], "e2": ["start"], "e3": []}, {"pre": ["start"], "e2": ["finish"], "e3": []},
             {"pre": ["start"], "e2": [], "e3": ["finish"]}, {"pre": ["start", "finish"], "e2": [], "e3": []},
             {"pre": [], "e2": [], "e3": []}):
    desc = dict(desc, _kind="life", depth=2, withs=[1, 2])
    obs = c07.run_life(desc); n += 1
    m = c07.oracle_life(desc, obs)
    if m or obs["res"] != "empty": bad.append([desc, m or "expected no frames, got %r" % (obs,)])
print("OTHER " + json.dumps({"n": n, "ctx": ctx, "bad": bad[:5], "version": sys.version.split()[0]}))
'''


def leg_other_pythons(tier):
    """Blocked threads (exact frames + exact contexts against the truth log) and the not-started / finished /
    window cases on the other interpreters: 3.10 (quick), 3.9 + 3.10 + 3.11 (thorough).  3.9/3.10 use the
    block-stack reader _lowlevel_cpython_310.py, which has only a descriptive Coq model."""
    path = os.path.join(ROOT, "build", "cases", "C07", "other.py")
    os.makedirs(os.path.dirname(path), exist_ok=True)
    with open(path, "w") as fh:
        fh.write(OTHER_SRC)
    vers = ["3.10.13"] if tier == "quick" else ["3.9.18", "3.10.13", "3.11.7"]
    n, viol, info = 0, [], {}
    for v in vers:
        py = "/root/.pyenv/versions/%s/bin/python" % v
        if not os.path.exists(py):
            info["python_" + v] = "absent, skipped"
            continue
        env = dict(os.environ, STACKSCOPE_VERIF="1",
                   PYTHONPATH=os.pathsep.join([os.path.join(ROOT, "harness", "shims"), REPO, ROOT]))
        try:
            p = subprocess.run(["timeout", "300", py, path], stdout=subprocess.PIPE, stderr=subprocess.STDOUT, text=True,
                               timeout=330, env=env, cwd=ROOT)
            rc, out = p.returncode, p.stdout
        except subprocess.TimeoutExpired:
            rc, out = 124, "timeout"
        res = None
        for line in out.splitlines():
            if line.startswith("OTHER "):
                res = json.loads(line[6:])
        if rc != 0 or res is None:
            viol.append({"what": "blocked-thread leg on CPython %s did not finish: rc=%s" % (v, rc), "input": {"python": v},
                         "observed": out[-1500:]})
            continue
        n += res["n"]
        info["python_" + v] = "%d cases, %d contexts, %d bad" % (res["n"], res["ctx"], len(res["bad"]))
        for desc, msg in res["bad"]:
            viol.append({"what": "CPython %s: %s" % (v, msg), "input": dict(desc, python=v)})
    return n, viol, info


def extra_legs(tier, seed):
    info, viol = {}, []
    n1, v1 = leg_extract_racing()
    viol += v1
    info["extract_level_schedules"] = n1
    n2, v2, i2 = leg_stress(tier, seed)
    viol += v2
    info.update(i2)
    n3, v3, i3 = leg_other_pythons(tier)
    viol += v3
    info.update(i3)
    return dict(evaluations=n1 + n2 + n3, violations=viol, info=info)
