"""C02 — contexts of a frame running on the calling thread are exact, also mid-enter/exit.
Coq: certificate soundness for the with-machine (P_Cert.analysis_exact) => for every checked code
object, at every running observation (call sites, inside enter/exit, inside awaited aenter/aexit) of every execution, the model of the trickery analysis is exact.
Tie: (1) every corpus code object gets a certificate that Coq's checkk KRun accepts; (2) the real
currently_exiting_context / analyze_with_blocks agree with the model at every running-observation offset;
(3) runtime ground truth (harness/progs.py: logging managers, all branch outcomes, every probe)."""
from . import wm_cases as WC

PROP = "C02"
CASE_LIMIT = 5400      # the `live` descriptor runs whole runtime legs (many minutes in the thorough tier)
KINDS = WC.kinds("KRun")
SHARD = 14
RULE = ("corpus = standard-library code objects containing a with statement (20 sampled by seed in quick, all ~440 in "
        "thorough) + generated sync/generator/coroutine/async-generator bodies over with/async with (1..3 items, targets, "
        "layouts), try/except/else/finally, for/while/async for, if, match, return/break/continue/raise, for CPython 3.12 and "
        "(computed by a 3.11 child process on 3.11's own standard library and the same generator) CPython 3.11. Each code "
        "object yields: a 'cert' case (certificate from the untrusted dataflow, checked by M_Cert.checkk in Coq), a 'static' "
        "case (real currently_exiting_context / analyze_with_blocks vs the model at every observation offset), a 'join' case "
        "(the REAL _contexts_active_by_trickery run on every certified observation, stack taken from the certificate, "
        "exception-table walk and trim executed from inspect_frame's own source), a 'table' case (model of "
        "_parse_exception_table on the raw co_exceptiontable bytes); plus one 'live' case per program of the runtime leg "
        "(f_lasti and logged ground truth of real frames must be observations the certified machine offers). distinct = "
        "distinct code objects; non-trivial = has a certified observation with a non-empty truth / an exit in progress / a "
        "non-empty reported context list / >= 2 table entries / a non-empty logged truth")
CONFIG = dict(
    escalate=False,
    coq=["C02"], level="proof",
    claim=("Coq theorem (certificate soundness, by induction over all executions of an abstract machine for the "
           "3.11/3.12 with-protocol): for every code object whose certificate Coq's checker accepts, the model of "
           "stackscope's trickery analysis returns exactly the entered-but-not-exited managers at every suspension "
           "point; the certificate check runs on every corpus code object on every run, the analysis model is compared "
           "with the real functions at every running-observation offset, and a runtime ground-truth leg compares real "
           "Frame.contexts with logging managers."),
    design_ref="DESIGN.md section 5 C01/C02/C20",
    trusted_base=["M_WithMachine.v is a hand-written model of CPython 3.12's and 3.11's with/async-with bytecode semantics (validated by "
                  "the ground-truth runtime leg and by the fact that all corpus code objects are explained by it)",
                  "M_Analysis.v models _lowlevel.py's 3.11 and 3.12 branches; compared with the real functions at observation offsets",
                  "harness/withmachine.py's translation of code objects (via dis) to abstract code"],
    assumptions=["the program space is sampled (generated programs + standard library); proved for all executions of each checked code object",
                 "awaitables returned by __aenter__/__aexit__ are coroutine objects (no Python-level __await__ runs inside GET_AWAITABLE)",
                 "Coq instances for CPython 3.12.1 and 3.11.7 bytecode (version parameter of the machine and of the analysis model); for 3.9/3.10 (block stack) only the exit-call attribution is a theorem (C01.v, C01_py310_exiting_block_partial), the rest is the runtime leg"],
    unproved_legs=["CPython 3.9/3.10: the pre-3.11 branch of currently_exiting_context and analyze_with_blocks is modelled (M_BlockStack) and tied by the "
                   "`bs` correspondence under both interpreters (every instruction offset of every corpus code object); the attribution of an exit call in "
                   "progress to the block its POP_BLOCK pops is a theorem (C01_py310_exiting_block_partial, for every execution of the block-stack machine); "
                   "exactness of the whole context list there, _lowlevel_cpython_310.inspect_frame and the absence of warnings are runtime ground-truth legs",
                   "inspect_frame's ctypes reads are not modelled; the chain walk and slot arithmetic are (M_Analysis.blocks/slot)"],
    timeout={"quick": 1200, "thorough": 5400},
)


def make_inputs(tier, seed):
    yield from WC.make_descs(tier, seed, "run")


run_case = WC.run_case
coq_case = WC.coq_case
direct_oracle = WC.direct_oracle
classify = WC.classify


def extra_legs(tier, seed):
    try:
        from . import progs
    except ImportError:
        return {"evaluations": 0, "violations": [], "info": {"runtime_leg": "harness/progs.py not available yet"}}
    return progs.leg_running(tier, seed)
