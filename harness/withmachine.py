"""CPython 3.12 code object -> abstract code of coq/M_Bytecode.v, exception table, and an
(untrusted) certificate for coq/M_Cert.check computed by forward dataflow with the same
transfer rules as coq/M_WithMachine.trans.  Only `check`, evaluated inside Coq, is trusted;
this file just has to produce something `check` accepts.

Stacks are lists with the TOP FIRST, as in the Coq model.  Tags: "O" | ("X", site) |
("EA", site) | ("XA", site).  Truth entries: (site, is_async, phase) with phase in
"entering" | "active" | "exiting".
"""
from __future__ import annotations

import collections
import dis
import sys
import types

from .common import cbool, clist

PYVER = sys.version_info[:2]
# the with-machine models CPython 3.11 and 3.12 bytecode; under 3.9 / 3.10 only the corpus helpers of this
# module are used (harness/bs_child.py: block-stack model M_BlockStack.v) and abstract_code refuses
VER = "V312" if PYVER == (3, 12) else ("V311" if PYVER == (3, 11) else None)

# (pops, pushes) of the opcodes that are plain IGen; cross-checked against dis.stack_effect
_FIXED = {
    "PUSH_NULL": (0, 1), "END_FOR": (2, 0),
    "UNARY_NEGATIVE": (1, 1), "UNARY_NOT": (1, 1), "UNARY_INVERT": (1, 1),
    "BINARY_OP": (2, 1), "BINARY_SUBSCR": (2, 1), "BINARY_SLICE": (3, 1),
    "STORE_SLICE": (4, 0), "STORE_SUBSCR": (3, 0), "DELETE_SUBSCR": (2, 0),
    "GET_LEN": (1, 2), "MATCH_MAPPING": (1, 2), "MATCH_SEQUENCE": (1, 2), "MATCH_KEYS": (2, 3),
    "MATCH_CLASS": (3, 1),
    "GET_ITER": (1, 1), "GET_YIELD_FROM_ITER": (1, 1), "GET_AITER": (1, 1), "GET_ANEXT": (1, 2),
    "LOAD_BUILD_CLASS": (0, 1), "LOAD_ASSERTION_ERROR": (0, 1), "LOAD_LOCALS": (0, 1),
    "STORE_NAME": (1, 0), "DELETE_NAME": (0, 0), "STORE_ATTR": (2, 0), "DELETE_ATTR": (1, 0),
    "STORE_GLOBAL": (1, 0), "DELETE_GLOBAL": (0, 0), "STORE_FAST": (1, 0), "DELETE_FAST": (0, 0),
    "STORE_DEREF": (1, 0), "DELETE_DEREF": (0, 0),
    "LOAD_NAME": (0, 1), "LOAD_FAST": (0, 1), "LOAD_FAST_CHECK": (0, 1),
    "LOAD_FAST_AND_CLEAR": (0, 1), "LOAD_DEREF": (0, 1), "LOAD_CLOSURE": (0, 1),
    "LOAD_FROM_DICT_OR_DEREF": (1, 1), "LOAD_FROM_DICT_OR_GLOBALS": (1, 1),
    "MAKE_CELL": (0, 0), "COPY_FREE_VARS": (0, 0), "SETUP_ANNOTATIONS": (0, 0),
    "IMPORT_NAME": (2, 1), "IMPORT_FROM": (1, 2),
    "COMPARE_OP": (2, 1), "IS_OP": (2, 1), "CONTAINS_OP": (2, 1),
    "CHECK_EXC_MATCH": (2, 2), "CHECK_EG_MATCH": (2, 2),
    "LIST_APPEND": (1, 0), "SET_ADD": (1, 0), "MAP_ADD": (2, 0),
    "LIST_EXTEND": (1, 0), "SET_UPDATE": (1, 0), "DICT_UPDATE": (1, 0), "DICT_MERGE": (1, 0),
    "CALL_INTRINSIC_1": (1, 1), "CALL_INTRINSIC_2": (2, 1),
    "KW_NAMES": (0, 0), "RETURN_GENERATOR": (0, 1), "END_ASYNC_FOR": (2, 0),
}
if PYVER == (3, 11):
    _FIXED.update({
        "UNARY_POSITIVE": (1, 1), "PRINT_EXPR": (1, 0), "LIST_TO_TUPLE": (1, 1), "IMPORT_STAR": (1, 0),
        "ASYNC_GEN_WRAP": (1, 1), "PREP_RERAISE_STAR": (2, 1), "LOAD_CLASSDEREF": (0, 1), "LOAD_METHOD": (1, 2),
    })
    for _k in ("BINARY_SLICE", "STORE_SLICE", "END_FOR", "CALL_INTRINSIC_1", "CALL_INTRINSIC_2", "LOAD_FAST_CHECK",
               "LOAD_FAST_AND_CLEAR", "LOAD_FROM_DICT_OR_DEREF", "LOAD_FROM_DICT_OR_GLOBALS", "LOAD_LOCALS"):
        _FIXED.pop(_k, None)

CANNOT_RAISE = {"PUSH_NULL", "LOAD_FAST", "STORE_FAST", "MAKE_CELL", "COPY_FREE_VARS", "LOAD_CLOSURE",
                "RETURN_GENERATOR", "KW_NAMES", "LOAD_FAST_AND_CLEAR", "END_FOR", "IS_OP"}


class Unsupported(Exception):
    pass


def pops_pushes(ins):
    n, a = ins.opname, ins.arg or 0
    if n in _FIXED:
        return _FIXED[n]
    if n == "FORMAT_VALUE":
        return (2 if (a & 4) else 1, 1)
    if n == "LOAD_GLOBAL":
        return (0, 2 if (a & 1) else 1)
    if n == "LOAD_ATTR":
        return (1, 2 if (a & 1) and PYVER >= (3, 12) else 1)
    if n == "LOAD_SUPER_ATTR":
        return (3, 2 if (a & 1) else 1)
    if n in ("BUILD_TUPLE", "BUILD_LIST", "BUILD_SET", "BUILD_STRING", "BUILD_SLICE"):
        return (a, 1)
    if n == "BUILD_MAP":
        return (2 * a, 1)
    if n == "BUILD_CONST_KEY_MAP":
        return (a + 1, 1)
    if n == "UNPACK_SEQUENCE":
        return (1, a)
    if n == "UNPACK_EX":
        return (1, (a & 0xFF) + (a >> 8) + 1)
    if n == "CALL_FUNCTION_EX":
        return (3 + (1 if a & 1 else 0), 1)
    if n == "MAKE_FUNCTION":
        return (1 + bin(a & 0xF).count("1"), 1)
    raise Unsupported(n)


def abstract_code(co: types.CodeType):
    """-> (units, table): units[i] is a tuple describing code unit i (see `unit_coq`), table is a
    list of (start, end_inclusive, target, depth, lasti) in code units, parsed with `dis`
    (independently of stackscope's own parser)."""
    if VER is None:
        raise Unsupported("the with-machine models CPython 3.11 and 3.12 bytecode")
    instrs = list(dis.get_instructions(co, show_caches=True))
    units = []
    for k, ins in enumerate(instrs):
        assert ins.offset == 2 * k, (ins.offset, k)
        n, a = ins.opname, ins.arg or 0
        if n == "CACHE":
            u = ("ICache",)
        elif n == "EXTENDED_ARG":
            u = ("IExtArg",)
        elif n == "NOP":
            u = ("INop",)
        elif n == "RESUME":
            u = ("IResume",)
        elif n == "PRECALL":
            u = ("IPrecall",)
        elif n in ("JUMP_IF_FALSE_OR_POP", "JUMP_IF_TRUE_OR_POP"):
            u = ("IJumpOrPop", ins.argval // 2)
        elif n in ("POP_JUMP_FORWARD_IF_FALSE", "POP_JUMP_FORWARD_IF_TRUE",
                   "POP_JUMP_BACKWARD_IF_FALSE", "POP_JUMP_BACKWARD_IF_TRUE",
                   "POP_JUMP_BACKWARD_IF_NONE", "POP_JUMP_BACKWARD_IF_NOT_NONE"):
            u = ("ICondJump", ins.argval // 2, True)        # truth test or eval-breaker check may raise
        elif n in ("POP_JUMP_FORWARD_IF_NONE", "POP_JUMP_FORWARD_IF_NOT_NONE"):
            u = ("ICondJump", ins.argval // 2, False)
        elif n == "LOAD_CONST":
            u = ("ILoadConst", ins.argval is None)
        elif n == "POP_TOP":
            u = ("IPop",)
        elif n == "SWAP":
            u = ("ISwap", a)
        elif n == "COPY":
            u = ("ICopy", a)
        elif n in ("BEFORE_WITH", "BEFORE_ASYNC_WITH"):
            u = ("IBeforeWith", n == "BEFORE_ASYNC_WITH")
        elif n == "GET_AWAITABLE":
            u = ("IGetAwaitable", a)
        elif n == "SEND":
            u = ("ISend", ins.argval // 2)
        elif n == "END_SEND":
            u = ("IEndSend",)
        elif n == "CLEANUP_THROW":
            u = ("ICleanupThrow",)
        elif n == "YIELD_VALUE":
            u = ("IYield",)
        elif n == "CALL":
            u = ("ICall", a)
        elif n == "WITH_EXCEPT_START":
            u = ("IWithExceptStart",)
        elif n == "PUSH_EXC_INFO":
            u = ("IPushExcInfo",)
        elif n == "POP_EXCEPT":
            u = ("IPopExcept",)
        elif n == "RERAISE":
            u = ("IReraise",)
        elif n == "RAISE_VARARGS":
            u = ("IRaise", a)
        elif n == "RETURN_VALUE":
            u = ("IReturn", 1)
        elif n == "RETURN_CONST":
            u = ("IReturn", 0)
        elif n == "JUMP_FORWARD":
            u = ("IJump", "JFwd", ins.argval // 2)
        elif n == "JUMP_BACKWARD":
            u = ("IJump", "JBack", ins.argval // 2)
        elif n == "JUMP_BACKWARD_NO_INTERRUPT":
            u = ("IJump", "JBackNoInt", ins.argval // 2)
        elif n in ("POP_JUMP_IF_FALSE", "POP_JUMP_IF_TRUE"):
            u = ("ICondJump", ins.argval // 2, True)
        elif n in ("POP_JUMP_IF_NONE", "POP_JUMP_IF_NOT_NONE"):
            u = ("ICondJump", ins.argval // 2, False)
        elif n == "FOR_ITER":
            u = ("IForIter", ins.argval // 2)
        else:
            p, q = pops_pushes(ins)
            try:
                eff = dis.stack_effect(ins.opcode, ins.arg, jump=False) if ins.opcode >= dis.HAVE_ARGUMENT else dis.stack_effect(ins.opcode)
            except ValueError:
                eff = None
            if eff is not None and eff != q - p and n != "RETURN_GENERATOR":   # dis reports 0: the generator object is pushed into the new frame
                raise Unsupported("%s: table says %d-%d, dis.stack_effect says %d" % (n, q, p, eff))
            u = ("IGen", p, q, n not in CANNOT_RAISE)
        units.append(u)
    table = []
    for e in dis._parse_exception_table(co):
        table.append((e.start // 2, e.end // 2 - 1, e.target // 2, e.depth, bool(e.lasti)))
    return units, table


def unit_coq(u) -> str:
    k = u[0]
    if len(u) == 1:
        return k
    args = []
    for x in u[1:]:
        if isinstance(x, bool):
            args.append(cbool(x))
        elif isinstance(x, int):
            args.append(str(x))
        else:
            args.append(x)
    return "(" + k + " " + " ".join(args) + ")"


def code_coq(units) -> str:
    return clist([unit_coq(u) for u in units])


def table_coq(table) -> str:
    return clist(["{| h_start := %d; h_end := %d; h_target := %d; h_depth := %d; h_lasti := %s |}"
                  % (s, e, t, d, cbool(l)) for (s, e, t, d, l) in table])


# ------------------------------------------------------------------ the machine, in Python
class Stuck(Exception):
    pass


def lookup(table, p):
    for h in table:
        if h[0] <= p <= h[1]:
            return h
    return None


def is_tag(v):
    return v != "O"


def exc_edge(table, keep, p, st, tr):
    h = lookup(table, p)
    if h is None:
        return []
    _, _, tgt, depth, lasti = h
    if depth > len(st):
        raise Stuck(f"pc {p}: handler depth {depth} > stack {len(st)}")
    bottom = st[len(st) - depth:]
    st2 = ("O",) + (("O",) if lasti else ()) + tuple(bottom)
    tr2 = tuple(tr) if keep else tuple(e for e in tr if e[2] == "active")
    return [(tgt, st2, tr2)]


def set_phase(s, ph, tr):
    return tuple((a, b, ph if a == s else c) for (a, b, c) in tr)


def remove_site(s, tr):
    return tuple(e for e in tr if e[0] != s)


def event(recv, tr):
    if isinstance(recv, tuple) and recv[0] == "EA":
        return set_phase(recv[1], "active", tr)
    if isinstance(recv, tuple) and recv[0] == "XA":
        return remove_site(recv[1], tr)
    return tuple(tr)


def exit_call(table, p, st, rest, tr, s):
    ent = [e for e in tr if e[0] == s]
    if not ent:
        raise Stuck(f"pc {p}: exit call for site {s} not in truth")
    if ent[0][1]:
        succ = [(p + 1, (("XA", s),) + tuple(rest), set_phase(s, "exiting", tr))]
    else:
        succ = [(p + 1, ("O",) + tuple(rest), remove_site(s, tr))]
    return succ + exc_edge(table, False, p, st, remove_site(s, tr))


def trans(units, table, p, st, tr):
    """successor states [(pc, stack, truth)] of the abstract machine; raises Stuck"""
    if p >= len(units):
        raise Stuck(f"pc {p} out of range")
    u = units[p]
    k = u[0]
    st = tuple(st)
    tr = tuple(tr)
    nxt = lambda s2: [(p + 1, tuple(s2), tr)]
    exc = lambda: exc_edge(table, False, p, st, tr)
    need = lambda n: (_ for _ in ()).throw(Stuck(f"pc {p} {k}: stack too shallow")) if len(st) < n else None
    if k in ("ICache", "IExtArg", "INop", "IPrecall"):
        return nxt(st)
    if k == "IResume":
        return nxt(st) + exc()
    if k == "ILoadConst":
        return nxt(("O",) + st)
    if k == "IPop":
        need(1)
        return nxt(st[1:])
    if k == "ISwap":
        n = u[1]
        if n <= 1:
            return nxt(st)
        need(n)
        l = list(st)
        l[0], l[n - 1] = l[n - 1], l[0]
        return nxt(l)
    if k == "ICopy":
        n = u[1]
        if n == 0:
            raise Stuck("COPY 0")
        need(n)
        return nxt((st[n - 1],) + st)
    if k == "IBeforeWith":
        need(1)
        if is_tag(st[0]):
            raise Stuck(f"pc {p}: manager slot is tagged")
        r = st[1:]
        if u[1]:
            succ = [(p + 1, (("EA", p), ("X", p)) + r, tr + ((p, True, "entering"),))]
        else:
            succ = [(p + 1, ("O", ("X", p)) + r, tr + ((p, False, "active"),))]
        return succ + exc_edge(table, False, p, r, tr)
    if k == "IGetAwaitable":
        need(1)
        return nxt(st) + exc()
    if k == "ISend":
        need(2)
        recv, r = st[1], st[2:]
        done = ("O", recv) + r if VER == "V312" else ("O",) + r
        return [(p + 1, ("O", recv) + r, tr), (u[1], done, event(recv, tr))] + exc()
    if k == "IEndSend":
        need(2)
        return nxt((st[0],) + st[2:])
    if k == "ICleanupThrow":
        need(3)
        recv, r = st[2], st[3:]
        return [(p + 1, ("O", recv) + r, event(recv, tr))] + exc()
    if k == "IYield":
        need(1)
        r = st[1:]
        if VER == "V312":
            return nxt(("O",) + r) + exc_edge(table, True, p, ("O",) + r, tr)
        out = nxt(("O",) + r) + exc_edge(table, False, p, ("O",) + r, tr)
        if p >= 1 and units[p - 1][0] == "ISend" and r:
            out = out + [(units[p - 1][1], ("O",) + r[1:], event(r[0], tr))]
        return out
    if k == "ICall":
        n = u[1]
        need(n + 2)
        callee = st[n + 1]
        if any(is_tag(v) for v in st[:n + 1]):
            raise Stuck(f"pc {p}: CALL consumes a tagged value")
        if isinstance(callee, tuple) and callee[0] == "X":
            return exit_call(table, p, st, st[n + 2:], tr, callee[1])
        if callee != "O":
            raise Stuck(f"pc {p}: CALL on {callee}")
        return nxt(("O",) + st[n + 2:]) + exc()
    if k == "IWithExceptStart":
        need(4)
        callee = st[3]
        if not (isinstance(callee, tuple) and callee[0] == "X"):
            raise Stuck(f"pc {p}: WITH_EXCEPT_START on {callee}")
        return exit_call(table, p, st, st, tr, callee[1])
    if k == "IPushExcInfo":
        need(1)
        return nxt((st[0], "O") + st[1:])
    if k == "IPopExcept":
        need(1)
        return nxt(st[1:])
    if k == "IReraise":
        return exc()
    if k == "IRaise":
        need(u[1])
        return exc()
    if k == "IReturn":
        need(u[1])
        return []
    if k == "IJump":
        return [(u[2], st, tr)] + (exc() if u[1] == "JBack" else [])
    if k == "ICondJump":
        need(1)
        if is_tag(st[0]):
            raise Stuck(f"pc {p}: conditional jump on a tagged value")
        r = st[1:]
        return [(p + 1, r, tr), (u[1], r, tr)] + (exc() if u[2] else [])
    if k == "IJumpOrPop":
        need(1)
        if is_tag(st[0]):
            raise Stuck(f"pc {p}: jump-or-pop on a tagged value")
        return [(p + 1, st[1:], tr), (u[1], st, tr)] + exc()
    if k == "IForIter":
        done = ("O",) + st if VER == "V312" else st[1:]
        return [(p + 1, ("O",) + st, tr), (u[1], done, tr)] + exc()
    if k == "IGen":
        pops, pushes, raises = u[1], u[2], u[3]
        need(pops)
        if any(is_tag(v) for v in st[:pops]):
            raise Stuck(f"pc {p}: generic instruction consumes a tagged value {st[:pops]}")
        return nxt(("O",) * pushes + st[pops:]) + (exc() if raises else [])
    raise Stuck(f"unknown unit {u}")


class Conflict(Exception):
    pass


def certificate(units, table):
    """forward dataflow; -> list (one entry per unit) of None | (stack, truth)"""
    cert = [None] * len(units)
    work = collections.deque()

    def flow(p, st, tr, frm):
        if p >= len(units):
            raise Conflict(f"edge from {frm} leaves the code (pc {p})")
        key = (tuple(st), tuple(tr))
        if cert[p] is None:
            cert[p] = key
            work.append(p)
        elif cert[p] != key:
            raise Conflict(f"pc {p} reached from {frm} with {key}, certificate has {cert[p]}")

    flow(0, (), (), "entry")
    while work:
        p = work.popleft()
        st, tr = cert[p]
        for (q, st2, tr2) in trans(units, table, p, st, tr):
            flow(q, st2, tr2, p)
    return cert


def val_coq(v) -> str:
    if v == "O":
        return "VO"
    return "(%s %d tt)" % ({"X": "VX", "EA": "VEA", "XA": "VXA"}[v[0]], v[1])


def tent_coq(e) -> str:
    return "{| t_site := %d; t_inst := tt; t_async := %s; t_phase := %s |}" % (
        e[0], cbool(e[1]), {"entering": "Entering", "active": "Active", "exiting": "Exiting"}[e[2]])


def cert_coq(cert) -> str:
    out = []
    for c in cert:
        if c is None:
            out.append("None")
        else:
            out.append("Some (%s, %s)" % (clist([val_coq(v) for v in c[0]]), clist([tent_coq(e) for e in c[1]])))
    return clist(out)


def iter_codes(co):
    yield co
    for c in co.co_consts:
        if isinstance(c, types.CodeType):
            yield from iter_codes(c)


def has_with(co) -> bool:
    return any(i.opname in ("BEFORE_WITH", "BEFORE_ASYNC_WITH", "SETUP_WITH", "SETUP_ASYNC_WITH")
               for i in dis.get_instructions(co))
