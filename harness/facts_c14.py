"""Source facts for C14 (fail-closed: unrecognised shape => False / 0).

c14_children_for_task  glue_trio.elaborate_nursery sets context.children to a comprehension over
                       `context.obj.child_tasks` of `_extract.extract_child(<that variable>, for_task=True)`
                       and sets context.obj to `manager._nursery`
c14_stub_rule          extract_child starts (after the not-inside-extract guard) with
                       `if for_task and not current_options.recurse_child_tasks: return Stack(root=stackitem, frames=[])`
c14_trap_<name>        for each of the four Trio traps the model treats as hide+prune (cancel_shielded_checkpoint,
                       wait_task_rescheduled, temporarily_detach_coroutine_object, permanently_detach_coroutine_object):
                       <name> is, as a string constant of its own, an element of the tuple that glue_trio's
                       `for trap in (...)` loop iterates, and the loop body's single customize() call is
                       customize(getattr(lowlevel, trap), hide=True, prune=True)
c14_guard_reset_on_frame  in extract_iter, the body of the `if isinstance(<x>, Frame): ...; continue` branch (the one that
                       queues a Frame for elaboration) assigns 0 to the no-progress counter; the counter is recognised
                       by shape (the local incremented with `+= 1` and compared with `>`), not by name
c14_options_per_thread ExtractOptions derives from threading.local and all its class-level attributes are immutable
                       defaults (constants or cast(T, <constant>)): nothing mutable is shared between threads
c14_wait_name          the to_thread glue tests `next_inner.funcname == "wait_task_rescheduled"`
"""
import ast

from .srcfacts import _find_def, _parse


TRAP_NAMES = ("cancel_shielded_checkpoint", "wait_task_rescheduled",
              "temporarily_detach_coroutine_object", "permanently_detach_coroutine_object")


def _kw(call, name):
    for k in call.keywords:
        if k.arg == name:
            return k.value
    return None


def _is_true(node):
    return isinstance(node, ast.Constant) and node.value is True


def compute():
    facts = {"c14_children_for_task": False, "c14_stub_rule": False, "c14_wait_name": False,
             "c14_guard_reset_on_frame": False, "c14_options_per_thread": False}
    for name in TRAP_NAMES:
        facts["c14_trap_" + name] = False
    gl = _parse("stackscope/_glue.py")
    gt = _find_def(gl, "glue_trio")
    if gt is not None:
        en = _find_def(gt, "elaborate_nursery")
        if en is not None:
            obj_ok = kids_ok = False
            for st in en.body:
                if (isinstance(st, ast.Assign) and len(st.targets) == 1 and isinstance(st.targets[0], ast.Attribute)
                        and isinstance(st.targets[0].value, ast.Name) and st.targets[0].value.id == "context"):
                    tgt = st.targets[0].attr
                    v = st.value
                    if (tgt == "obj" and isinstance(v, ast.Attribute) and v.attr == "_nursery"
                            and isinstance(v.value, ast.Name) and v.value.id == "manager"):
                        obj_ok = True
                    if tgt == "children" and isinstance(v, ast.ListComp) and len(v.generators) == 1:
                        g = v.generators[0]
                        it = g.iter
                        e = v.elt
                        if (not g.ifs and isinstance(g.target, ast.Name)
                                and isinstance(it, ast.Attribute) and it.attr == "child_tasks"
                                and isinstance(it.value, ast.Attribute) and it.value.attr == "obj"
                                and isinstance(it.value.value, ast.Name) and it.value.value.id == "context"
                                and isinstance(e, ast.Call) and isinstance(e.func, ast.Attribute)
                                and e.func.attr == "extract_child" and len(e.args) == 1
                                and isinstance(e.args[0], ast.Name) and e.args[0].id == g.target.id
                                and _is_true(_kw(e, "for_task"))):
                            kids_ok = True
            facts["c14_children_for_task"] = obj_ok and kids_ok
        # trap loop
        for x in ast.walk(gt):
            if (isinstance(x, ast.For) and isinstance(x.target, ast.Name) and x.target.id == "trap"
                    and isinstance(x.iter, ast.Tuple) and all(isinstance(e, ast.Constant) for e in x.iter.elts)):
                names = [e.value for e in x.iter.elts]
                calls = [c for c in ast.walk(x) if isinstance(c, ast.Call) and isinstance(c.func, ast.Name)
                         and c.func.id == "customize"]
                ok = (len(calls) == 1 and _is_true(_kw(calls[0], "hide")) and _is_true(_kw(calls[0], "prune"))
                      and len(calls[0].args) == 1 and isinstance(calls[0].args[0], ast.Call)
                      and isinstance(calls[0].args[0].func, ast.Name) and calls[0].args[0].func.id == "getattr"
                      and len(calls[0].args[0].args) == 2
                      and isinstance(calls[0].args[0].args[0], ast.Name) and calls[0].args[0].args[0].id == "lowlevel"
                      and isinstance(calls[0].args[0].args[1], ast.Name) and calls[0].args[0].args[1].id == "trap")
                for name in TRAP_NAMES:
                    facts["c14_trap_" + name] = ok and name in names
        tt = _find_def(gt, "elaborate_to_thread_run_sync")
        if tt is not None:
            for x in ast.walk(tt):
                if (isinstance(x, ast.Compare) and len(x.ops) == 1 and isinstance(x.ops[0], ast.Eq)
                        and isinstance(x.left, ast.Attribute) and x.left.attr == "funcname"
                        and isinstance(x.left.value, ast.Name) and x.left.value.id == "next_inner"
                        and isinstance(x.comparators[0], ast.Constant)
                        and x.comparators[0].value == "wait_task_rescheduled"):
                    facts["c14_wait_name"] = True
    ex = _parse("stackscope/_extract.py")
    ei = _find_def(ex, "extract_iter")
    if ei is not None:
        # the no-progress counter, by shape (whatever it is called): the local that is incremented
        # with `+= 1` and compared with `>` (cf. srcfacts._counter_guard_const)
        inc = {x.target.id for x in ast.walk(ei)
               if isinstance(x, ast.AugAssign) and isinstance(x.op, ast.Add) and isinstance(x.target, ast.Name)
               and isinstance(x.value, ast.Constant) and x.value.value == 1}
        cmp_ = {x.left.id for x in ast.walk(ei)
                if isinstance(x, ast.Compare) and isinstance(x.left, ast.Name) and len(x.ops) == 1
                and isinstance(x.ops[0], ast.Gt)}
        counters = inc & cmp_
        hits = []
        if len(counters) == 1:
            counter = next(iter(counters))
            for x in ast.walk(ei):
                # the branch that queues a Frame for elaboration: `if isinstance(<x>, Frame): ...; continue`
                if (isinstance(x, ast.If) and isinstance(x.test, ast.Call) and isinstance(x.test.func, ast.Name)
                        and x.test.func.id == "isinstance" and len(x.test.args) == 2
                        and isinstance(x.test.args[0], ast.Name)
                        and isinstance(x.test.args[1], ast.Name) and x.test.args[1].id == "Frame"
                        and any(isinstance(st, ast.Continue) for st in x.body)):
                    resets = any(isinstance(st, ast.Assign) and len(st.targets) == 1
                                 and isinstance(st.targets[0], ast.Name) and st.targets[0].id == counter
                                 and isinstance(st.value, ast.Constant) and st.value.value == 0
                                 and not isinstance(st.value.value, bool)
                                 for st in x.body)
                    appends = any(isinstance(c, ast.Call) and isinstance(c.func, ast.Attribute) and c.func.attr == "append"
                                  for st in x.body for c in ast.walk(st))
                    hits.append(resets and appends)
        facts["c14_guard_reset_on_frame"] = hits == [True]
    # ExtractOptions keeps nothing that is shared between threads: a threading.local subclass
    # whose class-level attributes are immutable defaults (constants / cast(T, <constant>))
    eo = _find_def(ex, "ExtractOptions")
    if eo is not None:
        local = any(isinstance(b, ast.Attribute) and b.attr == "local" and isinstance(b.value, ast.Name)
                    and b.value.id == "threading" for b in eo.bases)

        def immutable(v):
            if v is None or isinstance(v, ast.Constant):
                return True
            if isinstance(v, ast.Tuple):
                return all(immutable(e) for e in v.elts)
            return (isinstance(v, ast.Call) and isinstance(v.func, ast.Name) and v.func.id == "cast"
                    and len(v.args) == 2 and isinstance(v.args[1], ast.Constant))

        ok = True
        for st in eo.body:
            if isinstance(st, ast.AnnAssign):
                ok = ok and immutable(st.value)
            elif isinstance(st, ast.Assign):
                ok = ok and immutable(st.value)
        facts["c14_options_per_thread"] = local and ok
    ec = _find_def(ex, "extract_child")
    if ec is not None:
        ifs = [s for s in ec.body if isinstance(s, ast.If)]
        if len(ifs) >= 2:
            s = ifs[1]
            t = s.test
            ok = (isinstance(t, ast.BoolOp) and isinstance(t.op, ast.And) and len(t.values) == 2
                  and isinstance(t.values[0], ast.Name) and t.values[0].id == "for_task"
                  and isinstance(t.values[1], ast.UnaryOp) and isinstance(t.values[1].op, ast.Not)
                  and isinstance(t.values[1].operand, ast.Attribute)
                  and t.values[1].operand.attr == "recurse_child_tasks"
                  and isinstance(t.values[1].operand.value, ast.Name)
                  and t.values[1].operand.value.id == "current_options")
            r = s.body[0] if len(s.body) == 1 else None
            if ok and isinstance(r, ast.Return) and isinstance(r.value, ast.Call):
                c = r.value
                root = _kw(c, "root")
                frames = _kw(c, "frames")
                ok = (isinstance(c.func, ast.Name) and c.func.id == "Stack" and not c.args and len(c.keywords) == 2
                      and isinstance(root, ast.Name) and root.id == "stackitem"
                      and isinstance(frames, ast.List) and not frames.elts)
                facts["c14_stub_rule"] = ok
    return facts
