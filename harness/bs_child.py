"""Runs under CPython 3.10 / 3.9 (block-stack interpreters): for the corpus of that interpreter
(its own standard library + the generated programs of wm_cases.gen_program) computes the abstract
code of coq/M_BlockStack.v, an (untrusted) block-stack certificate, and what the REAL
stackscope._lowlevel.analyze_with_blocks / currently_exiting_context return there at every
instruction offset; prints one JSON line per code object (kind `bs`).
usage: python -m harness.bs_child <tier> <seed>"""
import dis
import json
import random
import sys
import types
import warnings

MAX_UNITS = 3500


class Conflict(Exception):
    pass


def abstract(co):
    """units[i] = tuple describing code unit i (see unit_coq in wm_cases.bs_coq)"""
    units = []
    for k, ins in enumerate(dis.get_instructions(co)):
        assert ins.offset == 2 * k, (ins.offset, k)
        n = ins.opname
        if n == "EXTENDED_ARG":
            u = ("BExt",)
        elif n in ("SETUP_FINALLY", "SETUP_WITH", "SETUP_ASYNC_WITH"):
            u = ("BSetup", {"SETUP_FINALLY": "WFinally", "SETUP_WITH": "WWith", "SETUP_ASYNC_WITH": "WAsyncWith"}[n],
                 ins.argval // 2)
        elif n == "POP_BLOCK":
            u = ("BPopBlock",)
        elif n == "JUMP_FORWARD":
            u = ("BJumpFwd", ins.argval // 2)
        elif n == "JUMP_ABSOLUTE":
            u = ("BJumpAbs", ins.argval // 2)
        elif ins.opcode in dis.hasjrel:
            u = ("BJrel", ins.argval // 2)
        elif ins.opcode in dis.hasjabs:
            u = ("BJabs", ins.argval // 2)
        elif n in ("RETURN_VALUE", "RAISE_VARARGS", "RERAISE"):
            u = ("BStop",)
        elif n == "LOAD_CONST":
            u = ("BLoadConst", ins.argval is None)
        elif n == "DUP_TOP":
            u = ("BDupTop",)
        elif n == "CALL_FUNCTION":
            u = ("BCallFunction",)
        elif n == "ROT_TWO":
            u = ("BRotTwo",)
        elif n == "YIELD_FROM":
            u = ("BYieldFrom",)
        elif n == "GET_AWAITABLE":
            u = ("BGetAwaitable",)
        elif n == "WITH_EXCEPT_START":
            u = ("BWithExceptStart",)
        else:
            u = ("BOther",)
        units.append(u)
    return units


def nsuccs(u, p, st):
    k = u[0]
    if k == "BSetup":
        return [(p + 1, st + (u[2],))]
    if k == "BPopBlock":
        return [(p + 1, st[:-1])] if st else []
    if k in ("BJrel", "BJabs"):
        return [(u[1], st), (p + 1, st)]
    if k in ("BJumpFwd", "BJumpAbs"):
        return [(u[1], st)]
    if k == "BStop":
        return []
    return [(p + 1, st)]


def certificate(units):
    cert = [None] * len(units)
    cert[0] = ()
    todo = [0]
    while todo:
        p = todo.pop()
        st = cert[p]
        succ = nsuccs(units[p], p, st)
        if st:
            succ = succ + [(st[-1], st[:-1])]
        for q, s in succ:
            if q >= len(units):
                raise Conflict("unit %d: successor %d beyond the end of the code" % (p, q))
            if cert[q] is None:
                cert[q] = s
                todo.append(q)
            elif cert[q] != s:
                raise Conflict("unit %d reached with block stacks %r and %r" % (q, cert[q], s))
    return cert


def observe(co, units):
    from stackscope import _lowlevel as ll
    info = sorted([h // 2, bool(c.is_async)] for h, c in ll.analyze_with_blocks(co).items())
    exits = []
    for p, u in enumerate(units):
        if u[0] == "BExt":
            continue
        frame = types.SimpleNamespace(f_code=co, f_lasti=2 * p)
        with warnings.catch_warnings(record=True) as caught:
            warnings.simplefilter("always")
            try:
                r = ll.currently_exiting_context(frame)
                res = "none" if r is None else ["exit", bool(r.is_async), r.cleanup_offset // 2]
            except Exception as ex:  # noqa: BLE001
                res = "crash"
                sys.stderr.write("currently_exiting_context raised at unit %d of %r: %r\n" % (p, co, ex))
        if res == "none" and any(issubclass(w.category, ll.InspectionWarning) for w in caught):
            res = "warn"
        exits.append([p, res])
    return info, exits


def main():
    tier, seed = sys.argv[1], int(sys.argv[2])
    ver = "%d.%d" % sys.version_info[:2]
    assert sys.version_info[:2] in ((3, 9), (3, 10)), ver
    from . import wm_cases as WC
    rng = random.Random(seed * 7919 + sys.version_info[1])
    idx = WC.stdlib_index()
    pick = rng.sample(range(len(idx)), 12) if tier == "quick" else range(len(idx))
    descs = [{"src": "stdlib", "file": idx[i][0], "path": idx[i][1]} for i in pick]
    for k in range(len(WC.LOOKALIKES)):
        descs.append({"src": "gen", "seed": -(k + 1), "size": 0})
    ngen = 40 if tier == "quick" else 600
    for k in range(ngen):
        descs.append({"src": "gen", "seed": seed * 1000003 + 500000 + k, "size": 4 + (k % 9),
                      "many": (k % 8 == 3) if tier == "quick" else (k % 30 == 3)})
    for d in descs:
        try:
            co, text = WC.load_code(d)
        except SyntaxError:
            continue                        # a generated program this interpreter's grammar rejects
        units = abstract(co)
        if len(units) > MAX_UNITS:
            continue
        obs = {"what": text if len(text) < 1500 else text[:1500], "nunits": len(units)}
        try:
            cert = certificate(units)
        except Conflict as ex:
            obs["machine_error"] = "Conflict: %s" % ex
            cert = None
        if cert is not None:
            info, exits = observe(co, units)
            obs.update(units=units, cert=[None if s is None else list(s) for s in cert], info=info, exits=exits)
        sys.stdout.write(json.dumps(dict(d, _kind="bs", which="bs", ver=ver, pre={"obs": obs})) + "\n")


if __name__ == "__main__":
    main()
