"""Source facts for C06 (extraction is a pure observation), fail-closed:
  c06_resume_sites_allowlisted  every call that could advance / finalise a foreign object
        (.send .throw .close .aclose .asend .athrow .switch, next(), .__next__) in stackscope's
        runtime modules sits in one of the allow-listed functions, which only ever apply it to
        objects stackscope created itself (type discovery helpers, its own iterators);
  c06_module_state_allowlisted  the only module-level state written from inside functions is the
        allow-listed set (glue bookkeeping, the trickery switch, the inspect_frame dispatcher,
        the thread-local option store); registries are written only by register().
"""
import ast
import os

from .common import REPO

FILES = ["_extract.py", "_glue.py", "_lowlevel.py", "_lowlevel_cpython_311.py", "_customization.py",
         "_code_dispatch.py", "_types.py", "_util.py"]
RESUME_ATTRS = {"send", "throw", "close", "aclose", "asend", "athrow", "switch", "__next__"}
# function -> the resume sites it may contain, as a multiset of (method, receiver shape): the names of
# locals do not matter (a rename is not an alarm), an additional site or a different method is
ALLOWED_SITES = {
    ("_glue.py", "glue_builtins"): {("asend", "name"): 1, ("athrow", "name"): 1, ("aclose", "name"): 1,
                                    ("send", "call"): 1, ("close", "name"): 1},
    ("_glue.py", "glue_async_generator"): {("asend", "name"): 1, ("close", "name"): 1},
    ("_lowlevel.py", "_check_trickery_available"): {("send", "name"): 1},
    ("_lowlevel.py", "_parse_varint"): {("next", "name"): 2},
    ("_customization.py", "__next__"): {("next", "selfattr"): 1},
    ("_extract.py", "extract_iter"): {("next", "name"): 1},
    ("_extract.py", "extract_child"): {("next", "name"): 1},
    ("_extract.py", "extract_outermost"): {("next", "call"): 1},
}
ALLOWED_GLOBALS = {("_lowlevel.py", "inspect_frame"), ("_lowlevel.py", "_can_use_trickery")}
ALLOWED_STORES = {("_glue.py", "builtin_glue_pending"), ("_glue.py", "_sys_modules_len_cache"),
                  ("_extract.py", "current_options"), ("_extract.py", "self")}


def _shape(node):
    if isinstance(node, ast.Name):
        return "name"
    if isinstance(node, ast.Call):
        return "call"
    if isinstance(node, ast.Attribute) and isinstance(node.value, ast.Name) and node.value.id == "self":
        return "selfattr"
    return "other"


def compute():
    sites_ok = True
    state_ok = True
    seen_sites = 0
    used = {}
    for fn in FILES:
        path = os.path.join(REPO, "stackscope", fn)
        try:
            tree = ast.parse(open(path).read())
        except Exception:
            return {"c06_resume_sites_allowlisted": False, "c06_module_state_allowlisted": False}
        module_names = set()
        for st in tree.body:
            if isinstance(st, (ast.Assign, ast.AnnAssign)):
                for t in (st.targets if isinstance(st, ast.Assign) else [st.target]):
                    if isinstance(t, ast.Name):
                        module_names.add(t.id)

        def visit(node, funcs):
            nonlocal sites_ok, state_ok, seen_sites
            if isinstance(node, (ast.FunctionDef, ast.AsyncFunctionDef)):
                funcs = funcs + [node.name]
            if isinstance(node, ast.Call):
                recv = None
                if isinstance(node.func, ast.Attribute) and node.func.attr in RESUME_ATTRS:
                    recv = (node.func.attr, _shape(node.func.value))
                elif isinstance(node.func, ast.Name) and node.func.id == "next" and node.args:
                    recv = ("next", _shape(node.args[0]))
                if recv is not None:
                    seen_sites += 1
                    owner = next((f for f in reversed(funcs) if (fn, f) in ALLOWED_SITES), None)
                    if owner is None:
                        sites_ok = False
                    else:
                        k = (fn, owner, recv)
                        used[k] = used.get(k, 0) + 1
                        if used[k] > ALLOWED_SITES[(fn, owner)].get(recv, 0):
                            sites_ok = False
            if isinstance(node, ast.Global) and funcs:
                for n in node.names:
                    if (fn, n) not in ALLOWED_GLOBALS:
                        state_ok = False
            if funcs and isinstance(node, (ast.Assign, ast.AugAssign, ast.AnnAssign, ast.Delete)):
                targets = (node.targets if isinstance(node, (ast.Assign, ast.Delete)) else [node.target])
                for t in targets:
                    base = t
                    while isinstance(base, (ast.Subscript, ast.Attribute)):
                        base = base.value
                    if isinstance(t, (ast.Subscript, ast.Attribute)) and isinstance(base, ast.Name):
                        if base.id in module_names and (fn, base.id) not in ALLOWED_STORES:
                            state_ok = False
            for ch in ast.iter_child_nodes(node):
                visit(ch, funcs)

        visit(tree, [])
    return {"c06_resume_sites_allowlisted": bool(sites_ok and seen_sites >= 8),
            "c06_module_state_allowlisted": bool(state_ok),
            "c06_trim_depth_within_entry": _trim_fact()}


def _trim_fact():
    """the depth to which a RUNNING frame's value stack is read is only ever the depth of an
    exception-table entry that CONTAINS the instruction position (`start <= pos <= end`, start / end
    being the first two fields of the entry being scanned) or 0: reading more slots than that touches
    dead (possibly freed) objects.  Recognised by shape, not by the names of locals."""
    try:
        tree = ast.parse(open(os.path.join(REPO, "stackscope", "_lowlevel_cpython_311.py")).read())
    except Exception:
        return False
    fn = next((n for n in ast.walk(tree) if isinstance(n, ast.FunctionDef) and n.name == "inspect_frame"), None)
    if fn is None:
        return False

    from .snippets import find_trim, find_trim_helper
    found = find_trim(fn)
    helper_form = False
    if found is None:
        th = find_trim_helper(tree, fn)
        if th is None:
            return False
        # extracted helper: `for ...: if start <= pos <= end: return depth` / `return 0`
        _call, _h, scan, hit, default = th
        helper_form = True
        depth_var = None
    else:
        _, scan, depth_var, default = found
    if not (isinstance(scan.target, ast.Tuple) and len(scan.target.elts) >= 4):
        return False
    elts = scan.target.elts
    if not (isinstance(elts[0], ast.Name) and isinstance(elts[1], ast.Name) and isinstance(elts[3], ast.Name)):
        return False
    start, end, depth = elts[0].id, elts[1].id, elts[3].id
    # the only statement of the loop body: `if start <= <pos> <= end: <depth_var> = depth; break`
    if len(scan.body) != 1 or not isinstance(scan.body[0], ast.If) or scan.body[0].orelse:
        return False
    t = scan.body[0].test
    if not (isinstance(t, ast.Compare) and len(t.ops) == 2 and all(isinstance(o, ast.LtE) for o in t.ops)
            and isinstance(t.left, ast.Name) and t.left.id == start and isinstance(t.comparators[0], ast.Name)
            and isinstance(t.comparators[1], ast.Name) and t.comparators[1].id == end):
        return False
    if helper_form:
        ok_hit = len(hit) == 1 and isinstance(hit[0], ast.Return) and isinstance(hit[0].value, ast.Name) and hit[0].value.id == depth
        ok_default = (len(default) == 1 and isinstance(default[0], ast.Return) and isinstance(default[0].value, ast.Constant)
                      and default[0].value.value == 0)
        # the position compared is the helper's second parameter
        pos_ok = len(_h.args.args) == 2 and t.comparators[0].id == _h.args.args[1].arg
        return bool(ok_hit and ok_default and pos_ok)
    ok_body = any(isinstance(x, ast.Assign) and isinstance(x.value, ast.Name) and x.value.id == depth
                  and any(isinstance(tt, ast.Name) and tt.id == depth_var for tt in x.targets) for x in scan.body[0].body)
    ok_else = all(not isinstance(x, ast.Assign) or (isinstance(x.value, ast.Constant) and x.value.value == 0) for x in default)
    # no other store of the depth variable anywhere in the function
    others = [x for x in ast.walk(fn) if isinstance(x, ast.Name) and isinstance(x.ctx, ast.Store) and x.id == depth_var]
    return bool(ok_body and ok_else and len(others) == 2)


if __name__ == "__main__":
    print(compute())
