"""Child process: generate inputs for one property, run the real implementation on them and
write `cases_*.v` (inputs + observed outputs as Gallina literals) plus `meta.json`.

usage: python -m harness.child <module> <tier> <seed> <outdir> [--inputs file.json]

A property module provides
  PROP                      property id
  KINDS                     {kind: dict(imports=str, type=str, mismatch=str, nontrivial=str|None)}
  make_inputs(tier, seed)   iterable of JSON-able descriptors (desc.get("_kind","main") selects the kind)
  run_case(desc)            run the implementation -> JSON-able observation
  coq_case(desc, obs)       Gallina term of the kind's case type (None = not sent to Coq)
optional
  direct_oracle(desc, obs)  property-level oracle on the implementation alone -> None | str
  classify(desc, obs)       small label for the input-distribution table
  extra_legs(tier, seed)    -> dict(evaluations=int, violations=[{what, input}], info={...})
  SHARD                     cases per file (default 250)
"""
from __future__ import annotations

import importlib
import json
import os
import sys
import time
import traceback

from .common import dump_json, ROOT


class _CaseTimeout(BaseException):
    """not an Exception: the `except Exception` guards of the implementation must not swallow it"""


class _watchdog(object):
    """per-case wall-clock limit (SIGALRM, main thread only); a module that arms its own alarm inside
    run_case simply replaces this one for that case"""

    def __init__(self, seconds):
        self.seconds = seconds

    def __enter__(self):
        import signal
        self.old = None
        try:
            def fire(signum, frame):
                raise _CaseTimeout()
            self.old = signal.signal(signal.SIGALRM, fire)
            signal.setitimer(signal.ITIMER_REAL, self.seconds)
        except (ValueError, OSError, AttributeError):
            self.old = None
        return self

    def __exit__(self, *a):
        import signal
        try:
            signal.setitimer(signal.ITIMER_REAL, 0)
            if self.old is not None:
                signal.signal(signal.SIGALRM, self.old)
        except (ValueError, OSError, AttributeError):
            pass
        return False


def _maybe_coverage():
    """VERIF_COVERAGE=<dir>: measure which lines / branches of stackscope this child executes (a development
    aid for finding blind spots of the generators; never set by the registered commands)"""
    d = os.environ.get("VERIF_COVERAGE")
    if not d:
        return
    try:
        import atexit
        import coverage
    except ImportError:
        return
    os.makedirs(d, exist_ok=True)
    cov = coverage.Coverage(data_file=os.path.join(d, ".coverage"), data_suffix=True, branch=True,
                            include=[os.path.join(os.environ.get("VERIF_REPO", "/repo"), "stackscope", "*")])
    cov.start()

    def done():
        cov.stop()
        cov.save()
    atexit.register(done)


def main() -> None:
    _maybe_coverage()
    modname, tier, seed, outdir = sys.argv[1:5]
    seed = int(seed)
    inputs_file = None
    if "--inputs" in sys.argv:
        inputs_file = sys.argv[sys.argv.index("--inputs") + 1]
    os.makedirs(outdir, exist_ok=True)
    mod = importlib.import_module(modname)
    t0 = time.time()
    progress = os.path.join(outdir, "progress.json")

    if inputs_file:
        descs = json.load(open(inputs_file))
        if isinstance(descs, dict):
            descs = descs.get("inputs") or [descs["input"]]
    else:
        descs = []
        corpus = os.path.join(ROOT, "corpus", f"{mod.PROP}.json")
        if os.path.exists(corpus):
            descs.extend(json.load(open(corpus)))
        descs.extend(mod.make_inputs(tier, seed))

    seen = set()
    per_kind = {}
    dist = {}
    direct = []
    unavailable = {}
    samples = []
    evaluated = []
    n_eval = 0
    case_limit = int(os.environ.get("VERIF_CASE_LIMIT", getattr(mod, "CASE_LIMIT", 240)))
    for d in descs:
        key = json.dumps(d, sort_keys=True)
        if key in seen:
            continue
        seen.add(key)
        dump_json(progress, {"current": d, "n": n_eval})
        try:
            with _watchdog(case_limit):
                obs = mod.run_case(d)
        except _CaseTimeout:
            # the implementation did not return on this input (a change can make a loop non-terminating):
            # reported for this input, and the run goes on with the next one
            direct.append({"what": "the implementation did not return within %d s on this input (non-termination?)" % case_limit,
                           "input": d, "observed": {"timeout_s": case_limit}})
            n_eval += 1
            continue
        except BaseException as ex:  # harness or implementation blew up: fail closed
            if getattr(ex, "harness_only", False):
                # the harness can no longer take the source apart (e.g. snippets.SnippetError): this input is
                # not a failing input, the correspondence is unavailable -> reported once, without input
                unavailable.setdefault(repr(ex), {"what": repr(ex), "traceback": traceback.format_exc()[-2000:], "count": 0})["count"] += 1
                n_eval += 1
                continue
            obs = {"harness_error": repr(ex), "traceback": traceback.format_exc()[-2000:]}
            direct.append({"what": "exception escaped while running the implementation on this input: " + repr(ex),
                           "input": d, "observed": obs})
            n_eval += 1
            continue
        n_eval += 1
        evaluated.append(d)
        if hasattr(mod, "direct_oracle"):
            msg = mod.direct_oracle(d, obs)
            if msg:
                direct.append({"what": msg, "input": d, "observed": obs})
        if hasattr(mod, "classify"):
            lab = mod.classify(d, obs)
            for l in (lab if isinstance(lab, (list, tuple)) else [lab]):
                dist[l] = dist.get(l, 0) + 1
        term = mod.coq_case(d, obs)
        if isinstance(term, list):      # several Coq cases from one implementation run
            for t in term:
                per_kind.setdefault(d.get("_kind", "main"), []).append((d, obs, t))
        elif term is not None:
            per_kind.setdefault(d.get("_kind", "main"), []).append((d, obs, term))
        if len(samples) < 3:
            samples.append({"input": d, "observed": obs})

    # repeat leg: a sample of the descriptors is run a second time at the end of the process, in reverse
    # order, i.e. after every other case has had the chance to leave something behind in a cache, memo,
    # default argument or module-level variable of the implementation.  The second observation goes through
    # the same oracle and becomes one more Coq case, so a result that depends on what ran before shows up
    # as a model mismatch with this input (marked _repeat) as the replay.
    n_rep = 0
    if not inputs_file and not getattr(mod, "NO_REPEAT", False):
        cand = [d for d in evaluated if "pre" not in d and d.get("_kind") != "live"
                and (not hasattr(mod, "repeatable") or mod.repeatable(d))]
        want = int(os.environ.get("VERIF_REPEAT", "150" if tier == "quick" else "1000"))
        stride = max(1, len(cand) // max(1, want))
        for d in reversed(cand[::stride][:want]):
            d2 = dict(d, _repeat=1)
            dump_json(progress, {"current": d2, "n": n_eval})
            try:
                with _watchdog(case_limit):
                    obs = mod.run_case(d)
            except _CaseTimeout:
                direct.append({"what": "the implementation did not return within %d s when this input was run a second time "
                                       "in the same process" % case_limit, "input": d2, "observed": {"timeout_s": case_limit}})
                n_eval += 1
                continue
            except BaseException as ex:
                if getattr(ex, "harness_only", False):
                    continue
                direct.append({"what": "exception escaped when this input was run a second time in the same process: " + repr(ex),
                               "input": d2, "observed": {"harness_error": repr(ex), "traceback": traceback.format_exc()[-2000:]}})
                n_eval += 1
                continue
            n_eval += 1
            n_rep += 1
            if hasattr(mod, "direct_oracle"):
                msg = mod.direct_oracle(d, obs)
                if msg:
                    direct.append({"what": "(second run in the same process) " + msg, "input": d2, "observed": obs})
            term = mod.coq_case(d, obs)
            for t in (term if isinstance(term, list) else [term] if term is not None else []):
                per_kind.setdefault(d.get("_kind", "main"), []).append((d2, obs, t))
        dist["repeated_at_end_of_process"] = n_rep

    shard = getattr(mod, "SHARD", 250)
    files = []
    desc_table, desc_index = [], {}
    for kind, rows in per_kind.items():
        k = mod.KINDS[kind]
        for s in range(0, len(rows), shard):
            part = rows[s:s + shard]
            name = f"cases_{kind}_{s // shard}.v"
            with open(os.path.join(outdir, name), "w") as fh:
                fh.write(k["imports"] + "\n")
                fh.write("Import ListNotations.\nOpen Scope list_scope.\n")
                fh.write(f"Definition cases : list ({k['type']}) := [\n")
                fh.write(";\n".join(t for _, _, t in part))
                fh.write("\n].\n")
                fh.write(f"Eval vm_compute in ({k['mismatch']} cases).\n")
                if k.get("nontrivial"):
                    fh.write(f"Eval vm_compute in ({k['nontrivial']} cases).\n")
            # descriptors are stored once (a descriptor that yields many Coq cases -- the live kinds -- would
            # otherwise be written out once per case: gigabytes); cases refer to them by index
            refs = []
            for d, o, _ in part:
                key = id(d), id(o)
                if key not in desc_index:
                    desc_index[key] = len(desc_table)
                    desc_table.append({"input": d, "observed": o})
                refs.append(desc_index[key])
            files.append({"file": name, "kind": kind, "has_nontrivial": bool(k.get("nontrivial")), "cases": refs})

    extra = None
    if hasattr(mod, "extra_legs") and not inputs_file:
        try:
            extra = mod.extra_legs(tier, seed)
        except BaseException as ex:
            extra = {"evaluations": 0, "violations": [
                {"what": "extra leg crashed: " + repr(ex), "input": traceback.format_exc()[-2000:]}], "info": {}}

    dump_json(os.path.join(outdir, "meta.json"), {
        "property": mod.PROP, "tier": tier, "seed": seed,
        "evaluations": n_eval, "files": files, "descs": desc_table, "direct_violations": direct,
        "correspondence_unavailable": list(unavailable.values()),
        "input_distribution": dist, "samples": samples, "extra": extra,
        "rule": getattr(mod, "RULE", ""), "wall_s": time.time() - t0,
    })


if __name__ == "__main__":
    main()
