"""C04 -- running-stack extraction and StackSlice slicing equal slices of the true stack.

Correspondence: real call chains (plain functions, running generators and coroutines, frames in
modules named like stackscope's own, singledispatch wrappers) split into nested greenlets; from
the innermost frame the real extract(StackSlice(outer, inner, limit)) / extract_since /
extract_until are called for the cross product of anchors (None, every frame of the thread's true
stack, frames of other threads, of a suspended generator, of a suspended sibling greenlet) and
limits (None, -1, 0, 1..n+1, frames).  The live interpreter state is abstracted to a M_Slice.world
(f_back chains, greenlet parents, sys._current_frames() order, module names of the frames between
the API and get_true_caller as recorded by a profile hook) and Coq evaluates the model on it.
Direct oracle: manual f_back / greenlet.parent walk + plain list arithmetic.
py_slice / del_slice are compared with real Python slicing separately."""
from __future__ import annotations

import random

from .common import cbool, clist, copt, cstr, cZ

PROP = "C04"
SHARD = 8
_IMP = "From Coq Require Import ZArith String.\nFrom SS Require Import Base M_Slice."
KINDS = {
    "main": dict(imports=_IMP, type="slice_case", mismatch="mismatches", nontrivial="count_nontrivial"),
    "pyslice": dict(imports=_IMP, type="pyslice_case", mismatch="pyslice_mismatches", nontrivial=None),
    "hist": dict(imports=_IMP, type="hist_case", mismatch="hist_mismatches", nontrivial="hist_nontrivial"),
}
RULE = ("call chains of 1..7 links over {plain, generator, coroutine, stackscope-named modules, singledispatch wrapper} "
        "x greenlet splits (0..3 nested greenlets, incl. a never-started parent) x base {fresh thread, main thread}; "
        "per stack the full cross product outer x inner x limit (thorough) or a seeded sample of it (quick), over "
        "anchors {None, every frame of the true stack, 3 frames of each other thread, suspended generator frame, "
        "2 frames of a suspended sibling greenlet} and limits {None,-1,0,1..n+1}; extract_until additionally with "
        "every frame as limit. one Coq case = one live stack + a batch of queries; non-trivial = some query of the "
        "batch yields >= 2 frames or an error; StackSlice objects are built by keyword, positionally "
        "(StackSlice(o), (o, i), (o, i, n)) and mixed, rotating per query. histories (kind hist): a worker greenlet's loop frame / a generator frame "
        "inside a child greenlet extracts in 2..4 rounds from the SAME frame while the parent re-enters it from call depths "
        "0..4 / different callers advance it (driver in the main or in a nested greenlet), each round compared with the "
        "model and the oracle on the stack as it is then. py_slice/del_slice: exhaustive lists of length 0..6 (quick 0..4), "
        "bounds in {None,-8..8}, steps +-1..3")
CONFIG = dict(
    coq=["C04"], level="proof",
    claim=("Coq theorems (all worlds: segmentations into greenlets incl. never-started parents, anchors, limits) that the "
           "executable model of unwrap_stackslice/get_true_caller/extract_since/extract_until returns exactly the contiguous "
           "sub-list outer..inner of the flattened true stack trimmed at the documented side (also for outer on another "
           "thread), tied to the code by differential comparison inside Coq on real stacks (cross product of anchors and "
           "limits) plus a direct f_back/parent-walk oracle."),
    design_ref="DESIGN.md section 5 C04",
    trusted_base=["model M_Slice.v (unwrap_stackslice, get_true_caller, py_slice) is hand-written",
                  "harness/stackgen.py abstracts the live interpreter state (f_back chains, greenlet parents, "
                  "sys._current_frames() order, module names) to M_Slice.world; f_back is assumed acyclic (CPython)"],
    assumptions=["CPython (sys.implementation.name == 'cpython'); the PyPy branches are not modelled",
                 "frames are pairwise distinct objects (NoDup) and the stack does not change during one extraction"],
    unproved_legs=[],
    explanation=("Findings F18 (limit with outer on another thread kept the inner side) and F19 (never-started parent "
                 "greenlet cut the stack) were found by this check and are fixed in /repo (cc1578e, 048785c); both shapes are "
                 "part of the generated inputs and of the direct oracle, so a recurrence is a VIOLATION."),
    timeout={"quick": 900, "thorough": 5400},
    NOTES=("limits <= 0 and anchors on suspended frames are part of the correspondence (the model follows Python's slice "
           "semantics) but outside the theorems' hypotheses."),
)

LINKS_USER = "pgc"
LINKS_ALL = "pgcmtsxn"


def chains(tier, rng):
    out = ["p", "g", "c", "m", "pm", "mm", "pdm", "dm", "pt", "ps", "px", "pn", "pmp", "gm", "cm", "cc", "gc", "cg",
           "Gp", "pGp", "pGpGp", "GpGpGp", "pGm", "Gm", "pGdm", "gGpc", "cGpg", "pUp", "UpGp", "GpUp", "pUm",
           "ppGppGpp", "pGppm", "ccGpcc", "ggGpgg"]
    n = 12 if tier == "quick" else 45
    for _ in range(n):
        ln = rng.randint(1, 7)
        s, prev_plain = "", True
        for j in range(ln):
            k = rng.choice(LINKS_USER * 3 + LINKS_ALL)
            mods = ""
            if k in "pmtsxn":
                r = rng.random()
                if r < 0.22:
                    mods = "G"
                elif r < 0.26:
                    mods = "U"
                elif r < 0.34:
                    mods = "d"
            s += mods + k
        out.append(s)
    return out


def make_inputs(tier, seed):
    rng = random.Random(seed * 7919 + 4)
    quick = tier == "quick"
    for ci, ch in enumerate(chains(tier, rng)):
        base = "main" if ci % 7 == 3 else "thread"
        sig = {}
        if quick:
            yield dict(chain=ch, api="slice", base=base, sel={"mode": "sample", "k": 500, "seed": seed}, **sig)
            yield dict(chain=ch, api="until", base=base, sel={"mode": "sample", "k": 150, "seed": seed}, **sig)
        else:
            parts = 6
            for i in range(parts):
                yield dict(chain=ch, api="slice", base=base, sel={"mode": "part", "i": i, "of": parts}, **sig)
            yield dict(chain=ch, api="until", base=base, sel=None, **sig)
        yield dict(chain=ch, api="since", base=base, sel=None, **sig)
    # histories: the same frame of the same (non-main) greenlet extracts again after the enclosing
    # stack has changed (parent re-enters the worker from another depth / the generator frame is
    # resumed by another caller); caches keyed on frame identity are the bug class
    hseqs = [[0, 2, 0], [1, 3], [2, 0, 1, 0]] if quick else [[0, 2, 0], [1, 3], [2, 0, 1, 0], [0, 0], [3, 1, 2], [0, 4, 0, 4]]
    for hist in ("worker", "gen"):
        for depths in hseqs:
            for nest in (0, 1):
                for wdepth in ((0, 2) if quick else (0, 1, 2)):
                    if quick and (nest + wdepth + len(depths) + seed) % 2:
                        continue
                    yield dict(_kind="hist", hist=hist, depths=depths, nest=nest, wdepth=wdepth, api="since",
                               chain="hist", base="thread", sel=None)
                    yield dict(_kind="hist", hist=hist, depths=depths, nest=nest, wdepth=wdepth, api="slice",
                               chain="hist", base="thread", sel={"mode": "sample", "k": 150 if quick else 600, "seed": seed})
                    if not quick:
                        yield dict(_kind="hist", hist=hist, depths=depths, nest=nest, wdepth=wdepth, api="until",
                                   chain="hist", base="thread", sel={"mode": "sample", "k": 300, "seed": seed})
    # python slicing: one case = (length, start) x every stop x every step, plus del l[start:stop]
    top = 4 if quick else 6
    for n in range(top + 1):
        for a in BOUNDS:
            yield {"_kind": "pyslice", "n": n, "a": a}


BOUNDS = [None] + list(range(-8, 9))
STEPS = (-3, -2, -1, 1, 2, 3)


# ------------------------------------------------------------------ running one case
def _ctx_class():
    from . import stackgen

    class C(stackgen.Ctx):
        def __init__(self, desc):
            super().__init__(desc["chain"])
            self.desc = desc

        def make_queries(self, n):
            ss = self.stackscope
            A = self.anchors()
            L = [None, -1, 0] + list(range(1, n + 2))
            api = self.desc["api"]
            qs = []
            if api == "slice":
                SS = ss.StackSlice
                k = 0
                for fo, io in A:
                    for fi, ii in A:
                        for l in L:
                            # the public constructor is StackSlice(outer, inner, limit): a share of the
                            # slices is built positionally / mixed instead of by keyword
                            k += 1
                            styles = [lambda: SS(outer=fo, inner=fi, limit=l), lambda: SS(fo, fi, l),
                                      lambda: SS(fo, fi, limit=l), lambda: SS(fo, inner=fi, limit=l),
                                      lambda: SS(limit=l, inner=fi, outer=fo)]
                            if l is None:
                                styles.append(lambda: SS(fo, fi))
                                if fi is None:
                                    styles.append(lambda: SS(fo))
                            try:
                                sl = styles[(k * 7 + len(A)) % len(styles)]()
                            except Exception as ex:      # the documented constructor call is refused
                                qs.append((lambda e: e, (ex,), {}, ["slice", io, ii, l]))
                                continue
                            qs.append((ss.extract, (sl,), {"with_contexts": False}, ["slice", io, ii, l]))
            elif api == "since":
                for fo, io in A:
                    qs.append((ss.extract_since, (fo,), {"with_contexts": False}, ["since", io]))
                # untyped arguments: the isinstance check of extract_since (a frame or None, nothing else)
                for fo, io in A[:2]:
                    qs.append((ss.extract_since, (fo,), {"with_contexts": False}, ["sincev", ["none"] if fo is None else ["frame", io]]))
                for val, tag in ((1, ["int", 1]), (True, ["bool", True]), ("x", ["other"]), (2.5, ["other"]), (object(), ["other"])):
                    qs.append((ss.extract_since, (val,), {"with_contexts": False}, ["sincev", tag]))
            else:
                for fi, ii in A[1:]:
                    for l in L:
                        qs.append((ss.extract_until, (fi,), {"limit": l, "with_contexts": False}, ["untiln", ii, l]))
                    for fl, il in A[1:]:
                        qs.append((ss.extract_until, (fi,), {"limit": fl, "with_contexts": False}, ["untilf", ii, il]))
                    # untyped limits: frame | int (bool included) | None, anything else is a TypeError
                    for val, tag in ((None, ["none"]), (2, ["int", 2]), (True, ["bool", True]), (False, ["bool", False]),
                                     ("3", ["other"]), (2.0, ["other"]), ([1], ["other"])):
                        qs.append((ss.extract_until, (fi,), {"limit": val, "with_contexts": False}, ["untilv", ii, tag]))
                    fl, il = A[-1]
                    qs.append((ss.extract_until, (fi,), {"limit": fl, "with_contexts": False}, ["untilv", ii, ["frame", il]]))
            key = "%s|%s|%s" % (self.desc["chain"], api, self.desc["base"])
            self.queries = stackgen.select(qs, self.desc.get("sel"), key)

        def encode(self, r):
            if isinstance(r, BaseException):
                return ["R", type(r).__name__]
            fr = [self.ids.get(id(f.pyframe), 3999) for f in r.frames]
            e = r.error
            if r.leaf is not None:
                return ["X", fr, "leaf"]
            if e is None:
                return ["F", fr]
            if isinstance(e, RuntimeError) and "Couldn't find where" in str(e):
                return ["E", fr]
            if isinstance(e, AssertionError):
                return ["A", fr]
            return ["X", fr, type(e).__name__]
    return C


def run_case(desc):
    kind = desc.get("_kind", "main")
    if kind == "pyslice":
        rows = []
        for b in BOUNDS:
            l = list(range(desc["n"]))
            sl = [[st, l[desc["a"]:b:st]] for st in STEPS]
            del l[desc["a"]:b]
            rows.append([b, sl, l])
        return rows
    if kind == "hist":
        return run_hist(desc)
    c = _ctx_class()(desc)
    c.run(desc["base"])
    return _obs(c)


def _obs(c):
    internal = c.internal_chain()
    cur = [(500 + k, m, sd) for k, (_, m, sd) in enumerate(internal)] + c.frame_names(c.segs[0])
    return {
        "cur": cur, "internal": [x[0] for x in internal],
        "parent_active": c.parent_active,
        "parents": [[c.ids[id(f)] for f in seg] for seg in c.segs[1:]],
        "threads": [[me, [c.ids[id(f)] for f in ch]] for me, ch in c.threads],
        "chains": [[c.ids[id(f)] for f in ch] for ch in c.other_chains],
        "n": len(c.full), "tc": c.tc,
        "names": [f.f_code.co_name for f in c.full],
        "queries": [[q[3], c.encode(r)] for q, r in zip(c.queries, c.results)],
        "problems": c.problems,
    }


HIST_SRC = {
    "worker": """def loop(ctx):
    while ctx.rounds_left():
        ctx.prepare(sys._getframe(0))
        for q in ctx.queries:
            ctx.begin(q)
            try:
                r = q[0](*q[1], **q[2])
            except BaseException as e:
                r = e
            ctx.end(q, r)
        ctx.finish_round()
        ctx.driver.switch()
""",
    "gen": """def loop(ctx):
    while ctx.rounds_left():
        ctx.prepare(sys._getframe(0))
        for q in ctx.queries:
            ctx.begin(q)
            try:
                r = q[0](*q[1], **q[2])
            except BaseException as e:
                r = e
            ctx.end(q, r)
        ctx.finish_round()
        yield
""",
}


def _rec(k, f):
    if k == 0:
        return f()
    return _rec(k - 1, f)


def run_hist(desc):
    """Rounds of extractions issued from ONE frame (the loop frame of a worker greenlet, or a
    generator frame running inside a child greenlet); between rounds the enclosing stack changes."""
    import sys
    C = _ctx_class()

    class H(C):
        def __init__(self, desc):
            super().__init__(dict(desc, chain="p"))
            self.desc = desc
            self.rounds = []
            glb = {"sys": sys, "__name__": "vuser.hist"}
            exec(compile(HIST_SRC[desc["hist"]], "<hist:%s>" % desc["hist"], "exec"), glb)
            self.loop = glb["loop"]

        def rounds_left(self):
            return len(self.rounds) < len(self.desc["depths"])

        def finish_round(self):
            self.rounds.append(_obs(self))
            self.results, self.records = [], []

        def body(self):
            g = self.greenlet
            depths = self.desc["depths"]
            wdepth = self.desc["wdepth"]
            if self.desc["hist"] == "worker":
                self.driver = g.getcurrent()
                w = g.greenlet(lambda: _rec(wdepth, lambda: self.loop(self)))
                for d in depths:
                    _rec(d, w.switch)
                w.switch()                      # let the loop run off its end
            else:
                def inner():
                    it = self.loop(self)
                    _rec(wdepth, lambda: [_rec(d, lambda: next(it)) for d in depths])
                    next(it, None)
                g.greenlet(inner).switch()

        def entry(self):
            self.setup_foreign()
            try:
                if self.desc["nest"]:
                    self.greenlet.greenlet(self.body).switch()
                else:
                    self.body()
            finally:
                self.teardown_foreign()
    h = H(desc)
    h.run(desc["base"])
    return {"rounds": h.rounds}


# ------------------------------------------------------------------ Gallina
def _onat(x):
    return copt(None if x is None else str(x))


def _oz(x):
    return copt(None if x is None else cZ(x))


def _world(obs):
    cur = clist("Build_cframe %d %s%%string %s" % (i, cstr(m), cbool(sd)) for i, m, sd in obs["cur"])
    nl = lambda l: clist(str(x) for x in l)
    return "(Build_world %s %s %s %s)" % (
        cur, clist(nl(p) for p in obs["parents"]),
        clist("(%s, %s)" % (cbool(me), nl(ch)) for me, ch in obs["threads"]),
        clist(nl(ch) for ch in obs["chains"]))


BOGUS = "AOk (SFrames [3999])"


def _api(q):
    if q[0] == "slice":
        return "ASlice %s %s %s" % (_onat(q[1]), _onat(q[2]), _oz(q[3]))
    if q[0] == "since":
        return "ASince %s" % _onat(q[1])
    if q[0] == "untiln":
        return "AUntilN %d %s" % (q[1], _oz(q[2]))
    if q[0] == "sincev":
        return "ASinceV %s" % _pyarg(q[1])
    if q[0] == "untilv":
        return "AUntilV %d %s" % (q[1], _pyarg(q[2]))
    return "AUntilF %d %d" % (q[1], q[2])


def _pyarg(t):
    if t[0] == "none":
        return "PNone"
    if t[0] == "int":
        return "(PInt %s)" % cZ(t[1])
    if t[0] == "bool":
        return "(PBool %s)" % cbool(t[1])
    if t[0] == "frame":
        return "(PFrame %d)" % t[1]
    return "POther"


def _res(r):
    fr = clist(str(x) for x in r[1]) if r[0] != "R" else ""
    if r[0] == "F":
        return "AOk (SFrames %s)" % fr
    if r[0] == "E":
        return "AOk (SError %s)" % fr
    if r[0] == "A":
        return "AOk SAssert" if not r[1] else BOGUS
    if r[0] == "R":
        return "ARaised" if r[1] == "RuntimeError" else ("ATypeError" if r[1] == "TypeError" else BOGUS)
    return BOGUS


def coq_case(desc, obs):
    kind = desc.get("_kind", "main")
    if kind == "pyslice":
        nl = lambda l: clist(str(x) for x in l)
        rows = clist("(%s, %s, %s)" % (_oz(b), clist("(%s, %s)" % (cZ(st), nl(r)) for st, r in sl), nl(d))
                     for b, sl, d in obs)
        return "(%s, %s,\n %s)" % (nl(range(desc["n"])), _oz(desc["a"]), rows)
    if kind == "hist":
        return clist(_case(o) for o in obs["rounds"])
    return _case(obs)


def _case(obs):
    qs = clist("(%s, %s)" % (_api(q), _res(r)) for q, r in obs["queries"])
    return "(%s,\n %s)" % (_world(obs), qs)


# ------------------------------------------------------------------ direct oracle (property text, no model)
def _expected(obs, q):
    """expected frame ids per the property for queries inside its quantifier, else None"""
    tc = obs["tc"]
    if tc is None:
        return None
    ts = list(range(tc + 1))          # ids are positions in the flattened true stack

    def cut(o, i, l):
        if o is not None and i is None and 100 <= o < 200 and (l is None or l >= 1):
            # outer on another thread (F18): that thread's frames from outer inward, limit keeps the outer side
            hits = [ch for me, ch in obs["threads"] if not me and o in ch]
            if len(hits) != 1:
                return None
            sub = hits[0][:hits[0].index(o) + 1][::-1]
            return sub if l is None else sub[:l]
        if (o is not None and o not in ts) or (i is not None and i not in ts):
            return None
        lo = 0 if o is None else o
        hi = tc if i is None else i
        if lo > hi or (l is not None and l < 1):
            return None
        sub = ts[lo:hi + 1]
        if l is not None and len(sub) > l:
            sub = sub[:l] if (i is None and o is not None) else sub[len(sub) - l:]
        return sub
    if q[0] == "slice":
        return cut(q[1], q[2], q[3])
    if q[0] == "since":
        return cut(q[1], None, None)
    if q[0] == "untiln":
        return cut(None, q[1], q[2])
    if q[0] == "untilf":
        # only limits reachable by f_back: same greenlet segment, outward of inner
        i, lim = q[1], q[2]
        if i not in ts or lim not in ts or lim > i:
            return None
        seg_start, pos = 0, 0
        bounds = []
        for seg in reversed([obs["cur_user"]] + obs["parents"]):
            bounds.append((pos, pos + len(seg) - 1))
            pos += len(seg)
        for a, b in bounds:
            if a <= i <= b:
                return cut(lim, i, None) if a <= lim else None
    return None


def direct_oracle(desc, obs):
    kind = desc.get("_kind", "main")
    if kind == "hist":
        for rnd, o in enumerate(obs["rounds"]):
            msg = _oracle_obs(o)
            if msg:
                return ("round %d of %d (same %s frame, enclosing stack re-entered at depth %d; stack now %r): %s"
                        % (rnd + 1, len(obs["rounds"]), desc["hist"], desc["depths"][rnd], o["names"], msg))
        if len(obs["rounds"]) != len(desc["depths"]):
            return "history ended after %d of %d rounds" % (len(obs["rounds"]), len(desc["depths"]))
        return None
    if kind != "main":
        return None
    return _oracle_obs(obs)


def _oracle_obs(obs):
    if obs["problems"]:
        return "harness self-check failed: " + "; ".join(obs["problems"])
    o2 = dict(obs, cur_user=[i for i, _, _ in obs["cur"] if i < 500])
    for q, r in obs["queries"]:
        exp = _expected(o2, q)
        if exp is not None and r != ["F", exp]:
            names = obs["names"]
            return ("%r returned %r, the true stack slice is %r (%s)" %
                    (q, r, exp, [names[k] if k < len(names) else "<frame %d of another thread>" % k for k in exp]))
        if r[0] in ("F", "E") and any(500 <= x < 3999 for x in r[1]):
            return "%r returned one of stackscope's own frames: %r" % (q, r)
    return None


def classify(desc, obs):
    if desc.get("_kind", "main") == "hist":
        return ["hist:" + desc["hist"], "hist:api=" + desc["api"], "hist:rounds=%d" % len(obs["rounds"]),
                "hist:segments=%d" % (1 + len(obs["rounds"][0]["parents"])),
                "hist:distinct-stacks=%d" % len({tuple(o["names"]) for o in obs["rounds"]})]
    if desc.get("_kind", "main") != "main":
        return [desc["_kind"]]
    labs = ["api:" + desc["api"], "segments=%d" % (1 + len(obs["parents"])), "base:" + desc["base"],
            "stack=%d" % (obs["n"] // 4 * 4)]
    kinds = {r[0] for _, r in obs["queries"]}
    labs += ["res:" + k for k in sorted(kinds)]
    if not obs["parent_active"] and obs["parents"]:
        labs.append("unstarted-parent")
    return labs


def extra_legs(tier, seed):
    """Targeted probes of the two shapes of the fixed findings F18 / F19 (a recurrence is a violation)."""
    C = _ctx_class()
    viol = []
    n = 0
    c2 = C(dict(chain="pp", api="slice", base="thread", sel=None)).run("thread")
    for q, r in zip(c2.queries, c2.results):
        tag, o, i, l = q[3]
        if i is None and o is not None and 100 <= o < 200 and l is not None and l >= 1:
            n += 1
            enc = c2.encode(r)
            if enc[0] != "F" or not enc[1] or enc[1][0] != o or len(enc[1]) > l:
                viol.append({"what": "F18 shape: StackSlice(outer=<frame of another thread>, limit=%d) returned %r, "
                                     "must start with outer %d and keep the frames nearest it" % (l, enc, o),
                             "input": {"query": q[3]}})
                break
    c3 = C(dict(chain="pUp", api="since", base="thread", sel=None)).run("thread")
    enc = c3.encode(c3.results[0])
    n += 1
    if enc != ["F", list(range((c3.tc or 0) + 1))]:
        viol.append({"what": "F19 shape: extract_since(None) inside a greenlet whose parent was never started returned %r, "
                             "the true stack is %r" % (enc, list(range((c3.tc or 0) + 1))), "input": {"chain": "pUp"}})
    return dict(evaluations=n, violations=viol, info={"F18_F19_probes": n}, known_reproduced=[])
