"""Synthetic hook tables for extract_iter (shared by C10, C05, C16): generation, execution of
the real implementation on them, and printing as Gallina literals of M_Frames.

Descriptor (JSON):
  nf, no                       number of frames / objects
  frames  {f: ["plain"] | ["genof", o] | ["samecode", f0]}   how the real python frame is obtained;
              ["samecode", f0]: a second live frame of the SAME function (code object) as plain frame f0 < f.
              elaborate_frame dispatches on the code object, so both frames share ONE hook row: the row of
              the representative code_rep(f) (= f0); see eff_elab.  Frames stay distinct ids in the model.
  unwrap  {o: ["none"] | ["one", item] | ["seq", [item|null...], "tuple"|"list"]
              | ["iter", [item|null...], raises] | ["raise"] | ["gen", f_own, item|null]
              | ["gen2", f_own, o1]}   (a second instance of the generator function of "gen" object o1 > o:
                                        same code object, same delegation target, own frame f_own)
  elab    {f: [kind, payload, prehide]}  kind in none|seq|one|raise ; payload items are
              ["I", item] | ["N"] (the next_inner argument) | ["Z"] (None)
          "iter": a @yields_frames hook whose iterator yields the entries in order (null = it yields None, an
          absent link, legal at every position) and then stops or raises.  Abstraction to the model: a yielded
          None contributes nothing, exactly like a None entry of a returned tuple/list, so the model input is
          UIter over the non-null entries (c_cfg).  Each yielded None still costs one next() call, so null
          entries are only generated where no faults are injected (gen_case(iter_none=True), C10).
  attr    {o: {"wref": bool}}   ("gen" objects are real generators: wref, gent, own frame)
  cust    {f: {"hide": b, "hide_line": b, "prune": b, "form": "target"|"decorator"}}   (optional) the hook row of
              (representative) frame f is installed through customize(target, elaborate=hook, hide=, hide_line=,
              prune=) / @customize(...) instead of elaborate_frame.register; a row of kind "none" then means "no
              elaborate= argument".  Model row: M_Frames.customized hide prune (user row) -- user result unless it
              is None, else PRUNE iff prune; without a user hook the hide flag is the hide argument.
  ctxs    {f: ["ok", [cid...]] | ["raise"]}        fill {cid: ["ok", [item...]] | ["raise"]}
  faults  [tick...]   with_ctx bool   root item   mode "extract"|"outermost"
  item = ["F", f] | ["O", o]
"""
from __future__ import annotations

import random
import sys

from .common import cbool, clist, copt

IMPORTS = "From SS Require Import Base M_Frames."


class Boom(Exception):
    def __init__(self, kind, ident):
        super().__init__(kind, ident)
        self.kind, self.ident = kind, ident


# ----------------------------------------------------------------- frames that share a code object
def code_rep(case, f):
    """Frame id whose elab row is the hook of f's code object."""
    fr = case["frames"].get(str(f), ["plain"])
    if fr[0] == "samecode":
        return fr[1]
    if fr[0] == "genof":
        u = case["unwrap"].get(str(fr[1]))
        if u and u[0] == "gen2":
            return case["unwrap"][str(u[2])][1]
    return f


def eff_elab(case, f):
    return case["elab"].get(str(code_rep(case, f)), ["none", None, True])


def acyclic(case):
    """The item graph (unwrap results incl. a generator's own frame, effective elaborate payloads) has
    no cycle.  The rank order of gen_case does not cover the own frame of a generator object."""
    edges = {}
    for o, sp in case["unwrap"].items():
        k = ("O", int(o))
        if sp[0] == "one":
            edges.setdefault(k, []).append(tuple(sp[1]))
        elif sp[0] in ("seq", "iter"):
            edges.setdefault(k, []).extend(tuple(i) for i in sp[1] if i)
        elif sp[0] in ("gen", "gen2"):
            tgt = sp[2] if sp[0] == "gen" else case["unwrap"][str(sp[2])][2]
            edges.setdefault(k, []).append(("F", sp[1]))
            if tgt:
                edges[k].append(tuple(tgt))
    for f in range(case["nf"]):
        sp = eff_elab(case, f)
        pl = [sp[1]] if sp[0] == "one" else (sp[1] if sp[0] == "seq" else [])
        edges.setdefault(("F", f), []).extend(tuple(r[1]) for r in pl if r[0] == "I")
    state = {}

    def visit(k):
        if state.get(k) == 1:
            return False
        if state.get(k) == 2:
            return True
        state[k] = 1
        ok = all(visit(x) for x in edges.get(k, []))
        state[k] = 2
        return ok
    return all(visit(k) for k in list(edges))


def share_code(case, p_same=0.35, p_gen2=0.5):
    """Post-processing of a generated case (own deterministic RNG, the caller's stream is untouched):
    make two plain frames instances of one function, and a second generator instance of one generator
    function.  The shared hook row is the row of the higher-ranked frame, so the table stays rank-ordered."""
    import json
    rng = random.Random(json.dumps(case, sort_keys=True))
    nf = case["nf"]
    plain = [f for f in range(nf) if case["frames"][str(f)] == ["plain"]]
    used = set()
    if len(plain) >= 2 and rng.random() < p_same:
        f0, f = sorted(rng.sample(plain, 2))
        case["frames"][str(f)] = ["samecode", f0]
        if str(f) in case["elab"]:
            case["elab"][str(f0)] = case["elab"][str(f)]
        else:
            case["elab"].pop(str(f0), None)
        used |= {f0, f}
    gens = sorted(int(o) for o, sp in case["unwrap"].items() if sp[0] == "gen")
    if gens and rng.random() < p_gen2:
        o1 = rng.choice(gens)
        f1 = case["unwrap"][str(o1)][1]
        cands_o = [o for o in range(o1) if case["unwrap"].get(str(o), ["none"])[0] not in ("gen", "gen2")]
        cands_f = [f for f in range(nf) if case["frames"][str(f)] == ["plain"] and f not in used]
        if cands_o and cands_f:
            o2, f2 = rng.choice(cands_o), rng.choice(cands_f)
            case["unwrap"][str(o2)] = ["gen2", f2, o1]
            case["frames"][str(f2)] = ["genof", o2]
            case["attr"][str(o2)] = {"wref": True}
            hi = str(max(f1, f2))
            if hi in case["elab"]:
                case["elab"][str(f1)] = case["elab"][hi]
            else:
                case["elab"].pop(str(f1), None)
            # let the delegation target of o1 unwrap to the RAW frame of the other instance: a frame that runs
            # o1's code, is reached under origin o1, and is not o1's own frame (origin must stay None)
            tgt = case["unwrap"][str(o1)][2]
            if tgt and tgt[0] == "O" and rng.random() < 0.7:
                tsp = case["unwrap"].get(str(tgt[1]), ["none"])
                if tsp[0] in ("seq", "iter") and f2 > tgt[1]:
                    tsp[1].insert(rng.randrange(len(tsp[1]) + 1), ["F", f2])
    return case


def add_customize(case, p=0.3):
    """Post-processing: install a share of the hook rows through customize() with random flag combinations
    (own deterministic RNG).  The bare next_inner as user result only with prune=False (see M_Frames.customized)."""
    import json
    rng = random.Random("customize:" + json.dumps(case, sort_keys=True))
    cust = {}
    for f in range(case["nf"]):
        if code_rep(case, f) != f or rng.random() >= p:
            continue
        row = case["elab"].get(str(f), ["none", None, True])
        prune = rng.random() < 0.4
        if row[0] == "one" and row[1][0] == "N":
            prune = False
        cust[str(f)] = {"hide": rng.random() < 0.5, "hide_line": rng.random() < 0.5, "prune": prune,
                        "form": rng.choice(["target", "decorator"])}
    case["cust"] = cust
    return case


def sprinkle_iter_none(unwrap, p=0.6):
    """Insert None entries into iterator results at random positions (first, middle, last, several); own
    deterministic RNG so that the caller's random stream is untouched."""
    import json
    rng = random.Random("iter-none:" + json.dumps(unwrap, sort_keys=True))
    for sp in unwrap.values():
        if sp[0] == "iter" and rng.random() < p:
            for _ in range(rng.choice([1, 1, 2, 3])):
                sp[1].insert(rng.randrange(len(sp[1]) + 1), None)


# ----------------------------------------------------------------- generation
def gen_case(rng: random.Random, nf=5, no=5, *, faults=0, with_ctx=False, gens=False,
             weird=True, mode="extract", samecode=True, gen2=False, iter_none=False, customize=False):
    """Rank-ordered (acyclic) random tables; the last object may carry the linear self-loop."""
    def ritem(lo=-1, allow_frames=True):
        cands = [["O", i] for i in range(lo + 1, no)]
        if allow_frames:
            cands += [["F", i] for i in range(lo + 1, nf)]
        return rng.choice(cands) if cands else None

    frames = {str(f): ["plain"] for f in range(nf)}
    unwrap, attr = {}, {}
    free_frames = list(range(nf))
    for o in range(no):
        k = rng.random()
        attr[str(o)] = {"wref": rng.random() < 0.8}
        if o == no - 1:
            unwrap[str(o)] = ["one", ["O", o]] if k < 0.25 else ["none"]
            continue
        if gens and k < 0.3 and free_frames:
            # a real suspended generator whose own frame is a dedicated frame id
            f_own = rng.choice(free_frames)
            free_frames.remove(f_own)
            frames[str(f_own)] = ["genof", o]
            tgt = None if rng.random() < 0.3 else ritem(o, allow_frames=False)
            unwrap[str(o)] = ["gen", f_own, tgt]
            attr[str(o)] = {"wref": True}
            continue
        if k < 0.15:
            unwrap[str(o)] = ["none"]
        elif k < 0.35:
            unwrap[str(o)] = ["one", ritem(o)]
        elif k < 0.78:
            unwrap[str(o)] = ["seq", [None if rng.random() < 0.1 else ritem(o) for _ in range(rng.randrange(0, 4))],
                              rng.choice(["tuple", "list"])]
        elif k < 0.92:
            unwrap[str(o)] = ["iter", [ritem(o) for _ in range(rng.randrange(0, 3))], rng.random() < 0.5]
        else:
            unwrap[str(o)] = ["raise"]
    elab = {}
    for f in range(nf):
        k = rng.random()
        ph = rng.random() < 0.5
        def rit():
            z = rng.random()
            if weird and z < 0.04:
                return ["Z"]
            if weird and z < 0.08:
                return ["N"]
            it = ritem(f)
            return ["I", it] if it else ["Z"]
        if k < 0.42:
            elab[str(f)] = ["none", None, ph]
        elif k < 0.52:
            elab[str(f)] = ["seq", [], ph]
        elif k < 0.68:
            elab[str(f)] = ["seq", [rit() for _ in range(rng.randrange(1, 3))], ph]
        elif k < 0.84:
            elab[str(f)] = ["seq", [rit() for _ in range(rng.randrange(0, 3))] + [["N"]], ph]
        elif k < 0.93:
            elab[str(f)] = ["one", rit(), ph]
        else:
            elab[str(f)] = ["raise", None, ph]
    # at most one next_inner per hook result: `(next_inner, next_inner)` on a frame whose next_inner is
    # the same frame again (an iterator yielding it twice) re-inserts it forever -- the implementation
    # has no fuel.  Extra occurrences become None (the random stream is left unchanged).
    for spec in elab.values():
        if spec[0] == "seq":
            seen = False
            for idx in reversed(range(len(spec[1]))):
                if spec[1][idx] == ["N"]:
                    if seen:
                        spec[1][idx] = ["Z"]
                    seen = True
    ctxs, fill = {}, {}
    if with_ctx:
        cid = 0
        for f in range(nf):
            k = rng.random()
            if k < 0.35:
                continue
            if k < 0.45:
                ctxs[str(f)] = ["raise"]
                continue
            ids = []
            for _ in range(rng.randrange(1, 3)):
                ids.append(cid)
                z = rng.random()
                if z < 0.2:
                    fill[str(cid)] = ["raise"]
                elif z < 0.55:
                    # children only of strictly higher rank than the frame: nested extraction terminates
                    kids = [x for x in (ritem(f) for _ in range(rng.randrange(1, 3))) if x]
                    fill[str(cid)] = ["ok", kids]
                cid += 1
            ctxs[str(f)] = ["ok", ids]
    fl = sorted(set(rng.randrange(0, 25) for _ in range(faults)))
    if iter_none and not faults:
        sprinkle_iter_none(unwrap)
    case = {"nf": nf, "no": no, "frames": frames, "unwrap": unwrap, "elab": elab, "attr": attr,
            "ctxs": ctxs, "fill": fill, "faults": fl, "with_ctx": with_ctx,
            "root": ritem(), "mode": mode}
    # gen2 (a second instance of one generator function) is opt-in: oracles written for "gen" objects only
    # (c05.acyclic, c16 origin ground truth) must know the "gen2" unwrap kind first
    case = share_code(case, p_gen2=(0.5 if gen2 else 0.0)) if samecode else case
    return add_customize(case) if customize else case


def chain_case(n, self_loop=False):
    """O0 -> O1 -> ... -> O(n-1) -> (frame 0 | itself): exercises the 100-step progress guard."""
    unwrap = {str(o): ["one", ["O", o + 1]] for o in range(n - 1)}
    unwrap[str(n - 1)] = ["one", ["O", n - 1]] if self_loop else ["one", ["F", 0]]
    return {"nf": 1, "no": n, "frames": {"0": ["plain"]}, "unwrap": unwrap,
            "elab": {"0": ["none", None, False]}, "attr": {}, "ctxs": {}, "fill": {}, "faults": [],
            "with_ctx": False, "root": ["O", 0], "mode": "extract"}


def gen_dense(rng: random.Random, nf=7, no=4):
    """Densely connected rank-ordered tables rooted at object 0: nested sequences (so that frames
    sit at several depths), frames whose hooks prune / replace / insert items that are themselves
    frames with editing hooks or objects that unwrap to such frames.  next_inner only in final
    position (a non-final next_inner duplicates an entry of arbitrary rank and may not terminate)."""
    def pick(lo):
        fr = [["F", i] for i in range(lo + 1, nf)]
        ob = [["O", i] for i in range(lo + 1, no)]
        if ob and (not fr or rng.random() < 0.35):
            return rng.choice(ob)
        return rng.choice(fr) if fr else None

    unwrap, elab = {}, {}
    for o in range(no):
        k = rng.random()
        if o == 0 or k < 0.55:
            items = [None if rng.random() < 0.07 else pick(o) for _ in range(rng.randrange(2, 5))]
            unwrap[str(o)] = ["seq", items, rng.choice(["tuple", "list"])]
        elif k < 0.65:
            unwrap[str(o)] = ["one", pick(o)]
        elif k < 0.78:
            unwrap[str(o)] = ["iter", [pick(o) for _ in range(rng.randrange(1, 4))], rng.random() < 0.5]
        elif k < 0.86:
            unwrap[str(o)] = ["none"]
        elif k < 0.93:
            unwrap[str(o)] = ["seq", [], "tuple"]
        else:
            unwrap[str(o)] = ["raise"]
    for f in range(nf):
        k = rng.random()
        ph = rng.random() < 0.5
        its = [["I", x] for x in (pick(f) for _ in range(rng.randrange(1, 3))) if x]
        if k < 0.35 or (not its and k >= 0.48 and k < 0.95):
            elab[str(f)] = ["none", None, ph]
        elif k < 0.48:
            elab[str(f)] = ["seq", [], ph]
        elif k < 0.68:
            elab[str(f)] = ["seq", its, ph]
        elif k < 0.90:
            elab[str(f)] = ["seq", its + [["N"]], ph]
        elif k < 0.95:
            elab[str(f)] = ["one", its[0], ph]
        elif k < 0.98:
            elab[str(f)] = ["one", ["N"], ph]
        else:
            elab[str(f)] = ["raise", None, ph]
    sprinkle_iter_none(unwrap)
    return add_customize(share_code({"nf": nf, "no": no, "frames": {str(f): ["plain"] for f in range(nf)}, "unwrap": unwrap,
                                     "elab": elab, "attr": {}, "ctxs": {}, "fill": {}, "faults": [], "with_ctx": False,
                                     "root": ["O", 0], "mode": "extract"}))


def chain_mid_case(n1, n2, mid, end):
    """O0 -> ... -> O(n1-1) -> (mid, O(n1)) ; O(n1) -> ... -> O(n1+n2-1) -> end.
    mid/end: "frame" | "leaf".  Exercises where the progress counter is reset."""
    no = n1 + n2 + 2
    unwrap = {str(o): ["one", ["O", o + 1]] for o in range(n1 + n2 - 1)}
    m = ["F", 0] if mid == "frame" else ["O", no - 2]
    e = ["F", 1] if end == "frame" else ["O", no - 1]
    unwrap[str(n1 - 1)] = ["seq", [m, ["O", n1]], "tuple"]
    unwrap[str(n1 + n2 - 1)] = ["one", e]
    unwrap[str(no - 2)] = ["none"]
    unwrap[str(no - 1)] = ["none"]
    return {"nf": 2, "no": no, "frames": {"0": ["plain"], "1": ["plain"]}, "unwrap": unwrap,
            "elab": {"0": ["none", None, False], "1": ["none", None, False]}, "attr": {}, "ctxs": {}, "fill": {},
            "faults": [], "with_ctx": False, "root": ["O", 0], "mode": "extract"}


def empties_case(n):
    """O0 -> [O1] * n, O1 -> (): hook calls that produce nothing do not count as progress."""
    return {"nf": 1, "no": 2, "frames": {"0": ["plain"]},
            "unwrap": {"0": ["seq", [["O", 1]] * n, "list"], "1": ["seq", [], "tuple"]},
            "elab": {}, "attr": {}, "ctxs": {}, "fill": {}, "faults": [], "with_ctx": False,
            "root": ["O", 0], "mode": "extract"}


# ----------------------------------------------------------------- running the implementation
# Synthetic item classes are pooled across cases: functools.singledispatch has no unregister and
# recomputes its dispatch over the whole registry after every register(), so one fresh class per
# object per case makes a long run quadratic.  Each pooled class is registered ONCE through the
# public unwrap_stackitem.register with a trampoline to the running case's hook.
_POOL = {}
_CURRENT = {}


def _pooled_class(o, wref):
    key = (o, bool(wref))
    cls = _POOL.get(key)
    if cls is None:
        from stackscope import unwrap_stackitem
        # all synthetic objects compare equal: `items[-1] is next_inner` must be an identity test
        body = {"__repr__": (lambda self, o=o: f"<O{o}>"), "__iter__": (lambda self: self),
                "__next__": (lambda self: 1), "_synthetic": True,
                "__eq__": (lambda self, other: getattr(other, "_synthetic", False)),
                "__ne__": (lambda self, other: not getattr(other, "_synthetic", False)),
                "__hash__": (lambda self: 7)}
        if not wref:
            body["__slots__"] = ()
        cls = type(f"Obj{o}", (), body)

        def trampoline(x, cls=cls):
            hook = _CURRENT.get(cls)
            return None if hook is None else hook(x)
        unwrap_stackitem.register(cls, trampoline)
        _POOL[key] = cls
    return cls


def run_impl(case):
    import stackscope
    from stackscope import _extract, _customization
    from stackscope import extract, extract_outermost, unwrap_stackitem, elaborate_frame, yields_frames, Context

    nf, no = case["nf"], case["no"]
    _CURRENT.clear()
    frames, codes = [None] * nf, [None] * nf
    classes, objs = [None] * no, [None] * no
    genfuncs = {}

    def conv(it):
        return frames[it[1]] if it[0] == "F" else objs[it[1]]

    # objects of higher rank first: generators delegate to already-built targets
    for o in reversed(range(no)):
        spec = case["unwrap"].get(str(o), ["none"])
        if spec[0] == "gen2":
            f_own, o1 = spec[1], spec[2]
            g = genfuncs[o1]()          # second instance of the same generator function
            next(g)
            objs[o] = g
            frames[f_own] = g.gi_frame
            codes[f_own] = genfuncs[o1]
            classes[o] = None
        elif spec[0] == "gen":
            f_own, tgt = spec[1], spec[2]
            ns = {"TARGET": conv(tgt) if tgt else None}
            hide = "    __tracebackhide__ = True\n" if eff_elab(case, f_own)[2] else ""
            if tgt:
                exec(f"def gen_{o}():\n{hide}    yield from TARGET\n", ns)
            else:
                exec(f"def gen_{o}():\n{hide}    while True:\n        yield 1\n", ns)
            g = ns[f"gen_{o}"]()
            next(g)
            objs[o] = g
            frames[f_own] = g.gi_frame
            codes[f_own] = ns[f"gen_{o}"]
            genfuncs[o] = ns[f"gen_{o}"]
            classes[o] = None
        else:
            wref = case["attr"].get(str(o), {}).get("wref", True)
            classes[o] = _pooled_class(o, wref)
            objs[o] = classes[o]()
    for f in range(nf):
        if frames[f] is None:
            kind = case["frames"].get(str(f), ["plain"])
            if kind[0] == "samecode":
                # a second live frame of the function of frame kind[1] (< f, already built): same code object
                codes[f] = codes[kind[1]]
                frames[f] = codes[f]()
                continue
            ns = {}
            hide = "    __tracebackhide__ = True\n" if eff_elab(case, f)[2] else ""
            exec(f"import sys\ndef frame_{f}():\n{hide}    return sys._getframe(0)\n", ns)
            frames[f] = ns[f"frame_{f}"]()
            codes[f] = ns[f"frame_{f}"]

    for o in range(no):
        spec = case["unwrap"].get(str(o), ["none"])
        if spec[0] in ("none", "gen"):
            continue
        if spec[0] == "one":
            _CURRENT[classes[o]] = lambda x, s=spec: conv(s[1])
        elif spec[0] == "seq":
            ctor = tuple if spec[2] == "tuple" else list
            _CURRENT[classes[o]] = lambda x, s=spec, ctor=ctor: ctor(None if i is None else conv(i) for i in s[1])
        elif spec[0] == "iter":
            def gen(x, s=spec, o=o):
                for i in s[1]:
                    yield None if i is None else conv(i)
                if s[2]:
                    raise Boom("iter", o)
            _CURRENT[classes[o]] = yields_frames(gen)
        elif spec[0] == "raise":
            def bad(x, o=o):
                raise Boom("unwrap", o)
            _CURRENT[classes[o]] = bad
    for f in range(nf):
        if code_rep(case, f) != f:
            continue  # one hook per code object: registered for the representative frame
        spec = case["elab"].get(str(f), ["none", None, True])
        cu = case.get("cust", {}).get(str(f))
        if spec[0] == "none" and not cu:
            continue  # default implementation: hides iff __tracebackhide__ is a local
        if spec[0] == "none":
            kw = dict(hide=cu["hide"], hide_line=cu["hide_line"], prune=cu["prune"])
            if cu.get("form") == "decorator":
                stackscope.customize(**kw)(codes[f])
            else:
                stackscope.customize(codes[f], **kw)
            continue

        def hook(frame, nxt, s=spec, f=f):
            frame.hide = bool(s[2])
            if s[0] == "raise":
                raise Boom("elab", fid.get(id(frame.pyframe), 4999))   # the frame being elaborated, not the code's representative

            def one(r):
                if r[0] == "N":
                    return nxt
                if r[0] == "Z":
                    return None
                return conv(r[1])
            if s[0] == "one":
                return one(s[1])
            # both sequence types, so that an empty result is not always the PRUNE singleton ()
            ctor = list if (len(s) > 3 and s[3] == "list") or (len(s) <= 3 and f % 2 == 1) else tuple
            return ctor(one(r) for r in s[1])
        if cu:
            kw = dict(hide=cu["hide"], hide_line=cu["hide_line"], prune=cu["prune"], elaborate=hook)
            if cu.get("form") == "decorator":
                stackscope.customize(**kw)(codes[f])
            else:
                stackscope.customize(codes[f], **kw)
        else:
            elaborate_frame.register(codes[f], hook)

    fid = {id(fr): i for i, fr in enumerate(frames)}
    oid = {id(ob): i for i, ob in enumerate(objs)}

    class CtxObj:
        def __init__(self, cid):
            self.cid = cid

    faults = set(case["faults"])
    tick = [0]
    patched = bool(faults) or case["with_ctx"]
    saved = {}

    def step():
        t = tick[0]
        tick[0] += 1
        if t in faults:
            raise Boom("fault", t)

    if patched:
        saved = dict(u=_extract.unwrap_stackitem, e=_extract.elaborate_frame,
                     c=_extract.contexts_active_in_frame, f=_extract.fill_context,
                     n=_customization.FrameIterator.__next__)
        def p_unwrap(item):
            step()
            return saved["u"](item)
        def p_elab(frame, nxt):
            step()
            return saved["e"](frame, nxt)
        def p_ctx(pyframe, origin, next_pyframe):
            step()
            spec = case["ctxs"].get(str(fid[id(pyframe)]), ["ok", []])
            if spec[0] == "raise":
                raise Boom("ctx", fid[id(pyframe)])
            return [Context(obj=CtxObj(c), is_async=False) for c in spec[1]]
        def p_fill(ctx):
            step()
            spec = case["fill"].get(str(ctx.obj.cid), ["ok", []])
            if spec[0] == "raise":
                raise Boom("fill", ctx.obj.cid)
            ctx.children = []
            for kid in spec[1]:
                ctx.children.append(_extract.extract_child(conv(kid), for_task=False))
        def p_next(self):
            step()
            return saved["n"](self)
        _extract.unwrap_stackitem = p_unwrap
        _extract.elaborate_frame = p_elab
        _extract.contexts_active_in_frame = p_ctx
        _extract.fill_context = p_fill
        _customization.FrameIterator.__next__ = p_next

    def back(x):
        if x is None:
            return ["Z"]
        if isinstance(x, stackscope.Frame):
            return ["Fr", fid.get(id(x.pyframe), 4999), org_of(x)]
        if id(x) in fid:
            return ["F", fid[id(x)]]
        return ["O", oid.get(id(x), 4999)]

    def org_of(fr):
        if fr.origin is None:
            return None
        return oid.get(id(fr.origin), 4999)

    def err_of(e):
        if isinstance(e, Boom):
            return [e.kind, e.ident]
        if isinstance(e, RuntimeError) and "more than 100 times" in str(e):
            s = str(e)
            if s.startswith("None"):
                return ["loop", ["Z"]]
            if s.startswith("<O"):
                return ["loop", ["O", int(s[2:s.index(">")])]]
        return ["other", repr(e)[:200]]

    def errs_of(error):
        if error is None:
            return []
        es = error.exceptions if hasattr(error, "exceptions") else [error]
        return [err_of(e) for e in es]

    def frame_of(fr):
        cx = []
        for c in fr.contexts:
            cx.append({"c": getattr(c.obj, "cid", 4999),
                       "kids": [stack_of(k) for k in c.children if isinstance(k, stackscope.Stack)]})
        return {"f": fid.get(id(fr.pyframe), 4999), "hide": bool(fr.hide), "hide_line": bool(fr.hide_line),
                "org": org_of(fr), "cx": cx}

    def stack_of(st):
        if st.leaf is None:
            lf = ["none"]
        elif isinstance(st.leaf, list):
            lf = ["many", [back(x) for x in st.leaf]]
        else:
            lf = ["one", back(st.leaf)]
        return {"frames": [frame_of(f) for f in st.frames], "leaf": lf, "errs": errs_of(st.error)}

    try:
        root = conv(case["root"])
        wc = bool(case["with_ctx"])
        if case["mode"] == "outermost":
            try:
                fr = extract_outermost(root, with_contexts=wc)
                return {"kind": "frame", "frame": frame_of(fr)}
            except BaseException as ex:
                if hasattr(ex, "exceptions"):
                    return {"kind": "raise", "errs": [err_of(e) for e in ex.exceptions]}
                if isinstance(ex, RuntimeError) and "Couldn't extract a frame" in str(ex):
                    return {"kind": "raise", "errs": []}
                return {"kind": "raise", "errs": [err_of(ex)]}
        try:
            st = extract(root, with_contexts=wc)
        except BaseException as ex:
            return {"kind": "raised", "exc": repr(ex)[:300]}
        res = stack_of(st)
        res["kind"] = "ok"
        # the result must still be printable and summarisable (C05)
        try:
            str(st)
            st.format_flat()
            st.as_stdlib_summary()
            res["formats"] = True
        except BaseException as ex:
            res["formats"] = repr(ex)[:300]
        return res
    finally:
        if patched:
            _extract.unwrap_stackitem = saved["u"]
            _extract.elaborate_frame = saved["e"]
            _extract.contexts_active_in_frame = saved["c"]
            _extract.fill_context = saved["f"]
            _customization.FrameIterator.__next__ = saved["n"]


# ----------------------------------------------------------------- Gallina printing
def c_item(it):
    return f"(IPy {it[1]})" if it[0] == "F" else f"(IObj {it[1]})"


def c_q(b):
    if b[0] == "Z":
        return "QNone"
    if b[0] == "Fr":
        return f"(QFr {b[1]} {copt(b[2])})"
    if b[0] == "F":
        return f"(QPy {b[1]})"
    return f"(QObj {b[1]})"


def c_err(e):
    k, i = e
    if k == "loop":
        return f"(ELoop {c_q(i)})"
    m = {"unwrap": "EUnwrap", "iter": "EIter", "elab": "EElab", "ctx": "ECtx", "fill": "EFill", "fault": "EFault"}
    if k in m and isinstance(i, int):
        return f"({m[k]} {i})"
    return "(EUnwrap 4999)"


def c_stack(st):
    frs = clist([c_fout(f) for f in st["frames"]])
    lf = st["leaf"]
    if lf[0] == "none":
        l = "LNone"
    elif lf[0] == "one":
        l = f"(LOne {c_q(lf[1])})"
    else:
        l = "(LMany " + clist([c_q(x) for x in lf[1]]) + ")"
    return f"(Stack {frs} {l} {clist([c_err(e) for e in st['errs']])})"


def c_fout(f):
    cx = clist([f"(COut {c['c']} {clist([c_stack(k) for k in c['kids']])})" for c in f["cx"]])
    return f"(FOut {f['f']} {cbool(f['hide'])} {copt(f['org'])} {cx})"


def c_cfg(case, guards="all_guards", uguard="100"):
    us, at = [], []
    for o, s in case["unwrap"].items():
        if s[0] == "none":
            v = "UNone"
        elif s[0] == "one":
            v = f"(UOne {c_item(s[1])})"
        elif s[0] == "seq":
            v = "(USeq " + clist(["None" if i is None else f"(Some {c_item(i)})" for i in s[1]]) + ")"
        elif s[0] == "iter":
            # a yielded None is skipped like a None entry of a sequence (see module docstring)
            v = f"(UIter {clist([c_item(i) for i in s[1] if i is not None])} {cbool(s[2])})"
        elif s[0] in ("gen", "gen2"):
            tgt = s[2] if s[0] == "gen" else case["unwrap"][str(s[2])][2]
            v = "(USeq " + clist([f"(Some (IPy {s[1]}))", "None" if tgt is None else f"(Some {c_item(tgt)})"]) + ")"
        else:
            v = "URaise"
        us.append(f"({o}, {v})")
    for o in range(case["no"]):
        s = case["unwrap"].get(str(o), ["none"])
        if s[0] in ("gen", "gen2"):
            at.append(f"({o}, Build_oattr true true (Some {s[1]}))")
        else:
            w = case["attr"].get(str(o), {}).get("wref", True)
            at.append(f"({o}, Build_oattr {cbool(w)} false None)")

    def rit(r):
        return "RNext" if r[0] == "N" else ("RNone" if r[0] == "Z" else f"(RItem {c_item(r[1])})")
    es = []
    # the hook table is keyed by code object: a frame that shares its code with another one gets the
    # representative's row (frames remain distinct ids in the model)
    rows, custs = {}, {}
    for f in sorted(set(int(k) for k in case["elab"]) | set(range(case["nf"]))):
        rep = code_rep(case, f) if f < case["nf"] else f
        cu = case.get("cust", {}).get(str(rep))
        if str(rep) in case["elab"]:
            rows[str(f)] = case["elab"][str(rep)]
        elif cu:
            rows[str(f)] = ["none", None, True]
        if cu:
            custs[str(f)] = cu
    for f, s in rows.items():
        if s[0] == "none":
            v = "ENone"
        elif s[0] == "seq":
            v = "(ESeq " + clist([rit(r) for r in s[1]]) + ")"
        elif s[0] == "one":
            v = f"(EOne {rit(s[1])})"
        else:
            v = "ERaise"
        if f in custs:
            cu = custs[f]
            user = "None" if s[0] == "none" else f"(Some ({v}, {cbool(s[2])}))"
            es.append(f"({f}, customized {cbool(cu['hide'])} {cbool(cu['prune'])} {user})")
        else:
            es.append(f"({f}, ({v}, {cbool(s[2])}))")
    cx = [f"({f}, " + ("CtxRaise" if s[0] == "raise" else "CtxOk " + clist(map(str, s[1]))) + ")"
          for f, s in case["ctxs"].items()]
    fl = [f"({c}, " + ("FillRaise" if s[0] == "raise" else "FillOk " + clist([c_item(i) for i in s[1]])) + ")"
          for c, s in case["fill"].items()]
    return (f"(mkcfg {clist(us)} {clist(es)} {clist(at)} {clist(cx)} {clist(fl)} "
            f"{clist(map(str, case['faults']))} {cbool(case['with_ctx'])} {guards} {uguard})")


def c_case(case, obs):
    if case["mode"] == "outermost":
        if obs["kind"] == "frame":
            out = f"(OFrame {c_fout(obs['frame'])})"
        else:
            out = f"(ORaise {clist([c_err(e) for e in obs['errs']])})"
    elif obs["kind"] == "raised":
        out = "(Raised (EFault 0))"
    else:
        out = f"(Ok {c_stack(obs)})"
    return f"({c_cfg(case)}, {c_item(case['root'])}, {out})"


KIND_EXTRACT = dict(imports=IMPORTS, type="ecase", mismatch="mismatches", nontrivial="count_nontrivial")
KIND_OUTERMOST = dict(imports=IMPORTS, type="ocase", mismatch="omismatches", nontrivial=None)
