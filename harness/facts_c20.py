"""Source facts for C20's mode switch, fail-closed: every write of _can_use_trickery happens while
_trickery_lock is held, and the auto-detection in _check_trickery_available re-checks the switch
under the lock before running the self-test and storing its result (so a set_trickery_enabled()
that returned earlier can never be overwritten by a detection that started before it)."""
import ast
import os

from .common import REPO


def compute():
    try:
        tree = ast.parse(open(os.path.join(REPO, "stackscope", "_lowlevel.py")).read())
    except Exception:
        return {"trickery_switch_locked": False}
    ok = True
    nwrites = 0
    recheck = False

    def is_lock_with(node):
        return isinstance(node, ast.With) and any(
            isinstance(i.context_expr, ast.Name) and i.context_expr.id == "_trickery_lock" for i in node.items)

    def visit(node, locked, func):
        nonlocal ok, nwrites, recheck
        if isinstance(node, (ast.FunctionDef, ast.AsyncFunctionDef)):
            func = node.name if func is None else func      # nested helper functions count for the outer one
        if is_lock_with(node):
            if func == "_check_trickery_available":
                # first statement inside the lock: `if _can_use_trickery is not None: return ...`
                first = node.body[0] if node.body else None
                if (isinstance(first, ast.If) and isinstance(first.test, ast.Compare)
                        and isinstance(first.test.left, ast.Name) and first.test.left.id == "_can_use_trickery"
                        and len(first.test.ops) == 1 and isinstance(first.test.ops[0], ast.IsNot)
                        and any(isinstance(s, ast.Return) for s in first.body)):
                    recheck = True
            for ch in ast.iter_child_nodes(node):
                visit(ch, True, func)
            return
        if isinstance(node, (ast.Assign, ast.AugAssign, ast.AnnAssign)) and func is not None:
            targets = node.targets if isinstance(node, ast.Assign) else [node.target]
            for t in targets:
                if isinstance(t, ast.Name) and t.id == "_can_use_trickery":
                    nwrites += 1
                    if not locked:
                        ok = False
        for ch in ast.iter_child_nodes(node):
            visit(ch, locked, func)

    visit(tree, False, None)
    return {"trickery_switch_locked": bool(ok and recheck and nwrites >= 3)}


if __name__ == "__main__":
    print(compute())
