"""C19 — standard-library summaries and the flat format faithfully project the Stack.
Correspondence: the trees of C18 (dataclasses over real frames) plus real extracted stacks;
Stack.as_stdlib_summary under all 8 (show_contexts, show_hidden_frames, capture_locals),
Frame.as_stdlib_summary_with_contexts, Stack.format_flat; compared inside Coq with M_Summary.
Runtime legs: format_flat vs traceback.StackSummary.format, pickle round trip, no frame object
in the gc-referents closure of a summary."""
import ast
import gc
import pickle
import random
import traceback
import types

from . import fmt_gen as G

PROP = "C19"
IMPORTS = "From SS Require Import Base M_Format M_Summary.\nFrom Coq Require Import NArith String.\nOpen Scope string_scope."
KINDS = {"main": dict(imports=IMPORTS, type="scase", mismatch="smismatches", nontrivial="scount_nontrivial")}
SHARD = 40
RULE = ("the generated Stack trees of C18 (random depth/width <= 3, <= 4 thorough; full product of the context fields as frame "
        "context and as child context; hidden flags everywhere incl. inside contexts) plus 7 real stacks extracted by stackscope "
        "(suspended generator in nested context managers with ExitStack children, suspended coroutine in async with, running thread "
        "with and without contexts, 8-deep await recursion, yield-from recursion, 7-deep running recursion) and trees with runs of 3..8 "
        "identical consecutive entries (same frame repeated, in inner stacks, repeated contexts; traceback folds > 3 repeats); "
        "HISTORIES on one Stack object: every case observes all projections, runs a history (default: other-flag calls; 5 trees with "
        "a context object whose repr can raise or park x 8 histories: failing capture_locals summary, abandoned "
        "as_stdlib_summary_with_contexts iterator after 1/2/3 steps, other flags, a second thread parked mid-summary, combinations; "
        "every third random tree: abandoned iterator) and observes again on the same object: both observations must be equal and "
        "the later one is compared with the model; per tree all 8 (show_contexts, show_hidden_frames, capture_locals) summaries, the 4 "
        "as_stdlib_summary_with_contexts variants of its first frame and both format_flat variants. distinct = distinct descriptors; "
        "non-trivial = the summary with contexts differs from the plain frame series")
CONFIG = dict(
    coq=["C19"], level="proof",
    claim=("Coq theorems about an executable model of Stack/Frame/Context summary generation and format_flat (all trees, all option "
           "sets): projection laws with and without contexts, relation to the frame/context lines of the tree format, flat format "
           "composition; tied to the code by comparison (inside Coq) of the FrameSummary fields on generated trees over real frames "
           "and on real extracted stacks; pickling, frame-freedom and the traceback rendering are runtime legs."),
    design_ref="DESIGN.md section 5 C18/C19",
    trusted_base=["model M_Summary.v is hand-written from _types.py; traceback.StackSummary.format is a Section variable of the "
                  "theorems (its output on the observed summary is an input of each case)",
                  "FrameSummary.locals re-reprs the strings it is given; the harness undoes this with ast.literal_eval before comparing"],
    assumptions=["linecache returns the same text with and without module globals (sources are registered in linecache directly)",
                 "line numbers are non-negative"],
    unproved_legs=["pickle round trip, absence of frame objects in the gc.get_referents closure (types, modules and functions are "
                   "not traversed) and format_flat == header + StackSummary.format() + leaf + error are runtime comparisons on the "
                   "generated trees, not theorems"],
    timeout={"quick": 900, "thorough": 5400})

COMBOS = [(sc, sh, cl) for sc in (False, True) for sh in (False, True) for cl in (False, True)]


def make_inputs(tier, seed):
    from . import fmt_real
    rng = random.Random(seed * 7919 + 19)
    quick = tier == "quick"
    for name in fmt_real.NAMES:
        yield {"real": name}
    for sp in G.sep_error_specials():
        yield {"spec": sp}
    for sp in G.falsy_specials():
        yield {"spec": sp}
    for sp in G.repeat_specials():
        yield {"spec": sp}
    # histories on one object: the same projections after failing / abandoned / concurrent calls
    for sp in G.bomb_trees():
        for h in G.HISTORIES:
            yield {"spec": sp, "hist": h}
    for i, c in enumerate(G.ctx_field_product()):
        if quick and (i + seed) % 6:
            continue
        yield {"spec": G.wrap_ctx(c, t="f0")}
        yield {"spec": G.wrap_ctx(c, as_child=True, t="meth")}
    n = 260 if quick else 3000
    for i in range(n):
        depth = 3 if quick else rng.choice([2, 3, 4])
        width = rng.choice([1, 2, 3]) if quick else rng.choice([1, 2, 3, 4])
        d = {"spec": G.gen_stack(rng, depth, width, nl=rng.random() < 0.05)}
        if i % 3 == 0:
            d["hist"] = [["abandon", rng.choice([1, 2, 3, 5])]] + ([["flags"]] if i % 2 else [])
        yield d


def _entry(fs):
    loc = None
    if fs.locals is not None:
        loc = sorted((k, ast.literal_eval(v)) for k, v in fs.locals.items())
    return [fs.filename, fs.lineno, fs.name, fs.line, loc]


def run_case(desc):
    """All projections of one Stack object.  With desc["hist"]: first on the fresh object, then the
    history (failing / abandoned / other-flag calls, or a second thread parked mid-summary), then
    again on the SAME object; the later observation is what Coq compares with the model."""
    st = G.build(desc)
    first = _observe(st)
    log = []
    with G.history(st, desc.get("hist", [["flags"]]), log):
        obs = _observe(st)
    obs["fresh_equal"] = (first == obs)
    obs["log"] = log
    return obs


def _observe(st):
    obs = {"sums": [], "frame": [], "flat": []}
    for sc, sh, cl in COMBOS:
        sm = st.as_stdlib_summary(show_contexts=sc, show_hidden_frames=sh, capture_locals=cl)
        obs["sums"].append([_entry(e) for e in sm])
    if st.frames:
        for sh in (False, True):
            for cl in (False, True):
                obs["frame"].append([_entry(e) for e in
                                     st.frames[0].as_stdlib_summary_with_contexts(show_hidden_frames=sh, capture_locals=cl)])
    for sc in (False, True):
        rend = st.as_stdlib_summary(show_contexts=sc).format() if st.frames else []
        obs["flat"].append([rend, st.format_flat(show_contexts=sc)])
    obs["flat_default"] = st.format_flat()
    return obs


def c_entry(e):
    loc = None if e[4] is None else G.clist(["(%s, %s)" % (G.ctext(k), G.ctext(v)) for k, v in e[4]])
    return "(Build_entry %s %s %s %s %s)" % (G.ctext(e[0]), G.cN(e[1]), G.ctext(e[2]), G.ctext(e[3]), G.copt(loc))


def coq_case(desc, obs):
    G.LOCALS = True
    try:
        st = G.build(desc)
        tree = G.c_stack(None, st)
    finally:
        G.LOCALS = False
    sums = G.clist(["(%s, %s, %s, %s)" % (G.cbool(sc), G.cbool(sh), G.cbool(cl), G.clist([c_entry(e) for e in ents]))
                    for (sc, sh, cl), ents in zip(COMBOS, obs["sums"])])
    fr = []
    if obs["frame"]:
        for (sh, cl), ents in zip([(a, b) for a in (False, True) for b in (False, True)], obs["frame"]):
            fr.append("(%s, %s, %s)" % (G.cbool(sh), G.cbool(cl), G.clist([c_entry(e) for e in ents])))
    flat = ["(%s, %s, %s)" % (G.cbool(sc), G.clines(r), G.clines(f)) for sc, (r, f) in zip((False, True), obs["flat"])]
    return "(Build_scase %s %s %s %s)" % (tree, sums, G.clist(fr), G.clist(flat))


def direct_oracle(desc, obs):
    if not obs["fresh_equal"]:
        return ("the projections of one Stack object changed after the history %r on it (summary / format_flat are not a "
                "function of the tree alone: hidden state)" % (desc.get("hist", [["flags"]]),))
    for l in obs["log"]:
        if l in ("fail: no exception", "thread: never parked") or l.startswith("thread: raised"):
            return "history step did not behave as the unchanged code does: " + l
    if obs["flat_default"] != obs["flat"][0][1]:
        return "format_flat() differs from format_flat(show_contexts=False)"
    return None


def classify(desc, obs):
    n = len(obs["sums"][6])
    return ["real" if "real" in desc else "generated",
            "entries=%s" % ("0" if n == 0 else "<5" if n < 5 else "<15" if n < 15 else ">=15")]


# ------------------------------------------------------------------ runtime legs
_OPAQUE = (type, types.ModuleType, types.FunctionType, types.BuiltinFunctionType, types.MethodDescriptorType,
           types.WrapperDescriptorType, types.GetSetDescriptorType, types.MemberDescriptorType, types.CodeType)


def frames_reachable(obj):
    seen = set()
    todo = [obj]
    n = 0
    while todo:
        x = todo.pop()
        if id(x) in seen:
            continue
        seen.add(id(x))
        if isinstance(x, (types.FrameType, types.TracebackType, types.GeneratorType, types.CoroutineType)):
            return repr(x)
        if isinstance(x, _OPAQUE):
            continue
        todo.extend(gc.get_referents(x))
        n += 1
        if n > 200000:
            return "closure too large"
    return None


def extra_legs(tier, seed):
    rng = random.Random(seed * 7919 + 1919)
    from . import fmt_real
    descs = [{"real": n} for n in fmt_real.NAMES]
    descs += [{"spec": sp} for sp in G.repeat_specials()]
    for _ in range(60 if tier == "quick" else 600):
        descs.append({"spec": G.gen_stack(rng, 3, 3)})
    viol = []
    n = 0
    for d in descs:
        st = G.build(d)
        for sc, sh, cl in COMBOS:
            n += 1
            sm = st.as_stdlib_summary(show_contexts=sc, show_hidden_frames=sh, capture_locals=cl)
            if type(sm) is not traceback.StackSummary or not all(type(e) is traceback.FrameSummary for e in sm):
                viol.append({"what": "as_stdlib_summary did not return a StackSummary of FrameSummary objects", "input": d})
                continue
            try:
                back = pickle.loads(pickle.dumps(sm))
            except Exception as ex:
                viol.append({"what": "summary cannot be pickled: %r (options %r)" % (ex, (sc, sh, cl)), "input": d})
                continue
            if [_entry(e) for e in back] != [_entry(e) for e in sm] or type(back) is not type(sm):
                viol.append({"what": "pickle round trip changed the summary (options %r)" % ((sc, sh, cl),), "input": d})
            bad = frames_reachable(sm)
            if bad:
                viol.append({"what": "summary holds a frame: %s reachable through gc.get_referents (options %r)" % (bad, (sc, sh, cl)),
                             "input": d})
        # relation to traceback.StackSummary.format, through an independently rebuilt summary
        for sc in (False, True):
            n += 1
            flat = st.format_flat(show_contexts=sc)
            sm = st.as_stdlib_summary(show_contexts=sc)
            rebuilt = traceback.StackSummary.from_list([(e.filename, e.lineno, e.name, e.line) for e in sm])
            head = ["stackscope.Stack (most recent call last):\n" if st.root is None
                    else "stackscope.Stack of %r (most recent call last):\n" % (st.root,)]
            want = head + (rebuilt.format() if st.frames else [])
            if flat[:len(want)] != want:
                viol.append({"what": "format_flat(show_contexts=%r) does not start with header + StackSummary.format()" % sc, "input": d})
            tail = flat[len(want):]
            if st.leaf is not None:
                if not tail or tail[0] != "  Target of innermost frame: %r\n" % (st.leaf,):
                    viol.append({"what": "format_flat: leaf line missing or misplaced", "input": d})
                tail = tail[1:]
            if (st.error is None) != (tail == []):
                viol.append({"what": "format_flat: error section present iff error is set fails", "input": d})
            elif st.error is not None and tail[0] != "  Error while extracting stack:\n":
                viol.append({"what": "format_flat: error section does not start with its title", "input": d})
    return dict(evaluations=n, violations=viol[:5], info={"pickle_gc_format_checks": n, "trees": len(descs)})
