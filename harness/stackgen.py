"""Real call stacks for C04 (and reused by C15): a chain of exec-generated functions -- plain
functions, running generators, running coroutines, functions living in modules whose
``__name__`` looks like stackscope's own, singledispatch wrappers -- optionally split into nested
greenlets, with the stackscope API called from the innermost one for a batch of queries.

chain grammar: a string of links; each link = optional modifiers + one kind letter
  kinds      p plain  g generator  c coroutine
             m plain def in module 'stackscope.fake' (counts as stackscope's own)
             t 'stackscope._tests.fake'   s 'stackscope'   x 'stackscope_x.y'   n no __name__
  modifiers  G the link is the run function of a new greenlet
             U same, but the new greenlet's parent is a never-started greenlet
             d the link is called through functools.singledispatch (adds the wrapper frame)
An implicit leading 'p' link is the entry point.  The last link runs the queries inline, so
the direct caller of the API is a frame of that kind.
"""
from __future__ import annotations

import functools
import random
import sys
import threading

MODS = {"p": "vuser.chain", "g": "vuser.chain", "c": "vuser.chain", "m": "stackscope.fake",
        "t": "stackscope._tests.fake", "s": "stackscope", "x": "stackscope_x.y", "n": None}
PLAIN = "pmtsxn"

LEAF = """ctx.shadow.append(sys._getframe(0))
ctx.prepare(sys._getframe(0))
for q in ctx.queries:
    ctx.begin(q)
    try:
        r = q[0](*q[1], **q[2])
    except BaseException as e:
        r = e
    ctx.end(q, r)
"""


def parse(chain):
    links, mods = [], ""
    for ch in chain:
        if ch in "GUd":
            mods += ch
        else:
            assert ch in MODS, chain
            links.append((mods, ch))
            mods = ""
    assert not mods, chain
    for mods, k in links:
        assert not mods or k in PLAIN, chain
    return links


def _call(j, link, caller_kind):
    mods, kind = link
    target = f"ctx.sd[{j}]" if "d" in mods else f"ctx.fns[{j}]"
    if "G" in mods:
        return f"ctx.new_greenlet({target}).switch(ctx)\n"
    if "U" in mods:
        return f"ctx.new_ugreenlet({target}).switch(ctx)\n"
    if kind == "g":
        return f"next({target}(ctx))\n"
    if kind == "c":
        if caller_kind == "c":
            return f"await {target}(ctx)\n"
        return f"try:\n    {target}(ctx).send(None)\nexcept StopIteration:\n    pass\n"
    return f"{target}(ctx)\n"


def _indent(s):
    return "".join("    " + l + "\n" for l in s.splitlines())


_cache = {}


def build(chain, leaf=LEAF):
    key = (chain, leaf)
    if key in _cache:
        return _cache[key]
    links = [("", "p")] + parse(chain)
    fns = []
    for j, (mods, kind) in enumerate(links):
        if j == len(links) - 1:
            body = leaf
        else:
            body = "ctx.shadow.append(sys._getframe(0))\n" + _call(j + 1, links[j + 1], kind)
        src = ("async def" if kind == "c" else "def") + f" L{j}(ctx):\n" + _indent(body)
        if kind == "g":
            src += "    yield\n"
        glb = {"sys": sys}
        if MODS[kind] is not None:
            glb["__name__"] = MODS[kind]
        exec(compile(src, f"<chain:{chain}:{j}>", "exec"), glb)
        fns.append(glb[f"L{j}"])
    sd = [functools.singledispatch(f) if "d" in links[j][0] else None for j, f in enumerate(fns)]
    _cache[key] = (fns, sd, links)
    return _cache[key]


def is_own(fr, sd_code):
    """the property's notion of 'stackscope's own frame' (independent re-statement)"""
    name = fr.f_globals.get("__name__", "")
    own = name[:11] == "stackscope." and name[:18] != "stackscope._tests."
    return own or fr.f_code is sd_code


class Blocked:
    """a helper thread parked in b1 -> b2 -> b3 -> <lock>.acquire().  Once `parked` is set the
    thread executes no further Python-level call, so its f_back chain is stable."""

    def __init__(self):
        self.lock = threading.Lock()
        self.lock.acquire()
        self.parked = False
        self.frames = []
        self.th = threading.Thread(target=self.b1, daemon=True)

    def b1(self):
        self.frames.append(sys._getframe(0))
        self.b2()

    def b2(self):
        self.frames.append(sys._getframe(0))
        self.b3()

    def b3(self):
        self.frames.append(sys._getframe(0))
        self.parked = True
        self.lock.acquire()

    def __enter__(self):
        import time
        self.th.start()
        while not self.parked:
            time.sleep(0.0002)
        return self

    def __exit__(self, *a):
        self.lock.release()
        self.th.join()


class Ctx:
    """Per-scenario state; subclasses define make_queries / encode."""

    def __init__(self, chain):
        import greenlet
        import stackscope
        self.chain = chain
        self.fns, self.sd, self.links = build(chain, self.leaf_src())
        self.shadow = []
        self.queries = []
        self.results = []
        self.problems = []
        self.records = []
        self.new_greenlet = greenlet.greenlet
        self.greenlet = greenlet
        self.stackscope = stackscope
        self.gtc_code = stackscope._glue.get_true_caller.__code__
        self.sd_code = stackscope._glue.functools_singledispatch_wrapper
        self.keep = []

    def leaf_src(self):
        return LEAF

    def new_ugreenlet(self, fn):
        g2 = self.greenlet.greenlet(lambda *a: None)
        self.keep.append(g2)
        return self.greenlet.greenlet(fn, parent=g2)

    # ---- foreign anchors living in the scenario's own thread
    def setup_foreign(self):
        def sgen():
            yield 1
        self.sgen = sgen()
        next(self.sgen)
        box = []

        def r2():
            box.append(sys._getframe(0))
            self.greenlet.getcurrent().parent.switch()

        def r1():
            box.append(sys._getframe(0))
            r2()
        self.sib = self.greenlet.greenlet(r1)
        self.sib.switch()
        self.sib_frames = box

    def teardown_foreign(self):
        try:
            self.sgen.close()
            self.sib.switch()
        except Exception as ex:  # pragma: no cover
            self.problems.append("teardown: %r" % (ex,))

    def entry(self):
        self.setup_foreign()
        try:
            self.fns[0](self)
        finally:
            self.teardown_foreign()

    def run(self, base="thread"):
        import time
        with Blocked() as b:
            self.blocked = b
            if base == "thread":
                err = []
                done = threading.Lock()
                done.acquire()
                self.main_parked = False

                def target():
                    try:
                        while not self.main_parked:
                            time.sleep(0.0002)
                        self.entry()
                    except BaseException as ex:
                        import traceback
                        err.append(traceback.format_exc())
                    finally:
                        done.release()
                th = threading.Thread(target=target)
                th.start()
                # from here on this (main) thread makes no Python-level call until it is released
                self.main_parked = True
                done.acquire()
                th.join()
                if err:
                    raise RuntimeError("scenario crashed: " + err[0][-1500:])
            else:
                self.entry()
        return self

    # ---- snapshot of the live stack, taken from the leaf frame
    def prepare(self, leaf):
        g = self.greenlet.getcurrent()
        self.parent_active = bool(g.parent)
        segs, fr = [], leaf
        while g is not None:
            seg = []
            while fr is not None:
                seg.append(fr)
                fr = fr.f_back
            segs.append(seg)
            g = g.parent
            if g is not None:
                fr = g.gr_frame
        self.segs = segs
        self.full = [f for seg in segs for f in seg][::-1]
        self.ids = {id(f): k for k, f in enumerate(self.full)}
        n = len(self.full)
        # shadow call log: the L* frames of the walk must be exactly the logged ones
        walk = [f for f in self.full if f.f_code.co_filename.startswith("<chain:")]
        if [id(f) for f in walk] != [id(f) for f in self.shadow]:
            self.problems.append("f_back/parent walk disagrees with the call log")
        # true caller by the property's own rule
        tc = None
        for f in segs[0]:
            if not is_own(f, self.sd_code):
                tc = self.ids[id(f)]
                break
        self.tc = tc
        # other threads, in sys._current_frames() order
        me = threading.get_ident()
        self.threads = []
        nxt = 100
        for ident, fr in sys._current_frames().items():
            if ident == me:
                self.threads.append((True, []))
                continue
            ch = []
            while fr is not None:
                ch.append(fr)
                fr = fr.f_back
            for f in ch:
                self.ids[id(f)] = nxt
                nxt += 1
            self.threads.append((False, ch))
        self.ids[id(self.sgen.gi_frame)] = 200
        self.other_chains = [[self.sgen.gi_frame]]
        ch, fr = [], self.sib.gr_frame
        while fr is not None:
            ch.append(fr)
            fr = fr.f_back
        for k, f in enumerate(ch):
            self.ids[id(f)] = 300 + k
        self.other_chains.append(ch)
        self.make_queries(n)

    def anchors(self):
        """[(frame|None, id|None)]: None, every frame of the true stack, a few foreign ones"""
        out = [(None, None)] + [(f, k) for k, f in enumerate(self.full)]
        for me, ch in self.threads:
            if not me and ch:
                picks = {0, len(ch) - 1, len(ch) // 2}
                out += [(ch[k], self.ids[id(ch[k])]) for k in sorted(picks)]
        for ch in self.other_chains:
            out += [(f, self.ids[id(f)]) for f in ch]
        return out

    # ---- profile hook: the frames between the API entry point and get_true_caller
    def _prof(self, frame, event, arg):
        if event == "call" and frame.f_code is self.gtc_code:
            ch, f = [], frame.f_back
            while f is not None and id(f) not in self.ids:
                ch.append((f.f_code.co_name, f.f_globals.get("__name__", ""), f.f_code is self.sd_code))
                f = f.f_back
            self.records.append((tuple(ch), self.ids.get(id(f)) if f is not None else None))

    def begin(self, q):
        sys.setprofile(self._prof)

    def end(self, q, r):
        sys.setprofile(None)
        self.results.append(r)

    def internal_chain(self):
        recs = set(self.records)
        if not recs:
            return []
        if len(recs) > 1:
            self.problems.append("internal call chains differ within one case: %r" % (sorted(recs)[:2],))
        ch, attach = sorted(recs)[0]
        if attach != len(self.full) - 1:
            self.problems.append("internal chain does not hang off the calling frame")
        return list(ch)

    def frame_names(self, seg):
        return [(self.ids[id(f)], f.f_globals.get("__name__", ""), f.f_code is self.sd_code) for f in seg]


def select(items, sel, rng_key):
    if sel is None:
        return items
    if sel["mode"] == "part":
        return items[sel["i"]::sel["of"]]
    rng = random.Random(rng_key + "|%d" % sel["seed"])
    if sel["k"] >= len(items):
        return items
    return [items[i] for i in sorted(rng.sample(range(len(items)), sel["k"]))]
