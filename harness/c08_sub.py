"""C08 legs under another interpreter (python -m harness.c08_sub < specs.json > result.json).
Runs the runtime leg (suspended generator/coroutine, stackscope.extract, ast oracle) for every program
spec, and with --sites also returns the per-site observations (store sequence as Gallina literals, real
describe_assignment_target / analyze_with_blocks results) so that the parent can hand them to Coq."""
import json
import sys
import warnings

from . import c08_gen as G


def main():
    specs = json.load(sys.stdin)
    want_sites = "--sites" in sys.argv
    out = {"python": "%d.%d.%d" % sys.version_info[:3], "programs": 0, "contexts": 0, "syntax_skipped": 0,
           "problems": [], "stats": {}, "sites": {}}
    for n, spec in enumerate(specs):
        src = G.build_source(spec)
        try:
            with warnings.catch_warnings():
                warnings.simplefilter("ignore")
                compile(src, "<c08prog>", "exec")
        except SyntaxError:
            out["syntax_skipped"] += 1
            continue
        if "route" in spec:
            # exiting-entry leg: every with statement left normally, inspected at the exiting moment
            try:
                k, probs = G.exit_check(spec, src)
            except BaseException as ex:
                k, probs = 0, ["exit leg raised %r" % (ex,)]
            out["exit_programs"] = out.get("exit_programs", 0) + 1
            out["exit_inspections"] = out.get("exit_inspections", 0) + k
            for p in probs[:2]:
                out["problems"].append({"what": "exiting entry: " + p, "input": {"spec": spec, "source": src}})
            continue
        if want_sites:
            try:
                out["sites"][str(n)] = G.gen_sites(spec)
            except BaseException as ex:
                out["problems"].append({"what": "site extraction raised %r" % (ex,), "input": {"spec": spec, "source": src}})
        if spec.get("static_only"):
            continue
        try:
            k, probs, st = G.runtime_check(spec, src)
        except BaseException as ex:
            k, probs, st = 0, ["runtime leg raised %r" % (ex,)], {}
        out["programs"] += 1
        out["contexts"] += k
        for a, b in st.items():
            out["stats"][a] = out["stats"].get(a, 0) + b
        for p in probs[:2]:
            out["problems"].append({"what": p, "input": {"spec": spec, "source": src}})
    json.dump(out, sys.stdout)


if __name__ == "__main__":
    main()
