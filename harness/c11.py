"""C11 -- context hooks: elaborate, unwrap, re-elaborate until a steady state (fill_context).

Correspondence: fresh manager classes / fresh @contextmanager functions per case, hooks
registered through the public APIs (elaborate_context.register, unwrap_context.register,
unwrap_context_generator.register), the real fill_context called outside any extract(), inside
one (from an unwrap_stackitem hook, any option pair) or by extract() itself on a context found
in a real frame; observed = final Context fields + log of user hook calls (with the extract
options visible to each call, probed through the public extract_child) + exception + options
afterwards, compared inside Coq with M_Contexts.fill.

Descriptor (JSON)
  mgr   {m: {"k": "syn", "hooked": b, "falsy": b, "eqp": b}
           | {"k": "gcm", "fn": c, "state": "new"|"ent"|"done"}}
  fns   {c: {"yf": b, "reg": ures|null, "async": b (optional), "res": r (optional), "ctx0": b (optional)}}
        generator functions (code id c); async = @asynccontextmanager (never with yf); res = the body is
        `with <manager r>: yield` (`async with` if async; r is an inert = unhooked synthetic manager, never with
        yf); ctx0 = the registered hook returns frame.contexts[0].obj if the Frame has contexts, else reg
  xfr   {i: {"reg": ures|null, "ctx0": b (optional)}}   extra plain frames 900+i (code id 900+i)
  elab  {m: [eff...]}   eff = ["sd",d] ["ad",d] ["sc",[k..]] ["ac",k] ["si",null|[f..]] ["so",m] ["raise"]
  unwrap {m: ures}      ures = ["none"] | ["prune"] | ["to", m] | ["raise"]
  ctx   {"obj": m, "exiting": b, "inner": null|[f..], "children": [k..], "descr": null|[d..], "hide": b}
  mode  ["outside"] | ["inside", wc, rc] | ["e2e", rc]
        | ["e2e_during", rc] | ["e2e_exit", rc]: ctx.obj is a generator-based manager in state "new" with a `res`
          body; a real `with mgr:` in a plain function enters it (the model sees it entered) and the stack is taken
          from the body of that with (during) or from inside the resource's __exit__ reached through the
          generator's exit (a context that really is exiting, generator running)
  frames: own frame of the generator of gcm manager m = m, its `yield from` callee = 500+m.

History descriptors (_kind "hist") have no ctx/mode but
  hist  [op...]   op = ["reg", m]            register the hooks of synthetic manager m now (managers with a "reg"
                                             op start unregistered although "hooked" is true)
                     | ["fill", mode, ctx]   one fill_context, mode outside | inside
                     | ["frame", rc, [m..]]  ONE real frame `with m0: with m1: ...: yield` extracted with
                                             extract(with_contexts=True, recurse_child_tasks=rc): extract_iter itself
                                             runs fill_context on each context and contains the failures
  generator-based managers used as frame roots are in state "new", sync, and are entered by that frame (once).
"""
from __future__ import annotations

import itertools
import random
import re

from .common import cbool, clist, copt

PROP = "C11"
IMPORTS = "From SS Require Import Base M_Contexts.\nFrom SS.gen Require Import SrcFacts."
KINDS = {"main": dict(imports=IMPORTS, type="ccase", mismatch="mismatches", nontrivial="count_nontrivial"),
         "hist": dict(imports=IMPORTS, type="hcase", mismatch="hmismatches", nontrivial="hcount_nontrivial")}
SHARD = 120
RULE = ("random hook tables over 2..7 managers (synthetic classes with/without registered hooks, falsy and ==() "
        "instances; generator-based managers from fresh @contextmanager functions in the states new/entered/finished, "
        "with and without `yield from`, sharing functions) with unwrap results {None, PRUNE, manager (forward, self, "
        "backward: cycles), raise}, elaborate effects {set/append description, set/append children, set inner_stack, "
        "set obj, raise}, exiting and non-exiting contexts, fresh and pre-filled Context fields; each table is run "
        "outside extract, inside extract (all option pairs) and end-to-end through a real `with` in a generator frame; "
        "dedicated tables for the generator-based lookup against a pre-set inner_stack; generator-based wrappers whose "
        "body is `with resource: yield` (sync/async) with hooks answering frame.contexts[0].obj, on exiting and non-exiting "
        "contexts, outside/inside extract, and through a real `with` observed from its body and from inside the "
        "resource's __exit__ while the generator runs its exit; HISTORIES (kind hist): sequences of register-hooks / fill / real-frame operations over one set of managers "
        "(hooks registered after a manager was first filled hookless, directly, in a frame or as an unwrap result; frames "
        "of 2..5 nested with-blocks extracted by the real extract(), with a context failing by cycle guard / raising "
        "elaborate / raising unwrap before contexts that need unwrapping, PRUNE, generator-based elaboration), each "
        "step compared with the model under the registry at that time and each frame context with its isolated fill; "
        "linear chains of 0..3 and 98..102 steps, self-, 2- and mixed cycles; thorough adds the exhaustive scope of 2 free "
        "managers + sink. distinct = distinct descriptors; non-trivial = the model run replaces the manager, hides the "
        "context or raises")
CONFIG = dict(
    coq=["C11"], level="proof",
    claim=("Coq theorems (all hook tables, all chains, any loop bound) about an executable model of fill_context and of "
           "the generator-based-manager glue, relating it to a big-step reference relation written from the property "
           "text; tied to the code by differential comparison evaluated inside Coq on generated hook tables run through "
           "the real fill_context, with the loop bound and the options-restore fact regenerated from the source."),
    design_ref="DESIGN.md section 5 C11",
    trusted_base=["model M_Contexts.v (fill_context + glue_contextlib's two generator-based hooks) is hand-written; "
                  "hook behaviour is abstracted to finite stateless tables, an extracted Stack to its list of frames",
                  "the options visible to a hook are probed through the public extract_child(for_task=...)"],
    assumptions=["hooks are deterministic and stateless (their result depends on the manager only; elaborate effects are "
                 "a fixed list of field updates)",
                 "generator-based managers are not running while they are inspected (new, suspended at the yield, or finished)",
                 "options model is local to M_Contexts (M_Options of C13 is built in parallel and not imported)"],
    unproved_legs=[],
    timeout={"quick": 900, "thorough": 5400},
    NOTES=("Deviation from DESIGN 5 C11: the loop is structurally recursive on the guard, so there is no fuel and no "
           "OutOfFuel value at all; C11_outside_eq_inside uses a local options model (entry options, options seen by each "
           "hook, options afterwards) with the restore-in-finally fact from SrcFacts instead of M_Options."),
)

# ------------------------------------------------------------------ generation
U_NONE, U_PRUNE, U_RAISE = ["none"], ["prune"], ["raise"]


def _default_ctx(obj=0, exiting=False):
    return {"obj": obj, "exiting": exiting, "inner": None, "children": [], "descr": None, "hide": False}


def chain_case(n, end=("none",), mode=("outside",), kind="syn", exiting=False):
    """o0 -> o1 -> ... -> o_n, n successful unwrap steps, then `end` at o_n."""
    mgr, unwrap, elab, fns = {}, {}, {}, {}
    for m in range(n + 1):
        if kind in ("gcm", "agcm") or (kind == "mixed" and m % 2):
            mgr[str(m)] = {"k": "gcm", "fn": m, "state": "ent"}
            fns[str(m)] = {"yf": False, "reg": (["to", m + 1] if m < n else list(end))}
            if kind == "agcm" or (kind == "mixed" and m % 4 == 3):
                fns[str(m)]["async"] = True
        else:
            mgr[str(m)] = {"k": "syn", "hooked": True, "falsy": False, "eqp": False}
            unwrap[str(m)] = ["to", m + 1] if m < n else list(end)
            elab[str(m)] = [["ad", m % 7], ["ac", m % 5]]
    return {"mgr": mgr, "fns": fns, "xfr": {}, "elab": elab, "unwrap": unwrap,
            "ctx": _default_ctx(0, exiting), "mode": list(mode), "expect_loop": n >= 100}


def cycle_case(period, mode=("outside",), kind="syn", lead=0, exiting=False):
    d = chain_case(lead + period - 1, mode=mode, kind=kind, exiting=exiting)
    last = str(lead + period - 1)
    if d["mgr"][last]["k"] == "gcm":
        d["fns"][last]["reg"] = ["to", lead]
    else:
        d["unwrap"][last] = ["to", lead]
    d["expect_loop"] = True
    return d


def specials():
    out = []
    for n in (0, 1, 2, 3, 98, 99, 100, 101, 102):
        out.append(chain_case(n))
    for n in (99, 100):
        out.append(chain_case(n, end=("prune",)))
        out.append(chain_case(n, end=("raise",)))
        out.append(chain_case(n, mode=("inside", True, False)))
        out.append(chain_case(n, kind="mixed"))
    out.append(chain_case(100, mode=("inside", False, True)))
    out.append(chain_case(100, mode=("e2e", False)))
    out.append(chain_case(100, kind="gcm", exiting=True))
    out.append(chain_case(3, kind="agcm"))
    out.append(chain_case(3, kind="agcm", exiting=True))
    out.append(cycle_case(2, kind="agcm"))
    for kind in ("syn", "gcm", "mixed"):
        for p in (1, 2, 3):
            for ex in (False, True):
                out.append(cycle_case(p, kind=kind, exiting=ex))
        out.append(cycle_case(2, kind=kind, lead=2, mode=("inside", True, True)))
    out.append(cycle_case(1, mode=("e2e", True)))
    # reset-before-re-elaboration, PRUNE after a replacement, obj overwritten by elaborate
    base = {"fns": {}, "xfr": {}, "mode": ["outside"]}
    syn = {"k": "syn", "hooked": True, "falsy": False, "eqp": False}
    out.append(dict(base, mgr={"0": syn, "1": syn, "2": syn},
                    elab={"0": [["sc", [1, 2]], ["si", [900]], ["sd", 1]], "1": [["ac", 3], ["ad", 2]], "2": [["ac", 4]]},
                    unwrap={"0": ["to", 1], "1": ["to", 2], "2": ["prune"]}, xfr={"0": {"reg": None}}, ctx=_default_ctx()))
    out.append(dict(base, mgr={"0": syn, "1": syn, "2": syn},
                    elab={"0": [["so", 2], ["sc", [7]]], "2": [["ad", 5]]},
                    unwrap={"0": ["raise"], "1": ["none"], "2": ["to", 1]}, ctx=_default_ctx()))
    # the two lookup paths of a generator-based manager, pre-filled foreign inner_stack
    for ex in (False, True):
        for st in ("new", "ent", "done"):
            for yf in (False, True):
                out.append(dict(base, mgr={"0": {"k": "gcm", "fn": 0, "state": st}, "1": syn},
                                fns={"0": {"yf": yf, "reg": ["to", 1]}}, elab={"1": [["ad", 1]]}, unwrap={"1": ["none"]},
                                ctx=_default_ctx(0, ex)))
            out.append(dict(base, mgr={"0": {"k": "gcm", "fn": 0, "state": st}, "1": syn},
                            fns={"0": {"yf": False, "reg": ["to", 1], "async": True}}, elab={"1": [["ad", 1]]},
                            unwrap={"1": ["none"]}, ctx=_default_ctx(0, ex)))
        out.append(dict(base, mgr={"0": {"k": "gcm", "fn": 0, "state": "ent"}, "1": {"k": "gcm", "fn": 1, "state": "ent"}, "2": syn},
                        fns={"0": {"yf": False, "reg": ["to", 2]}, "1": {"yf": True, "reg": ["prune"]}},
                        elab={}, unwrap={}, ctx=dict(_default_ctx(0, ex), inner=[1, 501])))
        out.append(dict(base, mgr={"0": {"k": "gcm", "fn": 0, "state": "done"}, "1": syn},
                        fns={"0": {"yf": False, "reg": ["to", 1]}}, xfr={"0": {"reg": ["to", 1]}},
                        elab={}, unwrap={}, ctx=dict(_default_ctx(0, ex), inner=[900])))
    # a manager that compares equal to () is taken for PRUNE (observation, see C11_eqprune_refuted)
    out.append(dict(base, mgr={"0": syn, "1": dict(syn, eqp=True)}, elab={}, unwrap={"0": ["to", 1]},
                    ctx=_default_ctx(), _sig="C11_manager_equal_to_empty_tuple"))
    # falsy managers keep unwrapping
    out.append(dict(base, mgr={"0": syn, "1": dict(syn, falsy=True), "2": syn}, elab={"1": [["sd", 1]]},
                    unwrap={"0": ["to", 1], "1": ["to", 2]}, ctx=_default_ctx()))
    return out


def _ures(rng, n, m, p_none=0.25, p_prune=0.15, p_raise=0.05):
    z = rng.random()
    if z < p_none:
        return ["none"]
    if z < p_none + p_prune:
        return ["prune"]
    if z < p_none + p_prune + p_raise:
        return ["raise"]
    fwd = [x for x in range(n) if x > m]
    if fwd and rng.random() < 0.93:
        return ["to", rng.choice(fwd)]
    if not fwd and rng.random() < 0.75:
        return rng.choice((["none"], ["none"], ["prune"]))
    return ["to", rng.randrange(n)]


def _effs(rng, n, alive_frames, m=0):
    out = []
    for _ in range(rng.choice((0, 1, 1, 2, 2, 3))):
        z = rng.random()
        if z < 0.2:
            out.append(["sd", rng.randrange(6)])
        elif z < 0.4:
            out.append(["ad", rng.randrange(6)])
        elif z < 0.55:
            out.append(["sc", [rng.randrange(5) for _ in range(rng.randrange(0, 3))]])
        elif z < 0.75:
            out.append(["ac", rng.randrange(5)])
        elif z < 0.87:
            if rng.random() < 0.25 or not alive_frames:
                out.append(["si", None] if rng.random() < 0.5 else ["si", []])
            else:
                out.append(["si", [rng.choice(alive_frames) for _ in range(rng.randrange(1, 3))]])
        elif z < 0.96:
            out.append(["so", rng.randrange(m + 1, n) if m + 1 < n and rng.random() < 0.8 else rng.randrange(n)])
        else:
            out.append(["raise"])
    return out


def eff_state(d, m):
    """state the model sees: the root of the real-with modes is entered by the harness"""
    a = d["mgr"][str(m)]
    if d.get("mode", ["outside"])[0] in ("e2e_during", "e2e_exit") and int(m) == d["ctx"]["obj"]:
        return "ent"
    return a["state"]


def alive_frames_of(d):
    fr = []
    for m, a in d["mgr"].items():
        if a["k"] == "gcm" and a["state"] != "done":
            fr.append(int(m))
            if a["state"] == "ent" and d["fns"][str(a["fn"])]["yf"]:
                fr.append(500 + int(m))
    fr += [900 + int(i) for i in d["xfr"]]
    return sorted(fr)


def gen_case(rng: random.Random, nmax=7):
    n = rng.randrange(2, nmax + 1)
    nf = rng.randrange(1, 4)
    d = {"mgr": {}, "fns": {}, "xfr": {}, "elab": {}, "unwrap": {}}
    z = rng.random()
    if z < 0.4:
        d["mode"] = ["outside"]
    elif z < 0.6:
        d["mode"] = ["inside", True, False]
    elif z < 0.85:
        d["mode"] = ["inside", rng.random() < 0.5, rng.random() < 0.5]
    else:
        d["mode"] = ["e2e", rng.random() < 0.5]
    e2e = d["mode"][0] == "e2e"
    root = 0 if rng.random() < 0.7 else rng.randrange(n)
    p_gcm = rng.choice((0.0, 0.3, 0.3, 0.6))
    used = set()
    for m in range(n):
        if rng.random() < p_gcm and not (e2e and m == root):
            c = rng.randrange(nf)
            used.add(c)
            d["mgr"][str(m)] = {"k": "gcm", "fn": c, "state": rng.choice(("new", "ent", "ent", "ent", "done"))}
        else:
            d["mgr"][str(m)] = {"k": "syn", "hooked": rng.random() < 0.9, "falsy": rng.random() < 0.15,
                                "eqp": rng.random() < 0.03 and not (e2e and m == root)}
    # "pathy" tables prefer m -> m+1 so that chains of 3..n steps are common
    pathy = rng.random() < 0.5

    def ures(m, p_none, p_prune, p_raise):
        if pathy and m + 1 < n and rng.random() < 0.75:
            return ["to", m + 1]
        return _ures(rng, n, m, p_none, p_prune, p_raise)
    for c in sorted(used):
        first = max(int(m) for m, a in d["mgr"].items() if a["k"] == "gcm" and a["fn"] == c)
        d["fns"][str(c)] = {"yf": rng.random() < 0.35,
                            "reg": ures(first, 0.12, 0.13, 0.06) if rng.random() < 0.8 else None}
    inert = [int(m) for m, a in d["mgr"].items() if a["k"] == "syn" and not a["hooked"]]
    for spec in d["fns"].values():
        if not spec["yf"] and rng.random() < 0.3:
            spec["async"] = True
        if not spec["yf"] and inert and rng.random() < 0.5:
            spec["res"] = rng.choice(inert)
        if spec["reg"] is not None and rng.random() < (0.6 if "res" in spec else 0.15):
            spec["ctx0"] = True
    for i in range(rng.choice((0, 0, 1, 2))):
        d["xfr"][str(i)] = {"reg": _ures(rng, n, -1, 0.2, 0.2, 0.1) if rng.random() < 0.6 else None}
    alive = alive_frames_of(d)
    for m in range(n):
        if d["mgr"][str(m)]["k"] == "syn":
            d["elab"][str(m)] = _effs(rng, n, alive, m)
            d["unwrap"][str(m)] = ures(m, 0.2, 0.12, 0.04)
    ctx = _default_ctx(root, rng.random() < 0.35 and not e2e)
    if rng.random() < 0.15 and not e2e:
        z = rng.random()
        ctx["inner"] = None if z < 0.3 else ([] if z < 0.45 or not alive else [rng.choice(alive) for _ in range(rng.randrange(1, 3))])
        ctx["children"] = [rng.randrange(5) for _ in range(rng.randrange(0, 3))]
        ctx["descr"] = None if rng.random() < 0.5 else [rng.randrange(6)]
        ctx["hide"] = rng.random() < 0.2
    d["ctx"] = ctx
    if any(a.get("eqp") for a in d["mgr"].values()):
        d["_sig"] = "C11_manager_equal_to_empty_tuple"
    return d


def gen_path_case(rng: random.Random):
    """the lookup of a generator-based manager against a pre-set inner_stack (empty, its own frames, frames of
    another generator or of a plain function), with its own code and/or the foreign code registered or not"""
    syn = {"k": "syn", "hooked": True, "falsy": False, "eqp": False}
    d = {"mgr": {"1": {"k": "gcm", "fn": 0, "state": rng.choice(("new", "ent", "ent", "done"))},
                 "2": {"k": "gcm", "fn": rng.choice((0, 1)), "state": rng.choice(("new", "ent"))},
                 "3": syn, "4": syn},
         "fns": {}, "xfr": {"0": {"reg": rng.choice((None, ["to", 4], ["prune"], ["none"]))}},
         "elab": {"3": [["ad", 3]], "4": [["ad", 4]]}, "unwrap": {"3": ["none"], "4": ["none"]}}
    for c in (0, 1):
        d["fns"][str(c)] = {"yf": rng.random() < 0.4, "reg": rng.choice((None, None, ["to", 3], ["to", 3], ["prune"], ["none"], ["raise"]))}
    if d["mgr"]["2"]["fn"] == 0:
        del d["fns"]["1"]
    for spec in d["fns"].values():
        if not spec["yf"] and rng.random() < 0.3:
            spec["async"] = True
    alive = alive_frames_of(d)
    preset = rng.choice([None, [], [], [rng.choice(alive)], [rng.choice(alive), rng.choice(alive)]])
    if rng.random() < 0.5:
        # reached through a synthetic manager whose elaborate sets inner_stack and then overwrites obj
        d["mgr"]["0"] = syn
        d["elab"]["0"] = [["si", preset], ["so", 1]]
        d["unwrap"]["0"] = ["none"]
        d["ctx"] = _default_ctx(0, rng.random() < 0.5)
    else:
        d["mgr"]["0"] = syn
        d["elab"]["0"] = []
        d["unwrap"]["0"] = ["none"]
        d["ctx"] = dict(_default_ctx(1, True), inner=preset)
    d["mode"] = rng.choice((["outside"], ["inside", True, False], ["inside", False, True]))
    return d


def gen_with_case(rng: random.Random, mode=None, state=None, asy=None):
    """generator-based wrapper whose body is `with resource: yield`; its registered hook answers
    frame.contexts[0].obj (the pattern of stackscope's pytest-trio glue), with a table fallback"""
    syn = {"k": "syn", "hooked": True, "falsy": False, "eqp": False}
    inert = {"k": "syn", "hooked": False, "falsy": rng.random() < 0.1, "eqp": False}
    if mode is None:
        mode = rng.choice((["outside"], ["outside"], ["inside", True, False], ["inside", True, True],
                           ["inside", False, rng.random() < 0.5], ["e2e_during", rng.random() < 0.5],
                           ["e2e_exit", rng.random() < 0.5]))
    real = mode[0] in ("e2e_during", "e2e_exit")
    if state is None:
        state = "new" if real else rng.choice(("new", "ent", "ent", "ent", "done"))
    if asy is None:
        asy = (not real) and rng.random() < 0.4
    d = {"mgr": {"0": {"k": "gcm", "fn": 0, "state": state}, "1": inert, "2": syn,
                 "3": {"k": "gcm", "fn": 1, "state": rng.choice(("ent", "ent", "new"))}, "4": dict(inert, falsy=False)},
         "fns": {"0": {"yf": False, "res": 1, "ctx0": rng.random() < 0.85, "async": asy,
                       "reg": rng.choice((["none"], ["none"], ["to", 2], ["to", 3], ["prune"], ["raise"]))},
                 "1": {"yf": False, "res": 4, "ctx0": rng.random() < 0.7, "async": rng.random() < 0.4,
                       "reg": rng.choice((["none"], ["to", 2], ["prune"]))}},
         "xfr": {}, "elab": {"2": [["ad", 2], ["ac", 2]]},
         "unwrap": {"2": rng.choice((["none"], ["none"], ["prune"], ["to", 3]))}}
    if real or rng.random() < 0.7:
        d["ctx"] = _default_ctx(0, mode[0] == "e2e_exit" or (not real and rng.random() < 0.5))
    else:
        # reached through a synthetic manager first
        d["mgr"]["5"] = syn
        d["elab"]["5"] = [["sc", [1]]]
        d["unwrap"]["5"] = ["to", 0]
        d["ctx"] = _default_ctx(5, rng.random() < 0.5)
    d["mode"] = mode
    return d


def with_specials():
    rng = random.Random(4711)
    out = []
    for mode in (["outside"], ["inside", True, False], ["inside", True, True], ["inside", False, False]):
        for state in ("new", "ent", "done"):
            for asy in (False, True):
                for ex in (False, True):
                    d = gen_with_case(rng, mode=list(mode), state=state, asy=asy)
                    d["fns"]["0"].update(ctx0=True, reg=["none"])
                    d["ctx"] = _default_ctx(0, ex)
                    d["mgr"].pop("5", None), d["elab"].pop("5", None), d["unwrap"].pop("5", None)
                    out.append(d)
    for mode in (["e2e_during", False], ["e2e_during", True], ["e2e_exit", False], ["e2e_exit", True]):
        for reg in (["none"], ["to", 2]):
            for c0 in (True, False):
                d = gen_with_case(rng, mode=list(mode))
                d["fns"]["0"].update(ctx0=c0, reg=reg)
                out.append(d)
    return out


# ------------------------------------------------------------------ histories (register / fill / frame sequences)
HIST_MODES = (["outside"], ["outside"], ["inside", True, False], ["inside", True, True], ["inside", False, True])


def _frame_roots_ok(d):
    """managers that may be a with-target of a real frame: synthetic (not ==()), or generator-based, sync, new"""
    out = []
    for m, a in d["mgr"].items():
        if a["k"] == "syn":
            if not a.get("eqp"):
                out.append(int(m))
        elif a["state"] == "new" and not d["fns"][str(a["fn"])].get("async"):
            out.append(int(m))
    return out


def gen_hist_case(rng: random.Random):
    base = gen_case(rng)
    d = {k: base[k] for k in ("mgr", "fns", "xfr", "elab", "unwrap")}
    n = len(d["mgr"])
    syn = {"k": "syn", "hooked": True, "falsy": False, "eqp": False}
    # three managers whose fill fails in a contained way: cycle guard, raising elaborate, raising unwrap
    d["mgr"][str(n)] = dict(syn)
    d["elab"][str(n)] = [["ad", 1]]
    d["unwrap"][str(n)] = ["to", n]
    d["mgr"][str(n + 1)] = dict(syn)
    d["elab"][str(n + 1)] = [["sd", 2], ["raise"]]
    d["unwrap"][str(n + 1)] = ["none"]
    d["mgr"][str(n + 2)] = dict(syn)
    d["elab"][str(n + 2)] = [["ac", 3]]
    d["unwrap"][str(n + 2)] = ["raise"]
    failing = [n + 1, n + 2] * 5 + [n]
    hooked = [int(m) for m, a in d["mgr"].items() if a["k"] == "syn" and a["hooked"]]
    late = [m for m in hooked if rng.random() < (0.45 if m < n else 0.15)]
    allm = list(range(n + 3))
    gcm_roots_left = [m for m in _frame_roots_ok(d) if d["mgr"][str(m)]["k"] == "gcm"]
    syn_roots = [m for m in _frame_roots_ok(d) if d["mgr"][str(m)]["k"] == "syn"]

    def a_fill(obj=None):
        return ["fill", list(rng.choice(HIST_MODES)),
                _default_ctx(rng.choice(allm) if obj is None else obj, rng.random() < 0.3)]

    def a_frame(must=None):
        k = rng.randrange(2, 5)
        roots = []
        if rng.random() < 0.6:
            roots.append(rng.choice(failing))
        if must is not None and must not in roots:
            roots.append(must)
        tries = 0
        while len(roots) < k and tries < 40:
            tries += 1
            z = rng.random()
            if z < 0.25 and gcm_roots_left:
                roots.append(gcm_roots_left.pop(rng.randrange(len(gcm_roots_left))))
            elif z < 0.35:
                c = rng.choice(failing)
                if c not in roots:
                    roots.append(c)
            elif syn_roots:
                c = rng.choice(syn_roots)
                if c not in roots:
                    roots.append(c)
        if rng.random() < 0.3:
            rng.shuffle(roots)
        return ["frame", rng.random() < 0.4, roots]

    ops = [a_frame() if rng.random() < 0.45 else a_fill() for _ in range(rng.randrange(2, 5))]
    for m in late:
        p = rng.randrange(len(ops) + 1)
        seq = []
        if rng.random() < 0.75:      # seen without hooks first (directly, in a frame, or as an unwrap result)
            seq.append(a_fill(m) if rng.random() < 0.6 or m not in syn_roots else a_frame(m))
        seq.append(["reg", m])
        if rng.random() < 0.85:
            seq.append(a_fill(m) if rng.random() < 0.6 or m not in syn_roots else a_frame(m))
        ops[p:p] = seq
    d["hist"] = ops
    d["_kind"] = "hist"
    if any(a.get("eqp") for a in d["mgr"].values()):
        d["_sig"] = "C11_manager_equal_to_empty_tuple"
    return d


def hist_specials():
    syn = {"k": "syn", "hooked": True, "falsy": False, "eqp": False}
    out = []
    # hooks registered after the type was first seen hookless: direct, as an unwrap result, PRUNE, in a frame
    for mode in (["outside"], ["inside", True, False]):
        out.append({"_kind": "hist", "fns": {}, "xfr": {},
                    "mgr": {"0": syn, "1": syn, "2": syn, "3": syn},
                    "elab": {"0": [["sd", 1]], "1": [["ad", 2], ["ac", 2]], "2": [["ad", 3]], "3": [["sd", 4]]},
                    "unwrap": {"0": ["to", 2], "1": ["to", 0], "2": ["none"], "3": ["prune"]},
                    "hist": [["fill", mode, _default_ctx(0)], ["fill", mode, _default_ctx(3)], ["frame", False, [0, 3]],
                             ["reg", 0], ["reg", 3],
                             ["fill", mode, _default_ctx(0)], ["fill", mode, _default_ctx(1)],
                             ["fill", mode, _default_ctx(3)], ["frame", False, [3, 0, 1]]]})
    # an earlier context of the same frame fails (cycle guard / raising elaborate / raising unwrap); the later ones
    # need unwrapping, a description + inner_stack (generator-based), PRUNE
    for first in (4, 5, 6):
        for rc in (False, True):
            out.append({"_kind": "hist", "xfr": {},
                        "fns": {"0": {"yf": False, "reg": None}, "1": {"yf": True, "reg": ["to", 1]}},
                        "mgr": {"0": syn, "1": syn, "2": {"k": "gcm", "fn": 0, "state": "new"}, "3": syn, "4": syn, "5": syn,
                                "6": syn, "7": {"k": "gcm", "fn": 1, "state": "new"}},
                        "elab": {"0": [["sd", 1]], "1": [["ad", 2], ["ac", 2]], "3": [["sd", 4]], "4": [["ad", 1]],
                                 "5": [["sd", 2], ["raise"]], "6": [["ac", 3]]},
                        "unwrap": {"0": ["to", 1], "1": ["none"], "3": ["prune"], "4": ["to", 4], "5": ["none"], "6": ["raise"]},
                        "hist": [["frame", rc, [first, 0, 2, 3]], ["frame", rc, [1, 5, 7, 6, 3]]]})
    return out


E_ALPH = [[], [["sd", 1]], [["ac", 1]], [["si", []]], [["so", 2]], [["ad", 2], ["sc", [3]]], [["raise"]]]
U_ALPH = [["none"], ["prune"], ["to", 0], ["to", 1], ["to", 2], ["raise"]]


def exhaustive(stride=1, offset=0):
    """managers 0 and 1 free (synthetic: elaborate x unwrap alphabets; generator-based: state x registration),
    manager 2 a fixed sink that appends to description and children."""
    per = []
    for e in E_ALPH:
        for u in U_ALPH:
            per.append(("syn", e, u))
    for st in ("new", "ent", "done"):
        for reg in [None] + U_ALPH:
            per.append(("gcm", st, reg))
    n = 0
    for a, b in itertools.product(per, per):
        for ex in (False, True):
            n += 1
            if (n + offset) % stride:
                continue
            d = {"mgr": {"2": {"k": "syn", "hooked": True, "falsy": False, "eqp": False}}, "fns": {}, "xfr": {},
                 "elab": {"2": [["ad", 9], ["ac", 9]]}, "unwrap": {"2": ["none"]},
                 "ctx": _default_ctx(0, ex), "mode": ["outside"] if n % 3 else ["inside", True, False]}
            for m, spec in ((0, a), (1, b)):
                if spec[0] == "syn":
                    d["mgr"][str(m)] = {"k": "syn", "hooked": True, "falsy": False, "eqp": False}
                    d["elab"][str(m)] = spec[1]
                    d["unwrap"][str(m)] = spec[2]
                else:
                    d["mgr"][str(m)] = {"k": "gcm", "fn": m, "state": spec[1]}
                    d["fns"][str(m)] = {"yf": m == 1, "reg": spec[2]}
                    if m == 0 and n % 2:
                        d["fns"][str(m)]["async"] = True
            yield d


def make_inputs(tier, seed):
    rng = random.Random(seed * 7919 + 11)
    yield from specials()
    yield from with_specials()
    n = 1800 if tier == "quick" else 20000
    for _ in range(n):
        yield gen_case(rng)
    for _ in range(n // 6):
        yield gen_path_case(rng)
    for _ in range(n // 5):
        yield gen_with_case(rng)
    yield from hist_specials()
    for _ in range(n // 10):
        yield gen_hist_case(rng)
    if tier == "thorough":
        yield from exhaustive()
    else:
        yield from exhaustive(stride=23, offset=seed)


# ------------------------------------------------------------------ running the implementation
class Boom(Exception):
    def __init__(self, kind, ident):
        super().__init__(kind, ident)
        self.kind, self.ident = kind, ident


_PROBE = {}


def _probe_setup():
    """two suspended generators used to read the extract options through the public API"""
    if _PROBE:
        return _PROBE

    class PlainCM:
        def __enter__(self):
            return self

        def __exit__(self, *a):
            return None

    def task():
        yield 1

    def ctxgen():
        with PlainCM():
            yield 1

    t, c = task(), ctxgen()
    next(t)
    next(c)
    _PROBE.update(task=t, ctxgen=c)
    return _PROBE


def probe_options():
    """None if no extract options are in force, else [with_contexts, recurse_child_tasks]"""
    from stackscope import extract_child
    p = _probe_setup()
    try:
        st = extract_child(p["task"], for_task=True)
    except RuntimeError:
        return None
    rc = bool(st.frames)
    st2 = extract_child(p["ctxgen"], for_task=False)
    wc = bool(st2.frames and st2.frames[0].contexts)
    return [wc, rc]


_HOOK_PROBE = {"n": 0, "last": None}


def hook_probe():
    """options as seen by a hook call: probed for the first 8 hook calls of a run and then for every 16th (long
    cycles make hundreds of calls, each probe is two extractions); in between the last probed value is reported"""
    st = _HOOK_PROBE
    st["n"] += 1
    if st["n"] <= 8 or st["n"] % 16 == 0:
        st["last"] = probe_options()
    return st["last"]


def _registry_dict(dispatcher):
    import gc
    import types
    reg = dispatcher.registry
    if isinstance(reg, types.MappingProxyType):
        (reg,) = gc.get_referents(reg)
    return reg


def _unregister(dispatcher, keys):
    """harness-side clean-up so that thousands of cases do not slow singledispatch down; cases
    use fresh classes / code objects, so a failure here is harmless"""
    try:
        reg = _registry_dict(dispatcher)
        for k in keys:
            try:
                del reg[k]
            except KeyError:
                pass
        if hasattr(dispatcher, "_clear_cache"):
            dispatcher._clear_cache()
    except Exception:
        pass


def _drive(coro):
    """run a coroutine that never really suspends (entering / leaving an @asynccontextmanager)"""
    try:
        coro.send(None)
    except StopIteration as ex:
        return ex.value
    coro.close()
    raise RuntimeError("coroutine suspended")


def run_case(d):
    import sys
    from contextlib import contextmanager, asynccontextmanager
    import stackscope
    from stackscope import (Context, Frame, Stack, PRUNE, elaborate_context, unwrap_context,
                            unwrap_context_generator, unwrap_stackitem, fill_context, extract)

    n = len(d["mgr"])
    objs, classes = {}, {}
    fn_of, pyf = {}, {}
    log = []
    reg_cls, reg_code, reg_item = [], [], []

    class Kid:
        def __init__(self, k):
            self.k = k

    def conv_ures(r):
        if r[0] == "none":
            return None
        if r[0] == "prune":
            return PRUNE
        return objs[r[1]]

    # --- synthetic managers first (generator bodies may hold one of them open)
    def _on_exit(self, *a):
        cb = getattr(self, "on_exit", None)
        if cb is not None:
            cb()
        return None

    async def _aenter(self):
        return self

    async def _aexit(self, *a):
        return None

    for m, a in d["mgr"].items():
        m = int(m)
        if a["k"] != "gcm":
            body = {"__enter__": (lambda self: self), "__exit__": _on_exit, "__aenter__": _aenter, "__aexit__": _aexit,
                    "__repr__": (lambda self, m=m: f"<M{m}>")}
            if a.get("falsy"):
                body["__bool__"] = lambda self: False
            if a.get("eqp"):
                body["__eq__"] = lambda self, other: other is self or (isinstance(other, tuple) and len(other) == 0)
                body["__hash__"] = object.__hash__
            classes[m] = type(f"M{m}", (), body)
            objs[m] = classes[m]()
    # --- generator functions and generator-based managers
    for c, spec in d["fns"].items():
        ns = {"__name__": "c11cases", "contextmanager": contextmanager, "asynccontextmanager": asynccontextmanager}
        res = spec.get("res")
        if res is not None:
            ra = d["mgr"][str(res)]
            assert ra["k"] == "syn" and not ra["hooked"] and not spec["yf"], "resource managers must be inert"
            ns["RES"] = objs[res]
        if spec.get("async"):
            body = "    async with RES:\n        yield\n" if res is not None else "    yield\n"
            src = f"@asynccontextmanager\nasync def cm_{c}(x):\n{body}"
        elif spec["yf"]:
            src = f"def sub_{c}():\n    yield\n@contextmanager\ndef cm_{c}(x):\n    yield from sub_{c}()\n"
        else:
            body = "    with RES:\n        yield\n" if res is not None else "    yield\n"
            src = f"@contextmanager\ndef cm_{c}(x):\n{body}"
        exec(src, ns)
        fn_of[int(c)] = ns[f"cm_{c}"]
    for i in d["xfr"]:
        ns = {"__name__": "c11cases", "sys": sys}
        exec(f"def xf_{i}():\n    return sys._getframe(0)\n", ns)
        fn_of[900 + int(i)] = ns[f"xf_{i}"]
        pyf[900 + int(i)] = ns[f"xf_{i}"]()
    for m, a in d["mgr"].items():
        m = int(m)
        if a["k"] == "gcm":
            mg = fn_of[a["fn"]](m)
            if d["fns"][str(a["fn"])].get("async"):
                if a["state"] in ("ent", "done"):
                    _drive(mg.__aenter__())
                if a["state"] == "done":
                    _drive(mg.__aexit__(None, None, None))
                objs[m] = mg
                if mg.gen.ag_frame is not None:
                    pyf[m] = mg.gen.ag_frame
                continue
            if a["state"] in ("ent", "done"):
                mg.__enter__()
            if a["state"] == "done":
                mg.__exit__(None, None, None)
            objs[m] = mg
            if mg.gen.gi_frame is not None:
                pyf[m] = mg.gen.gi_frame
                sub = mg.gen.gi_yieldfrom
                if sub is not None:
                    pyf[500 + m] = sub.gi_frame
    oid = {id(o): m for m, o in objs.items()}
    fid = {id(f): k for k, f in pyf.items()}
    code_id = {id(fn.__wrapped__.__code__ if hasattr(fn, "__wrapped__") else fn.__code__): c for c, fn in fn_of.items()}

    def mkstack(frames):
        return Stack(root=None, frames=[Frame(pyframe=pyf[f]) for f in frames])

    # --- hooks
    def make_hooks(m):
        effs = d["elab"].get(str(m), [])
        ur = d["unwrap"].get(str(m), ["none"])

        def elab(mgr, context):
            log.append(["elab", oid.get(id(mgr), 4999), hook_probe()])
            for e in effs:
                if e[0] == "sd":
                    context.description = f"t{e[1]}"
                elif e[0] == "ad":
                    context.description = (context.description + "+" if context.description is not None else "") + f"t{e[1]}"
                elif e[0] == "sc":
                    context.children = [Stack(root=Kid(k), frames=[]) for k in e[1]]
                elif e[0] == "ac":
                    context.children = list(context.children) + [Stack(root=Kid(e[1]), frames=[])]
                elif e[0] == "si":
                    context.inner_stack = None if e[1] is None else mkstack(e[1])
                elif e[0] == "so":
                    context.obj = objs[e[1]]
                else:
                    raise Boom("elab", m)

        def unwrap(mgr, context):
            log.append(["unwrap", oid.get(id(mgr), 4999), hook_probe()])
            if ur[0] == "raise":
                raise Boom("unwrap", m)
            return conv_ures(ur)
        return elab, unwrap

    late = {op[1] for op in d.get("hist", []) if op[0] == "reg"}

    def register_syn(m):
        e, u = make_hooks(m)
        elaborate_context.register(classes[m], e)
        unwrap_context.register(classes[m], u)
        reg_cls.append(classes[m])

    for m, a in d["mgr"].items():
        m = int(m)
        if a["k"] == "syn" and a["hooked"] and m not in late:
            register_syn(m)

    def make_ghook(c, r, ctx0):
        def ghook(frame, context):
            log.append(["gen", code_id.get(id(frame.pyframe.f_code), 4999), fid.get(id(frame.pyframe), 4999),
                        context.inner_stack is None, [oid.get(id(cx.obj), 4999) for cx in frame.contexts],
                        hook_probe()])
            if ctx0 and frame.contexts:
                return frame.contexts[0].obj
            if r[0] == "raise":
                raise Boom("gen", c)
            return conv_ures(r)
        return ghook

    for c, spec in list(d["fns"].items()) + [(900 + int(i), s) for i, s in d["xfr"].items()]:
        if spec["reg"] is not None:
            unwrap_context_generator.register(fn_of[int(c)], make_ghook(int(c), spec["reg"], bool(spec.get("ctx0"))))
            reg_code.append(stackscope.lowlevel.get_code(fn_of[int(c)]))

    # --- the Context
    def build_ctx(cs):
        return Context(obj=objs[cs["obj"]], is_async=False, is_exiting=cs["exiting"],
                       inner_stack=None if cs["inner"] is None else mkstack(cs["inner"]),
                       children=[Stack(root=Kid(k), frames=[]) for k in cs["children"]] if cs["children"] else (),
                       description=None if cs["descr"] is None else "+".join(f"t{x}" for x in cs["descr"]),
                       hide=cs["hide"])

    def parse_repr(s):
        s = s.strip()
        if s == "None":
            return ["none"]
        if s == "()":
            return ["prune"]
        mm = re.match(r"^<M(\d+)>$", s)
        if mm:
            return ["to", int(mm.group(1))]
        mm = re.search(r" at (0x[0-9a-fA-F]+)>$", s)
        if mm:
            return ["to", oid.get(int(mm.group(1), 16), 4999)]
        return ["to", 4999]

    def exc_of(ex):
        if ex is None:
            return ["ok"]
        if isinstance(ex, Boom):
            return ["boom", ex.kind, ex.ident]
        if isinstance(ex, RuntimeError):
            mm = re.match(r"^(.*) has been unwrapped more than (\d+) times without reaching something irreducible; "
                          r"probably an infinite loop\? \(next result is (.*)\)$", str(ex), re.S)
            if mm:
                return ["loop", parse_repr(mm.group(1)), int(mm.group(2)), parse_repr(mm.group(3))]
        return ["other", repr(ex)[:300]]

    def descr_of(s):
        if s is None:
            return None
        out = []
        for part in s.split("+"):
            mm = re.match(r"^t(\d+)$", part)
            if mm:
                out.append(["t", int(mm.group(1))])
                continue
            mm = re.match(r"^(?:[\w.]+\.)?cm_(\d+)\((\d+|\.\.\.)\)$", part)
            if mm:
                out.append(["gn", int(mm.group(1)), int(mm.group(2))] if mm.group(2) != "..." else ["ge", int(mm.group(1))])
                continue
            out.append(["t", 4999])
        return out

    def ctx_of(c):
        return {"obj": oid.get(id(c.obj), 4999),
                "inner": None if c.inner_stack is None else [
                    [fid.get(id(f.pyframe), 4999), [oid.get(id(cx.obj), 4999) for cx in f.contexts]]
                    for f in c.inner_stack.frames],
                "children": [getattr(getattr(k, "root", None), "k", 4999) for k in c.children],
                "hide": bool(c.hide), "descr": descr_of(c.description), "exiting": bool(c.is_exiting)}

    def run_one(cs, mode):
        obs = {}
        start = len(log)
        _HOOK_PROBE["n"] = 0
        if mode[0] == "outside":
            ctx = build_ctx(cs)
            before = probe_options()
            try:
                fill_context(ctx)
                exc = None
            except Exception as ex:
                exc = ex
            obs = {"ctx": ctx_of(ctx), "exc": exc_of(exc), "before": before, "after": probe_options()}
        elif mode[0] == "inside":
            ctx = build_ctx(cs)
            box = {}

            class Item:
                pass

            def item_hook(it):
                box["before"] = probe_options()
                try:
                    fill_context(ctx)
                    box["exc"] = None
                except Exception as ex:
                    box["exc"] = ex
                box["after"] = probe_options()
                return None
            unwrap_stackitem.register(Item, item_hook)
            reg_item.append(Item)
            st = extract(Item(), with_contexts=mode[1], recurse_child_tasks=mode[2])
            obs = {"ctx": ctx_of(ctx), "exc": exc_of(box.get("exc")), "before": box.get("before"),
                   "after": box.get("after"), "outer_error": None if st.error is None else repr(st.error)[:200],
                   "ran": "exc" in box, "unset_after": probe_options() is None}
        elif mode[0] in ("e2e_during", "e2e_exit"):
            # a real `with <generator-based manager>:` in a plain function; the stack is taken from the body of the
            # with, or from inside the inert resource's __exit__ while the generator is running its exit
            from stackscope import extract_since
            root = cs["obj"]
            ra = d["mgr"][str(root)]
            spec = d["fns"][str(ra["fn"])]
            assert ra["k"] == "gcm" and ra["state"] == "new" and spec.get("res") is not None and not spec.get("async")
            resobj = objs[spec["res"]]
            ns = {"sys": sys}
            exec("def subject(mgr, during, at_exit):\n    fr = sys._getframe(0)\n    at_exit(fr)\n"
                 "    with mgr:\n        during(fr)\n", ns)
            box = {}

            def snap(fr):
                box["st"] = extract_since(fr, with_contexts=True, recurse_child_tasks=mode[1])

            def arm(fr):
                if mode[0] == "e2e_exit":
                    resobj.on_exit = lambda: snap(fr)
            try:
                ns["subject"](objs[root], snap if mode[0] == "e2e_during" else (lambda fr: None), arm)
            finally:
                resobj.on_exit = None
            st = box.get("st")
            cxs = st.frames[0].contexts if st is not None and st.frames else []
            err = None if st is None else st.error
            if len(cxs) != 1 or hasattr(err, "exceptions"):
                obs = {"ctx": None, "exc": ["other", "contexts=%d error=%r" % (len(cxs), err)], "before": None, "after": None}
            else:
                obs = {"ctx": ctx_of(cxs[0]), "exc": exc_of(err), "before": [True, mode[1]], "after": [True, mode[1]],
                       "unset_after": probe_options() is None}
        else:  # end-to-end: a real `with` in a suspended generator frame, extract() calls fill_context itself
            ns = {}
            exec("def holder(mgr):\n    with mgr:\n        yield\n", ns)
            g = ns["holder"](objs[cs["obj"]])
            next(g)
            try:
                st = extract(g, with_contexts=True, recurse_child_tasks=mode[1])
                cxs = st.frames[0].contexts if st.frames else []
                err = st.error
                if len(cxs) != 1 or hasattr(err, "exceptions"):
                    obs = {"ctx": None, "exc": ["other", "contexts=%d error=%r" % (len(cxs), err)], "before": None, "after": None}
                else:
                    obs = {"ctx": ctx_of(cxs[0]), "exc": exc_of(err), "before": [True, mode[1]], "after": [True, mode[1]],
                           "unset_after": probe_options() is None}
            finally:
                g.close()
        obs["log"] = log[start:]
        return obs

    holders = []

    def run_frame(rc, roots):
        """one real frame holding all `roots` as nested with-blocks; extract() fills each context itself"""
        start = len(log)
        _HOOK_PROBE["n"] = 0
        names = ", ".join(f"m{i}" for i in range(len(roots)))
        src = f"def holder({names}):\n"
        for i in range(len(roots)):
            src += "    " * (i + 1) + f"with m{i}:\n"
        src += "    " * (len(roots) + 1) + "yield\n"
        ns = {}
        exec(src, ns)
        g = ns["holder"](*[objs[r] for r in roots])
        next(g)
        holders.append(g)
        for r in roots:   # frames of generators entered just now
            gen = getattr(objs[r], "gen", None)
            sub = getattr(gen, "gi_yieldfrom", None)
            if sub is not None and getattr(sub, "gi_frame", None) is not None:
                pyf[500 + r] = sub.gi_frame
                fid[id(sub.gi_frame)] = 500 + r
        st = extract(g, with_contexts=True, recurse_child_tasks=rc)
        cxs = list(st.frames[0].contexts) if st.frames else []
        err = st.error
        errs = [] if err is None else (list(err.exceptions) if hasattr(err, "exceptions") else [err])
        obs = {"kind": "frame", "n": len(cxs), "ctxs": [ctx_of(c) for c in cxs], "errs": [exc_of(e) for e in errs],
               "log": log[start:], "unset_after": probe_options() is None}
        # the same managers, each filled in isolation inside an extract with the same options
        keep = len(log)
        iso = []

        class Item:
            pass

        def item_hook(it):
            for r in roots:
                _HOOK_PROBE["n"] = 0
                c = Context(obj=objs[r], is_async=False)
                try:
                    fill_context(c)
                    ex = None
                except Exception as e:
                    ex = e
                iso.append([ctx_of(c), exc_of(ex)])
            return None
        unwrap_stackitem.register(Item, item_hook)
        reg_item.append(Item)
        extract(Item(), with_contexts=True, recurse_child_tasks=rc)
        del log[keep:]
        obs["iso"] = iso
        return obs

    def run_hist():
        steps = []
        for op in d["hist"]:
            if op[0] == "reg":
                register_syn(op[1])
                steps.append({"kind": "reg"})
            elif op[0] == "fill":
                o = run_one(op[2], op[1])
                o["kind"] = "fill"
                steps.append(o)
            else:
                steps.append(run_frame(op[1], op[2]))
        return {"steps": steps}

    try:
        if "hist" in d:
            return run_hist()
        return run_one(d["ctx"], d["mode"])
    finally:
        for g in holders:
            try:
                g.close()
            except Exception:
                pass
        _unregister(elaborate_context, reg_cls)
        _unregister(unwrap_context, reg_cls)
        _unregister(unwrap_context_generator, reg_code)
        _unregister(unwrap_stackitem, reg_item)
        for o in objs.values():
            g = getattr(o, "gen", None)
            if g is not None:
                try:
                    if hasattr(g, "aclose"):
                        _drive(g.aclose())
                    else:
                        g.close()
                except Exception:
                    pass


# ------------------------------------------------------------------ Gallina printing
def c_ures(r):
    if r[0] == "none":
        return "UNone"
    if r[0] == "prune":
        return "UPrune"
    if r[0] == "raise":
        return "URaise"
    return f"(UTo {r[1]})"


def c_nats(l):
    return clist(str(x) for x in l)


def c_eff(e):
    k = e[0]
    if k == "sd":
        return f"(ESetDescr {e[1]})"
    if k == "ad":
        return f"(EAppDescr {e[1]})"
    if k == "sc":
        return f"(ESetChildren {c_nats(e[1])})"
    if k == "ac":
        return f"(EAppChild {e[1]})"
    if k == "si":
        return f"(ESetInner {copt(None if e[1] is None else c_nats(e[1]))})"
    if k == "so":
        return f"(ESetObj {e[1]})"
    return "ERaise"


def gframes_of(d, m):
    a = d["mgr"][str(m)]
    st = eff_state(d, m)
    if st == "done":
        return []
    fr = [int(m)]
    if st == "ent" and d["fns"][str(a["fn"])]["yf"]:
        fr.append(500 + int(m))
    return fr


def c_cfg(d):
    attrs, fcode, fctx = [], [], []
    for m, a in d["mgr"].items():
        if a["k"] == "gcm":
            attrs.append(f"({m}, gcm_attr {a['fn']} {c_nats(gframes_of(d, m))} {cbool(eff_state(d, m) == 'new')})")
            fcode.append(f"({m}, {a['fn']})")
            res = d["fns"][str(a["fn"])].get("res")
            if res is not None and eff_state(d, m) == "ent":
                fctx.append(f"({m}, [{res}])")
        else:
            attrs.append(f"({m}, syn_attr {cbool(a['hooked'])} {cbool(a.get('eqp', False))})")
    for i in d["xfr"]:
        fcode.append(f"({900 + int(i)}, {900 + int(i)})")
    elab = [f"({m}, {clist(c_eff(e) for e in l)})" for m, l in d["elab"].items()]
    unwrap = [f"({m}, {c_ures(r)})" for m, r in d["unwrap"].items()]
    greg = [f"({c}, {c_ures(s['reg'])})" for c, s in d["fns"].items() if s["reg"] is not None]
    greg += [f"({900 + int(i)}, {c_ures(s['reg'])})" for i, s in d["xfr"].items() if s["reg"] is not None]
    g0 = [str(c) for c, s in d["fns"].items() if s["reg"] is not None and s.get("ctx0")]
    g0 += [str(900 + int(i)) for i, s in d["xfr"].items() if s["reg"] is not None and s.get("ctx0")]
    return (f"(mkcfg {clist(attrs)} {clist(elab)} {clist(unwrap)} {clist(fcode)} {clist(fctx)} {clist(greg)} "
            f"{clist(g0)} SrcFacts.context_guard SrcFacts.push_restores_in_finally)")


def c_atom(a):
    if a[0] == "t":
        return f"(ATag {a[1]})"
    if a[0] == "gn":
        return f"(AGcmNew {a[1]} {a[2]})"
    return f"(AGcmEnt {a[1]})"


def c_ctx(c):
    d = None if c["descr"] is None else clist(c_atom(a if isinstance(a, list) else ["t", a]) for a in c["descr"])
    def fobs(f):
        return f"({f[0]}, {c_nats(f[1])})" if isinstance(f, list) else f"({f}, [])"
    return (f"(mkctx {c['obj']} {copt(None if c['inner'] is None else clist(fobs(f) for f in c['inner']))} {c_nats(c['children'])} "
            f"{cbool(c['hide'])} {copt(d)} {cbool(c['exiting'])})")


def c_opts(o):
    return "None" if o is None else f"(Some ({cbool(o[0])}, {cbool(o[1])}))"


def c_ev(e):
    if e[0] == "elab":
        return f"(VElab {e[1]} {c_opts(e[2])})"
    if e[0] == "unwrap":
        return f"(VUnwrap {e[1]} {c_opts(e[2])})"
    return f"(VGen {e[1]} {e[2]} {cbool(e[3])} {c_nats(e[4])} {c_opts(e[5])})"


BAD_CTX = {"obj": 4999, "inner": None, "children": [], "hide": False, "descr": None, "exiting": False}


def c_case(d, obs):
    ctx = obs.get("ctx") or BAD_CTX
    ex = obs["exc"]
    if ex[0] == "ok":
        out = f"(Done {c_ctx(ctx)})"
    elif ex[0] == "boom":
        w = {"elab": "WElab", "unwrap": "WUnwrap", "gen": "WGen"}.get(ex[1], "WElab")
        out = f"(RaisedHook ({w} {ex[2]}) {c_ctx(ctx)})"
    elif ex[0] == "loop":
        # the manager named in the message must be the one left in context.obj
        c2 = ctx if ex[1] == ["to", ctx["obj"]] else BAD_CTX
        out = f"(RaisedLoop {c_ctx(c2)} {c_ures(ex[3])})"
    else:
        out = f"(RaisedHook (WElab 4999) {c_ctx(BAD_CTX)})"
    mode = d["mode"]
    entry = _entry(mode)
    init = dict(d["ctx"])
    return (f"({c_cfg(d)}, {c_opts(entry)}, {c_ctx(init)}, "
            f"({out}, {clist(c_ev(e) for e in obs['log'])}, {c_opts(obs['after'])}))")


def step_desc(d, k, ctx=None, mode=None):
    """the descriptor as a single-fill case sees it at history step k: hooks registered so far, generators
    entered so far (derived from the descriptor's history alone)"""
    hist = d["hist"]
    late = {op[1] for op in hist if op[0] == "reg"}
    registered = {op[1] for op in hist[:k] if op[0] == "reg"}
    entered = set()
    for op in hist[:k + 1]:
        if op[0] == "frame":
            entered |= {r for r in op[2] if d["mgr"][str(r)]["k"] == "gcm"}
    mgr = {}
    for m, a in d["mgr"].items():
        a = dict(a)
        if a["k"] == "gcm" and int(m) in entered:
            a["state"] = "ent"
        if a["k"] == "syn" and a["hooked"] and int(m) in late and int(m) not in registered:
            a["hooked"] = False
        mgr[m] = a
    sd = {k2: v for k2, v in d.items() if k2 not in ("hist", "_kind")}
    sd.update(mgr=mgr, ctx=ctx or _default_ctx(0), mode=mode or ["inside", True, False])
    return sd


def c_ferr(e):
    if e[0] == "boom":
        w = {"elab": "WElab", "unwrap": "WUnwrap", "gen": "WGen"}.get(e[1], "WElab")
        return f"(FHook ({w} {e[2]}))"
    if e[0] == "loop" and e[1][0] == "to":
        return f"(FLoop {e[1][1]} {c_ures(e[3])})"
    return "(FHook (WElab 4999))"


def c_hist(d, obs):
    steps = []
    for k, (op, o) in enumerate(zip(d["hist"], obs["steps"])):
        if op[0] == "reg":
            continue
        if op[0] == "fill":
            steps.append("(SFill " + c_case(step_desc(d, k, op[2], op[1]), o) + ")")
        else:
            sd = step_desc(d, k)
            init = clist(c_ctx(_default_ctx(r)) for r in op[2])
            seen = clist(c_ctx(c) for c in o["ctxs"])
            steps.append(f"(SFrame {c_cfg(sd)} {cbool(op[1])} {init} "
                         f"({seen}, {clist(c_ferr(e) for e in o['errs'])}, {clist(c_ev(e) for e in o['log'])}))")
    return clist(steps)


def coq_case(d, obs):
    if d.get("_kind") == "hist":
        return c_hist(d, obs)
    return c_case(d, obs)


def hist_oracle(d, obs):
    for k, (op, o) in enumerate(zip(d["hist"], obs["steps"])):
        # a manager whose class has hooks registered AT THIS TIME must get its elaborate hook called first, no
        # matter what happened to contexts of that class earlier in the history
        if op[0] in ("fill", "frame"):
            sd = step_desc(d, k)
            roots = [op[2]["obj"]] if op[0] == "fill" else [op[2][0]]
            a = sd["mgr"][str(roots[0])]
            if a["k"] == "syn" and a["hooked"] and (not o["log"] or o["log"][0][:2] != ["elab", roots[0]]):
                return (f"step {k}: hooks are registered for manager {roots[0]} at this point of the history but its "
                        f"elaborate hook was not the first hook call (log starts {o['log'][:2]})")
        if op[0] == "fill":
            if o["exc"][0] == "other":
                return f"step {k}: fill_context failed in an unexpected way: {o['exc'][1]}"
            entry = _entry(op[1])
            if o.get("before") != entry or o.get("after") != entry:
                return f"step {k}: extract options before/after fill_context are {o.get('before')}/{o.get('after')}, expected {entry}"
        elif op[0] == "frame":
            if o["n"] != len(op[2]):
                return f"step {k}: the frame shows {o['n']} contexts for {len(op[2])} with-blocks"
            if any(e[0] == "other" for e in o["errs"]):
                return f"step {k}: unexpected error in the extracted stack: {o['errs']}"
            if not o.get("unset_after"):
                return f"step {k}: extract options still set after extract()"
            # every context of the frame must come out as fill_context gives it in isolation, whatever happened
            # to the contexts before it; the stack's errors are exactly the isolated failures, in order
            for i, (c, iso) in enumerate(zip(o["ctxs"], o["iso"])):
                if c != iso[0]:
                    return (f"step {k}: context {i} (manager {op[2][i]}) of the frame is {c}, but fill_context on the "
                            f"same manager in isolation gives {iso[0]}; errors of the stack: {o['errs']}")
            want = [iso[1] for iso in o["iso"] if iso[1][0] != "ok"]
            if o["errs"] != want:
                return f"step {k}: errors of the stack {o['errs']} differ from the isolated failures {want}"
    return None


# ------------------------------------------------------------------ oracles on the implementation alone
def _strip(obs):
    return {k: obs.get(k) for k in ("ctx", "exc", "log")}


def _entry(mode):
    return None if mode[0] == "outside" else ([mode[1], mode[2]] if mode[0] == "inside" else [True, mode[1]])


def _verdict(obs):
    c = obs.get("ctx") or {}
    return {"exc": obs["exc"][:3] if obs["exc"][0] != "loop" else ["loop", obs["exc"][1], obs["exc"][3]],
            "obj": c.get("obj"), "hide": c.get("hide"), "descr": c.get("descr"), "children": c.get("children"),
            "gen_saw": [e[4] for e in obs["log"] if e[0] == "gen"], "calls": [e[:2] for e in obs["log"]]}


def direct_oracle(d, obs):
    if d.get("_kind") == "hist":
        return hist_oracle(d, obs)
    mode = d["mode"]
    ex = obs["exc"]
    if ex[0] == "other":
        return "fill_context failed in an unexpected way: " + str(ex[1])
    entry = _entry(mode)
    if obs.get("before") != entry:
        return f"harness: options on entry probed as {obs.get('before')}, expected {entry}"
    if obs.get("after") != entry:
        return f"extract options after fill_context are {obs.get('after')}, on entry they were {entry}"
    if mode[0] == "inside" and not (obs.get("ran") and obs.get("outer_error") is None and obs.get("unset_after")):
        return "inside-extract run did not complete cleanly: " + repr({k: obs.get(k) for k in ("ran", "outer_error", "unset_after")})
    seen = entry if entry is not None else [True, False]
    for e in obs["log"]:
        if e[-1] != seen:
            return f"a hook ran under options {e[-1]}, expected {seen}"
    if "expect_loop" in d:
        # guard boundary stated by the property (100), independent of the regenerated constant
        if d["expect_loop"] != (ex[0] == "loop") and d["mgr"] and not any(
                r[0] in ("raise",) for r in list(d["unwrap"].values()) + [s["reg"] for s in d["fns"].values() if s["reg"]]):
            return f"chain with expect_loop={d['expect_loop']} ended with {ex[0]}"
        if ex[0] == "loop" and ex[2] != 100:
            return f"loop error message names {ex[2]} times"
    if (mode[0] in ("outside", "inside") and (entry is None or entry[0]) and d["ctx"]["inner"] is None
            and any(a["k"] == "gcm" for a in d["mgr"].values())):
        # the verdict of the hooks of generator-based managers must not depend on the lookup path: the same
        # tables on an exiting and on a non-exiting context (with_contexts in force) replace / hide / fail alike
        # and the registered hooks are handed the same frame.contexts
        twin = dict(d, ctx=dict(d["ctx"], exiting=not d["ctx"]["exiting"]))
        obs2 = run_case(twin)
        if _verdict(obs2) != _verdict(obs):
            return ("generator-based lookup depends on the path: is_exiting=%s gives %r, is_exiting=%s gives %r"
                    % (d["ctx"]["exiting"], _verdict(obs), twin["ctx"]["exiting"], _verdict(obs2)))[:1200]
    if mode[0] == "outside":
        # same result when called inside extract(with_contexts=True, recurse_child_tasks=False)
        twin = dict(d, mode=["inside", True, False])
        obs2 = run_case(twin)
        if _strip(obs2) != _strip(obs):
            return "fill_context outside extract differs from inside extract(with_contexts=True, recurse_child_tasks=False): " + repr(_strip(obs2))[:600]
    return None


def classify_hist(d, obs):
    labs = ["mode:history"]
    seen = set()
    for k, (op, o) in enumerate(zip(d["hist"], obs["steps"])):
        if op[0] == "reg":
            if op[1] in seen:
                labs.append("hist:registered-after-first-sighting")
        elif op[0] == "fill":
            seen.add(op[2]["obj"])
            seen.add((o.get("ctx") or {}).get("obj"))
        else:
            seen.update(op[2])
            seen.update(c["obj"] for c in o["ctxs"])
            labs.append("hist:frame-contexts=%d" % len(op[2]))
            bad = [i for i, iso in enumerate(o["iso"]) if iso[1][0] != "ok"]
            if bad and bad[0] < len(op[2]) - 1:
                labs.append("hist:frame-later-context-after-failure")
    labs.append("hist:ops=%d" % min(len(d["hist"]), 12))
    return sorted(set(labs))


def classify(d, obs):
    if d.get("_kind") == "hist":
        return classify_hist(d, obs)
    labs = ["mode:" + d["mode"][0], "exc:" + obs["exc"][0]]

    if any(e[0] == "gen" and e[4] for e in obs["log"]):
        labs.append("gen-hook-saw-contexts")
    steps = sum(1 for e in obs["log"] if e[0] in ("unwrap", "gen"))
    labs.append("hookcalls:" + ("0" if not obs["log"] else "1-4" if len(obs["log"]) <= 4 else "5-20" if len(obs["log"]) <= 20 else ">20"))
    labs.append("unwrapcalls:" + (str(steps) if steps < 4 else "4-99" if steps < 100 else ">=100"))
    if any(a["k"] == "gcm" for a in d["mgr"].values()):
        labs.append("has-gcm")
    if any(f.get("async") for f in d["fns"].values()):
        labs.append("has-async-gcm")
    if d["ctx"]["exiting"]:
        labs.append("exiting")
    if obs.get("ctx") and obs["ctx"]["hide"]:
        labs.append("hidden")
    return labs
