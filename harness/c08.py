"""C08 — context metadata: start_line is the `with` line, varname the real `as` target.

Correspondence (kinds "main"/"raw"): with-items of generated programs and of the standard library are
compiled by the running interpreter; for every BEFORE_WITH site the real store sequence (from dis,
located independently of the implementation's skip count) is given to Coq together with what the real
describe_assignment_target / analyze_with_blocks returned; Coq checks compile_target-model = real
sequence, describe-model = real result, result = the property's expectation (render / None).
Direct oracle: start_line vs ast lineno, varname vs the ast target (ast.dump equality modulo what the
compiler erases).  extra_legs: the runtime leg (suspended generators / coroutines, stackscope.extract),
and the same legs under CPython 3.11 / 3.10 / 3.9 (children started concurrently, both tiers)."""
import ast
import json
import os
import random
import subprocess
import sys
import sysconfig

from . import c08_gen as G

PROP = "C08"
SHARD = 300
KINDS = {
    "main": dict(imports="From Coq Require Import String.\nFrom SS Require Import Base M_Targets.\nOpen Scope string_scope.\nOpen Scope list_scope.",
                 type="tcase", mismatch="mismatches", nontrivial="count_nontrivial"),
    "fb": dict(imports="From Coq Require Import String.\nFrom SS Require Import Base M_Targets.\nOpen Scope string_scope.\nOpen Scope list_scope.",
               type="fcase", mismatch="fmismatches", nontrivial="fcount_nontrivial"),
    "raw": dict(imports="From Coq Require Import String.\nFrom SS Require Import Base M_Targets.\nOpen Scope string_scope.\nOpen Scope list_scope.",
                type="rcase", mismatch="rmismatches", nontrivial="rcount_nontrivial"),
}
RULE = ("with-items of (a) hand-written programs covering every documented target form and the unsupported ones, "
        "(b) random programs: 1-4 nested (async) with statements x 1-3 items x 8 layouts (single line, backslash, "
        "parenthesised, multi-line context expression / target, keyword on its own line) x 9 wrappers (try/finally/except/"
        "loops/if) x random targets (names fast/global/cell, attributes, subscripts by const/name/expression, slices, "
        "positional and method calls, nested (starred) tuples/lists; 25% contain an unsupported form: arithmetic, walrus, "
        "keyword/starred call, tuple display, stepped slice), (c) every with-item of the standard library (quick: every "
        "6th file), (d) the generated programs compiled and run by CPython 3.11 (version V311 of the compiler model, kind main) "
        "and by 3.10 / 3.9 (kind raw: decompiler model vs real result; plus the runtime ast oracle there), "
        "(e) kind fb: every context of the suspended generated programs (static description + frame locals with object "
        "identities -> reported varname; managers are pre-bound to locals in 25% of the items; two suspensions per program, "
        "the holding locals cleared or the manager re-bound under another name in between; every inspection done twice), "
        "(f) 24 rebinding scenarios: 2-4 instances of one function (one code object) with a target-less / unsupported-target "
        "with, started with the manager in local `mgr` / in no local / in `other`, stepped round-robin through 3 suspensions "
        "that rebind the locals and inspected as the exiting entry from inside __exit__/__aexit__: varname must be None or a "
        "local bound to the manager at that moment, (g) exiting entry: nested programs (2-4 deep, mixed targets, sync/async) left by "
        "falling off / return / break / continue; every exit inspected from inside __exit__/__aexit__ (running frame) and, for async "
        "managers, with the coroutine suspended inside __aexit__: contexts still entered + exactly one exiting entry carrying its OWN "
        "item's start_line / varname / is_async; on all four interpreters. One case per BEFORE_WITH site (finally bodies are duplicated by the compiler). distinct = distinct "
        "(program, site) descriptors; non-trivial = the item has a target other than a plain name")
CONFIG = dict(
    coq=["C08"], level="proof",
    claim=("Coq theorems: for every target of the modelled grammar (names, attributes, subscripts, slices, positional/method "
           "calls, nested starred tuples/lists, plus the unsupported forms) and every instruction suffix, the model of "
           "describe_assignment_target applied to the model of the 3.11/3.12 compiler's store sequence returns exactly the "
           "reference rendering for supported targets and None otherwise (never a wrong string); the locals fallback names "
           "only a local bound to the manager. Tied to the code by comparing, inside Coq, the compiler model with the real "
           "store sequence and the decompiler model with the real result on generated programs and on every with-item of the "
           "standard library; start_line and the parse of varname are checked against the ast at run time (static and "
           "suspended-frame legs)."),
    design_ref="DESIGN.md section 5 C08",
    trusted_base=["model M_Targets.v: describe_assignment_target hand-written from the source; compile_target is a description of "
                  "CPython 3.11/3.12 compiler output validated only by the correspondence",
                  "abstraction dis.Instruction -> insn (harness/c08_gen.coq_insn) and ast -> target tree",
                  "render_target is related to Python's grammar only by the run-time ast comparison (ast.parse of varname "
                  "= target node modulo List/Tuple and omitted slice bounds), not by a Coq parser"],
    assumptions=["dis.Bytecode(code) without caches is the instruction stream the implementation sees",
                 "start_line correctness is a statement about the compiler's line attribution of BEFORE_WITH: tie only (no theorem)"],
    unproved_legs=["CPython 3.10 / 3.9 (both tiers, as subprocesses): no Coq compiler model; the real store sequences are checked "
                   "against the decompiler model only (kind raw) and Context.varname/start_line by the runtime ast oracle; "
                   "3.11 and 3.12 are covered by the compiler model (V311 / V312) in both tiers",
                   "soundness of describe on arbitrary (non-compiler) instruction streams is not claimed (DUP_TOP duplicates text)"],
    timeout={"quick": 900, "thorough": 5400},
    NOTES=("Finding F16 (constants whose repr is not source-equivalent in their position: `as d[...]`, `as (1).x`, `as (-1).x`) "
           "was found by this check and is fixed in /repo (aa74ef3); these forms are now ordinary cases under the strict ast oracle. "
           "Comparison with the ast is modulo what the compiler erases: List vs Tuple targets, omitted slice bound vs None, "
           "private-name mangling inside classes. "
           "start_line/skip-count are not modelled in Coq (M_Analysis belongs to C01); they are tied by locating the store "
           "sequence independently (END_SEND / exception table via dis) and comparing analyze_with_blocks' varname and "
           "start_line per site."),
)


# ------------------------------------------------------------------ hand-written programs
N = lambda k, s: ["name", k, s]
C = lambda s: ["const", s]


def _prog(items_per_level, is_async=False, layouts=None, wraps=None, asyncs=None):
    ident = 0
    levels = []
    for n, ts in enumerate(items_per_level):
        items = []
        for t in ts:
            ident += 1
            bound = False
            if isinstance(t, dict):
                bound, t = True, t["t"]
            items.append({"id": ident, "t": t, "bound": bound})
        levels.append({"async": bool(asyncs and asyncs[n]), "layout": (layouts or ["single"] * 9)[n],
                       "wrap": (wraps or [None] * 9)[n], "items": items, "pre": 0, "sibling": False})
    return {"async": is_async, "levels": levels}


def specials():
    lo, ld, lf, go, gf, co, cf = N("fast", "lo"), N("fast", "ld"), N("fast", "lf"), N("global", "go"), N("global", "gf"), N("deref", "co"), N("deref", "cf")
    names = [["tname", "fast", "a"], ["tname", "global", "GS0"], ["tname", "deref", "CS0"]]
    attrs = [["tattr", lo, "x"], ["tattr", ["attr", go, "x"], "y"], ["tattr", ["call", lf, [C("1")]], "attr"],  # F11
             ["tattr", ["call", gf, [C("1")]], "attr"], ["tattr", ["call", cf, []], "attr"],
             ["tattr", ["mcall", ["attr", lo, "x"], "val", [N("fast", "n0"), C("2")]], "q_1"],
             ["tattr", ["call", ["call", lf, []], [C("'k'")]], "y"]]
    subs = [["tsub", ld, C("'k'")], ["tsub", ld, N("fast", "n0")], ["tsub", ld, ["sub", lo, C("0")]], ["tsub", ld, C("(1, 2)")],
            ["tsub", ld, C("-1")], ["tsub", ld, C("1+2j")], ["tsub", ["sub", ld, C("'sub'")], C("'two'")],
            ["tsub", ["mcall", ld, "val", [C("'sub'")]], C("'three'")], ["tsub", ld, C("None")], ["tsub", ld, C("b'x'")], ["tsub", ld, C("...")],
            ["tsub", ["sub", ld, C("...")], C("...")]]
    slices = [["tslice", lo, C("1"), C("2")], ["tslice", lo, None, C("2")], ["tslice", lo, C("1"), None], ["tslice", lo, None, None],
              ["tslice", lo, N("fast", "n0"), N("global", "gn")], ["tsub", ["slice", lo, C("1"), None], C("0")]]
    a, b, c = ["tname", "fast", "a"], ["tname", "fast", "b"], ["tname", "fast", "c"]
    tuples = [["ttuple", [], "tuple"], ["ttuple", [], "list"], ["ttuple", [a], "tuple"], ["ttuple", [a], "list"], ["ttuple", [a, b], "tuple"],
              ["ttuple", [a, ["ttuple", [b, c], "list"]], "tuple"], ["tstar", [], a, [], "tuple"], ["tstar", [], a, [], "list"],
              ["tstar", [a], b, [], "tuple"], ["tstar", [], a, [b], "tuple"], ["tstar", [a], b, [c], "list"],
              ["tstar", [a, ["tattr", lo, "x"]], ["tsub", ld, C("0")], [["ttuple", [b, c], "tuple"], ["tname", "deref", "CS1"]], "tuple"],
              ["tstar", [a], ["ttuple", [b, c], "tuple"], [], "tuple"],
              ["ttuple", [["tstar", [], a, [b], "list"], ["tslice", lo, None, None]], "tuple"]]
    n0 = N("fast", "n0")
    unsup = [["tsub", ld, ["op", 1, [n0, C("1")], "({0} + {1})"]], ["tsub", ld, ["walrus", "fast", "w0", C("1")]],
             ["tattr", ["callx", 3, lf, [C("1")]], "y"], ["tattr", ["callx", 3, gf, [n0, C("2")]], "y"],
             ["tattr", ["callx", 4, lf, [N("fast", "sa")]], "y"], ["tsub", ld, ["op", 5, [n0, C("1")], "({0}, {1})"]],
             ["tsub", lo, ["op", 6, [C("None"), C("None"), C("2")], "{0}:{1}:{2}"]], ["tsub", ld, ["op", 0, [n0], "(-{0})"]],
             ["ttuple", [a, ["tsub", ld, ["op", 1, [n0, n0], "({0} * {1})"]]], "tuple"],
             ["tstar", [a], ["tattr", ["callx", 3, lf, [C("1")]], "y"], [], "tuple"],
             ["tattr", ["call", lf, [["op", 1, [n0, C("1")], "({0} - {1})"]]], "x"],
             ["tsub", ["sub", ld, ["op", 0, [n0, C("1")], "({0} < {1})"]], C("0")]]
    groups = [names + [None], attrs, subs, slices, tuples, unsup]
    out = []
    for g in groups:
        # every form once per layout family, sync and async
        for lay in ("single", "paren", "backslash"):
            for asy in (False, True):
                chunks = [g[i:i + 3] for i in range(0, len(g), 3)]
                out.append(_prog(chunks, is_async=asy, layouts=[lay] * len(chunks), asyncs=[asy and n % 2 == 0 for n in range(len(chunks))]))
    # locals fallback: managers bound to locals, without target / with an unsupported target / with a supported one
    out.append(_prog([[{"t": None}, {"t": unsup[0]}, {"t": a}, None]]))
    out.append(_prog([[{"t": None}], [{"t": unsup[1]}]], is_async=True, asyncs=[True, True], wraps=["finally", "finally"]))
    # async with inside finally (CLEANUP_THROW before END_SEND on 3.12), multi-line context expression
    out.append(_prog([[tuples[5]], [attrs[2], None]], is_async=True, asyncs=[True, True], wraps=["finally", "tryexc"], layouts=["exprml", "exprml"]))
    # EXTENDED_ARG in front of the LOAD_CONST None of BEFORE_ASYNC_WITH's await
    big = _prog([[a, tuples[10]], [attrs[2], None]], is_async=True, asyncs=[True, True], layouts=["paren", "single"])
    big["bigconsts"] = True
    out.append(big)
    # attribute of a constant: compiles, cannot run
    so = _prog([[["tattr", C("'s'"), "y"], ["tattr", C("None"), "y"], ["tattr", C("(1, 2)"), "y"]],
                [["tattr", C("1"), "x"], ["tattr", C("-1"), "x"], ["tattr", C("1.5"), "y"], ["tattr", C("1+2j"), "y"]],
                [["tattr", ["mcall", C("300"), "bit_length", []], "y"], ["tattr", ["attr", C("7"), "x"], "y"],
                 ["tsub", ld, ["attr", C("-1"), "real"]], ["tattr", C("..."), "y"], ["tattr", C("True"), "y"]],
                [["ttuple", [["tattr", C("0"), "x"], ["tstar", [], ["tattr", C("-1"), "val"], [], "list"]], "tuple"],
                 ["tattr", ["call", lf, [["attr", C("1"), "real"], C("...")]], "x"]]])
    so["static_only"] = True
    out.append(so)
    return out


# ------------------------------------------------------------------ site computation
gen_sites = G.gen_sites
_site_obs = G.site_obs


def _ll():
    from stackscope import lowlevel as ll
    return ll


def stdlib_files():
    root = sysconfig.get_paths()["stdlib"]
    out = []
    for dp, dns, fns in os.walk(root):
        dns[:] = sorted(d for d in dns if d not in ("site-packages", "__pycache__", "lib2to3", "idlelib", "turtledemo"))
        if os.sep + "test" + os.sep in dp + os.sep and "bad" in dp:
            continue
        for fn in sorted(fns):
            if fn.endswith(".py"):
                out.append(os.path.relpath(os.path.join(dp, fn), root))
    return root, out


_LIB = {}


def lib_sites(rel):
    if rel in _LIB:
        return _LIB[rel]
    import warnings
    ll = _ll()
    root = sysconfig.get_paths()["stdlib"]
    res = []
    try:
        src = open(os.path.join(root, rel), "rb").read()
        with warnings.catch_warnings():
            warnings.simplefilter("ignore")
            tree = ast.parse(src)
            code = compile(src, rel, "exec", dont_inherit=True)
    except (SyntaxError, ValueError, RecursionError):
        tree = code = None
    if code is not None and b"with" in src:
        index = G.with_index(tree)
        for c in G.walk_codes(code):
            for site in G.sites_of(c, ll):
                res.append(_site_obs(site, G.site_item(site, index), c))
    _LIB[rel] = res
    return res


def make_inputs(tier, seed):
    rng = random.Random(seed * 7919 + 8)
    progs = specials()
    nprog = 250 if tier == "quick" else 3000
    for n in range(nprog):
        progs.append(G.gen_program(rng, tdepth=2 if n % 4 else 3))
    # CPython 3.11 / 3.10 / 3.9 run the same programs concurrently with the 3.12 cases
    other_specs = (progs if tier == "quick" else progs[:900]) + exit_specs(tier, seed)
    children = {}
    for name, py, shims in OTHER_PYTHONS:
        if os.path.exists(py):
            children[name] = start_other(py, shims, other_specs, sites=True)
        else:
            _SUBRES[name] = "absent"
    for spec in progs:
        for n in range(len(gen_sites(spec))):
            d = {"src": "gen", "spec": spec, "site": n}
            if spec.get("bigconsts"):
                d["_kind"] = "raw"  # EXTENDED_ARG prefixes of constants/names are outside the compiler model
            yield d
    # the same programs under the other interpreters (children started before the 3.12 cases, see above)
    for name, py, shims in OTHER_PYTHONS:
        h = children.get(name)
        if h is None:
            continue
        r = collect_other(h)
        _SUBRES[name] = r
        for n, spec in enumerate(other_specs):
            got = r.get("sites", {}).get(str(n))
            if got is None:
                continue
            _OTHER[(name, json.dumps(spec, sort_keys=True))] = got
            for k, o in enumerate(got):
                d = {"src": "gen", "py": name, "spec": spec, "site": k}
                if spec.get("bigconsts") or not (o.get("matched") and o.get("has_tree")):
                    d["_kind"] = "raw"  # 3.9/3.10: no source positions, decompiler model vs real result only
                yield d
    # locals fallback: contexts of suspended frames (static description + locals -> final varname)
    for spec in progs[: (len(specials()) + (80 if tier == "quick" else 1200))]:
        if spec.get("static_only"):
            continue
        for k in range(2 * sum(len(lv["items"]) for lv in spec["levels"])):  # two suspensions
            yield {"src": "rt", "spec": spec, "ctx": k, "_kind": "fb"}
    # one code object inspected repeatedly while the manager's local binding changes (and from other
    # instances of the same function, and as the exiting entry)
    for scn in G.rebind_scenarios():
        for k in range(4 * len(scn["order"])):
            yield {"src": "rb", "scn": scn, "insp": k, "_kind": "fb"}
    root, files = stdlib_files()
    stride = 6 if tier == "quick" else 1
    for n, rel in enumerate(files):
        if (n + seed) % stride:
            continue
        for k, o in enumerate(lib_sites(rel)):
            yield {"src": "lib", "file": rel, "site": k,
                   "_kind": "main" if (o.get("matched") and o.get("has_tree")) else "raw"}


_OTHER = {}


_RT = {}


def rt_details(spec):
    key = json.dumps(spec, sort_keys=True)
    if key not in _RT:
        det = []
        k, probs, st = G.runtime_check(spec, details=det)
        described = {}
        for o in gen_sites(spec):
            if o.get("item_id") is not None:
                described.setdefault(o["item_id"], o["obs"])
        for d in det:
            d["described"] = described.get(d["item_id"], "<missing>")
        _RT[key] = det
    return _RT[key]


_RB = {}


def run_case(desc):
    if desc["src"] == "rb":
        key = json.dumps(desc["scn"], sort_keys=True)
        if key not in _RB:
            _RB[key] = G.rebind_check(desc["scn"])
        recs, probs = _RB[key]
        if desc["insp"] >= len(recs):
            return {"missing": True, "problems": probs}
        return dict(recs[desc["insp"]], described=None, problems=probs if desc["insp"] == 0 else [])
    if desc["src"] == "rt":
        det = rt_details(desc["spec"])
        return det[desc["ctx"]] if desc["ctx"] < len(det) else {"missing": True}
    if desc.get("py"):
        key = (desc["py"], json.dumps(desc["spec"], sort_keys=True))
        if key not in _OTHER:
            name, py, shims = [x for x in OTHER_PYTHONS if x[0] == desc["py"]][0]
            r = run_other(py, shims, [desc["spec"]], sites=True)
            _OTHER[key] = r["sites"]["0"]
        return _OTHER[key][desc["site"]]
    if desc["src"] == "gen":
        return gen_sites(desc["spec"])[desc["site"]]
    return lib_sites(desc["file"])[desc["site"]]


def coq_case(desc, obs):
    if desc["src"] in ("rt", "rb"):
        if obs.get("missing"):
            return "(DFuel, [], 0, None)"
        loc = "[" + "; ".join("(%s, %d)" % (G.cstr(n), i) for n, i in obs["locals"]) + "]"
        v = "None" if obs["varname"] is None else "(Some %s)" % G.cstr(obs["varname"])
        return "(%s, %s, %d, %s)" % (G.coq_dres(obs["described"]), loc, obs["obj"], v)
    code = "[" + "; ".join(obs["code"]) + "]"
    if desc.get("_kind", "main") == "raw":
        return "(%s, %s)" % (code, G.coq_dres(obs["obs"]))
    return "(%s, %s, %s, %s, %s)" % (obs.get("ver", "V312"), G.coq_opt_t(obs.get("tree")), code, G.coq_dres(obs["obs"]), G.coq_dres(obs["awb"]))


def direct_oracle(desc, obs):
    if desc["src"] == "rb":
        if obs.get("missing"):
            return "inspection missing: " + "; ".join(obs.get("problems", [])[:3])
        return "; ".join(obs.get("problems", [])[:3]) or None
    if desc["src"] == "rt":
        return "context missing from the extracted stack" if obs.get("missing") else None
    if not obs.get("matched"):
        # the item could not be located in the ast by source position (always so on 3.9/3.10)
        if obs["awb"] != obs["obs"]:
            return "analyze_with_blocks recorded varname %r, the store sequence describes as %r" % (obs["awb"], obs["obs"])
        return None
    msgs = []
    if obs["start_line"] != obs["with_line"]:
        msgs.append("start_line %r but the with keyword is on line %r" % (obs["start_line"], obs["with_line"]))
    if obs["awb_async"] != obs["with_async"]:
        msgs.append("is_async %r for a %s statement" % (obs["awb_async"], "async with" if obs["with_async"] else "with"))
    if obs["awb"] != obs["obs"]:
        msgs.append("analyze_with_blocks recorded varname %r, the store sequence describes as %r" % (obs["awb"], obs["obs"]))
    v = obs["obs"]
    if v is not None and (obs["target_src"] is None or not obs["ast_ok"]):
        msgs.append("varname %r does not parse to the item's target %r" % (v, obs["target_src"]))
    if v is None and obs.get("has_tree") and obs.get("tree") is not None and G.supported_t(obs["tree"], obs.get("ver", "V312") == "V312"):
        msgs.append("supported target %r dropped (varname None)" % (obs["target_src"],))
    return "; ".join(msgs) or None


def classify(desc, obs):
    if desc["src"] == "rb":
        return ["rb:fb" + (":exiting" if obs.get("exiting") else "")]
    if desc["src"] == "rt":
        return ["rt:fb"]
    labs = [desc["src"] + ":" + desc.get("_kind", "main") + (":py" + desc["py"] if desc.get("py") else "")]
    if not obs.get("matched"):
        labs.append("unmatched-to-ast")
        return labs
    t = obs.get("tree")
    if obs.get("target_src") is None:
        labs.append("target:none")
    elif not obs.get("has_tree"):
        labs.append("target:outside-grammar")
    else:
        labs.append("target:" + t[0] + ("" if G.supported_t(t, True) else ":unsupported"))
    labs.append("async" if obs["is_async"] else "sync")
    labs.append("rendered" if obs["obs"] is not None else "none")
    return labs


# ------------------------------------------------------------------ runtime legs
def _runtime_specs(tier, seed):
    rng = random.Random(seed * 7919 + 8)
    progs = specials()
    nprog = 250 if tier == "quick" else 3000
    for n in range(nprog):
        progs.append(G.gen_program(rng, tdepth=2 if n % 4 else 3))
    rng2 = random.Random(seed * 104729 + 88)
    for n in range(150 if tier == "quick" else 3000):
        progs.append(G.gen_program(rng2, depth=rng2.choice([1, 2, 3, 4, 5]), p_unsup=0.35))
    return progs


OTHER_PYTHONS = [("3.11", "/root/.pyenv/versions/3.11.7/bin/python", False),
                 ("3.10", "/root/.pyenv/versions/3.10.13/bin/python", True),
                 ("3.9", "/root/.pyenv/versions/3.9.18/bin/python", True)]


_SUBRES = {}


def _other_env(shims):
    from .common import REPO, ROOT
    path = [REPO, ROOT]
    if shims:
        for d in (os.path.join(ROOT, "harness", "shims"), os.path.join(ROOT, "proto", "shims")):
            if os.path.isdir(d):
                path.insert(1, d)
                break
    return dict(os.environ, PYTHONPATH=os.pathsep.join(path), PYTHONHASHSEED="0", PYTHONDONTWRITEBYTECODE="1"), ROOT


def start_other(py, shims, specs, sites=False):
    """start harness.c08_sub under another interpreter (runs while this process does its own cases)"""
    import tempfile
    import threading
    env, root = _other_env(shims)
    err = tempfile.TemporaryFile(mode="w+")
    p = subprocess.Popen([py, "-m", "harness.c08_sub"] + (["--sites"] if sites else []), stdin=subprocess.PIPE,
                         stdout=subprocess.PIPE, stderr=err, text=True, env=env, cwd=root)
    box = {}

    def pump():  # feed stdin and drain stdout so that neither side blocks on a full pipe
        try:
            p.stdin.write(json.dumps(specs))
            p.stdin.close()
            box["out"] = p.stdout.read()
        except BaseException as ex:
            box["exc"] = repr(ex)
    t = threading.Thread(target=pump, daemon=True)
    t.start()
    return p, t, box, err


def collect_other(h, timeout=2400):
    p, t, box, err = h
    t.join(timeout)
    if t.is_alive():
        p.kill()
        return {"error": "timed out"}
    p.wait()
    if p.returncode != 0 or "out" not in box:
        err.seek(0)
        return {"error": "rc=%s %s %s" % (p.returncode, box.get("exc", ""), err.read()[-1500:])}
    return json.loads(box["out"])


def run_other(py, shims, specs, timeout=1500, sites=False):
    env, ROOT = _other_env(shims)
    p = subprocess.run([py, "-m", "harness.c08_sub"] + (["--sites"] if sites else []), input=json.dumps(specs), stdout=subprocess.PIPE, stderr=subprocess.PIPE,
                       text=True, env=env, timeout=timeout, cwd=ROOT)
    if p.returncode != 0:
        return {"error": "rc=%d %s" % (p.returncode, p.stderr[-1500:])}
    return json.loads(p.stdout)


def exit_specs(tier, seed):
    """programs for the exiting-entry leg (each carries its exit route)"""
    rng = random.Random(seed * 15485863 + 9)
    out = [dict(s, route=G.ROUTES[n % 4], no_sites=True) for n, s in enumerate(specials())
           if not s.get("static_only") and not s.get("bigconsts")]
    for n in range(120 if tier == "quick" else 1200):
        out.append(G.gen_exit_program(rng, n))
    return out


def extra_legs(tier, seed):
    viol = []
    info = {}
    n_eval = 0
    stats = {}
    nctx = 0
    specs = _runtime_specs(tier, seed)
    for spec in specs:
        if spec.get("static_only"):
            continue
        try:
            k, probs, st = G.runtime_check(spec)
        except BaseException as ex:  # fail closed
            k, probs, st = 0, ["runtime leg raised %r" % (ex,)], {}
        n_eval += 1
        nctx += k
        for a, b in st.items():
            stats[a] = stats.get(a, 0) + b
        for p in probs[:2]:
            viol.append({"what": "runtime leg: " + p, "input": {"spec": spec, "source": G.build_source(spec)}})
    info["runtime_3.12"] = dict(programs=len(specs), contexts=nctx, **stats)
    # exiting entry: every with statement left normally (fall-off / return / break / continue), inspected from inside
    # __exit__/__aexit__ and with the coroutine suspended inside __aexit__
    xs = exit_specs(tier, seed)
    nx = 0
    for spec in xs:
        try:
            k, probs = G.exit_check(spec)
        except BaseException as ex:
            k, probs = 0, ["exit leg raised %r" % (ex,)]
        n_eval += 1
        nx += k
        for p in probs[:2]:
            viol.append({"what": "exiting entry: " + p, "input": {"spec": spec, "source": G.build_source(spec)}})
    info["exiting_3.12"] = dict(programs=len(xs), inspections=nx)
    # runtime + static legs under the other interpreters: results of the children started in make_inputs
    for name, py, shims in OTHER_PYTHONS:
        r = _SUBRES.get(name)
        if r is None:  # replay mode / make_inputs not run in this process
            continue
        if r == "absent":
            info["python_" + name] = "absent"
            continue
        info["python_" + name] = {k: v for k, v in r.items() if k not in ("problems", "sites")}
        if "error" in r:
            viol.append({"what": "leg under CPython %s did not run: %s" % (name, r["error"]), "input": None})
            continue
        info["python_" + name]["sites"] = sum(len(v) for v in r.get("sites", {}).values())
        n_eval += r.get("programs", 0) + r.get("exit_programs", 0)
        for p in r.get("problems", [])[:3]:
            viol.append({"what": "CPython %s: %s" % (name, p["what"]), "input": p["input"]})
    return dict(evaluations=n_eval, violations=viol, info=info, known_reproduced=[])
