"""C12 — customizations bind to exactly the code that runs; every customize option works.

Correspondence with the Coq model M_Dispatch (four case kinds, each compared inside Coq):
  main      get_code(tower, *names): real towers of functools.partial / wraps / bound, class and
            static methods around functions compiled from generated nestings of def/class/lambda
  idict     random operation sequences on a real stackscope.lowlevel.IdentityDict whose keys are
            equal-but-distinct objects
  registry  registrations (three call forms) on real code_dispatch functions (a fresh one,
            elaborate_frame, unwrap_context_generator), then dispatch on frames running each code
            object, incl. code objects compiled twice from one source (equal, not identical)
  customize customize()/elaborate_frame.register() applied to real generator functions, observed
            through extract() of a suspended yield-from chain (frames, hide, hide_line, call log)
Direct oracles (implementation alone): get_code's result is the code object that executes when the
tower is called / that the nested function object carries; register/customize return values.
"""
import itertools
import random

from .common import cbool, clist, cnat, copt, cstr

PROP = "C12"
IMPORTS = "From Coq Require Import String.\nFrom SS Require Import Base M_Dispatch.\nOpen Scope string_scope."
KINDS = {
    "main": dict(imports=IMPORTS, type="gcase", mismatch="mismatches", nontrivial="count_nontrivial"),
    "idict": dict(imports=IMPORTS, type="icase", mismatch="imismatches", nontrivial="icount_nontrivial"),
    "registry": dict(imports=IMPORTS, type="rcase", mismatch="rmismatches", nontrivial="rcount_nontrivial"),
    "customize": dict(imports=IMPORTS, type="ccase", mismatch="cmismatches", nontrivial="ccount_nontrivial"),
}
RULE = ("main: every wrapper tower over {partial, method, classmethod, staticmethod, wraps} of depth <= 4 (quick) / <= 5 "
        "(thorough, + random depth 5..7) on leaves {function, code object, other callable}, and random nestings "
        "(depth <= 4, duplicate names, lambdas, genexprs, classes, string constants equal to names) with valid, "
        "invalid, too-deep and non-code name paths; idict: random op sequences (16 operations) over 2-6 keys in 1-3 "
        "equality classes; registry: 1-6 registrations in 3 call forms over functions with twins compiled from the same "
        "source, dispatch queried for every code object; customize: all 2^3 flags x 4 elaborate kinds x 2 forms x 3 "
        "positions on a 3-frame chain, plus random op lists (towers, nested targets, twins, replacement chains, "
        "re-registration). distinct = distinct descriptors; non-trivial = tower deeper than 1 or names given / >= 2 ops "
        "/ >= 2 registrations / >= 1 customization")
SHARD = 200
CONFIG = dict(
    coq=["C12"], level="proof",
    claim=("Coq theorems about an executable model of get_code, IdentityDict, code_dispatch and customize (all towers, "
           "all name paths, all operation sequences, all option combinations), tied to the code by differential "
           "comparison evaluated inside Coq on real towers, real compiled nestings, real IdentityDict runs and real "
           "frames observed through extract()."),
    design_ref="DESIGN.md section 5 C12",
    trusted_base=["model M_Dispatch.v is hand-written; hasattr(x,'__wrapped__') on CPython >= 3.10 is modelled by has_wrapped "
                  "(compared with the real hasattr on every tower)",
                  "code objects are abstracted to (identity, co_name, co_consts order) trees by harness/c12.py"],
    assumptions=["keys stay alive while they are in an IdentityDict (id() is then injective on them)",
                 "towers are finite (no __wrapped__ cycle; inspect.unwrap raises ValueError on one)",
                 "elaborate hooks used with customize do not themselves mutate the frame or raise (C05/C10 cover that)",
                 "a replacement returned by an elaborate hook is a single item unwrapping to a chain of frames"],
    unproved_legs=[],
    NOTES=("C12_customize is proved for all flag/elaborate/form values by case analysis (stronger than the 48-point sweep "
           "of the design); a fourth elaborate kind (returns PRUNE) is added. extract()'s replace/prune semantics on "
           "a linear chain is modelled by M_Dispatch.walk (C10 owns the general rule)."),
    timeout={"quick": 900, "thorough": 3000},
)

WRAPS = ["partial", "method", "classm", "staticm", "wrapped"]


# ====================================================================== real-object builders
class Unbuildable(Exception):
    pass


class Ids:
    """model identities of code objects: first-seen order; keeps the objects alive"""

    def __init__(self):
        self.map = {}
        self.keep = []

    def of(self, code):
        k = id(code)
        if k not in self.map:
            self.map[k] = len(self.keep)
            self.keep.append(code)
        return self.map[k]

    def lookup(self, code):
        return self.map.get(id(code))

    def tree(self, code):
        import types
        return [self.of(code), code.co_name,
                [self.tree(c) if isinstance(c, types.CodeType) else None for c in code.co_consts]]


class _Holder:
    pass


class _Other:
    def __call__(self, *a, **k):
        return None


HOLDER = _Holder()
LOG = []


def invoke(obj, *a, **k):
    import types
    if isinstance(obj, (classmethod, staticmethod)):
        return obj.__get__(None, _Holder)(*a, **k)
    if isinstance(obj, types.CodeType):
        return None
    return obj(*a, **k)


WRAPPER_SRC = ("def wrapper(*a, **k):\n"
               "    LOG.append(sys._getframe().f_code)\n"
               "    return INVOKE(INNER, *a, **k)\n")


def make_wrapper(inner):
    import functools
    import sys
    ns = {"LOG": LOG, "sys": sys, "INVOKE": invoke, "INNER": inner}
    exec(compile(WRAPPER_SRC, "<c12-wrapper>", "exec"), ns)
    return functools.wraps(inner)(ns["wrapper"])


def build_tower(t, fn, ids):
    """-> (python object, tower as JSON with code trees); raises Unbuildable"""
    import functools
    import types
    kind = t[0]
    if kind == "fn":
        return fn, ["fn", ids.tree(fn.__code__)]
    if kind == "code":
        return fn.__code__, ["code", ids.tree(fn.__code__)]
    if kind == "other":
        return _Other(), ["other"]
    obj, term = build_tower(t[1], fn, ids)
    try:
        if kind == "partial":
            return functools.partial(obj, 1), ["partial", term]
        if kind == "method":
            return types.MethodType(obj, HOLDER), ["method", term]
        if kind == "classm":
            return classmethod(obj), ["classm", term]
        if kind == "staticm":
            return staticmethod(obj), ["staticm", term]
        if kind == "wrapped":
            w = make_wrapper(obj)
            return w, ["wrapped", ids.tree(w.__code__), term]
    except TypeError as ex:
        raise Unbuildable(str(ex))
    raise ValueError(kind)


def c_code(tr):
    return "(MkCode %d %s %s)" % (tr[0], cstr(tr[1]), clist([copt(c_code(c)) if c is not None else "None" for c in tr[2]]))


def c_tower(term):
    k = term[0]
    if k == "fn":
        return "(TFn %s)" % c_code(term[1])
    if k == "code":
        return "(TCode %s)" % c_code(term[1])
    if k == "other":
        return "TOther"
    if k == "wrapped":
        return "(TWrapped %s %s)" % (c_code(term[1]), c_tower(term[2]))
    return "(%s %s)" % ({"partial": "TPartial", "method": "TMethod", "classm": "TClassM", "staticm": "TStaticM"}[k],
                        c_tower(term[1]))


def c_names(names):
    return clist([cstr(n) for n in names])


def err_of(ex):
    """canonical form of the exception get_code raises: its class, plus the position of the name
    that was not found when the message has the documented shape"""
    import re
    if isinstance(ex, TypeError):
        return ["type"]
    if isinstance(ex, ValueError):
        m = re.match(r"Couldn't find a function or class named '([^']*)' in (.*)$", str(ex))
        return ["value", m.group(2).count(".") if m else None]
    return ["other", repr(ex)[:200]]


def c_oerr(e):
    if e[0] == "type":
        return "OTypeError"
    if e[0] == "value":
        return "(OValueError %s)" % copt(None if e[1] is None else str(e[1]))
    return None


def c_rres(e):
    if e == ["ok"]:
        return "OROk"
    return "(ORErr %s)" % (c_oerr(e) or "(OValueError (Some 4999))")   # unknown exception class: never matches


# ====================================================================== nest sources (kind main)
def nest_source(spec, indent=0, top=True):
    """spec = {"n": name, "k": def|async|gen|class|lambda|genexpr|str, "c": [children]}"""
    pad = "    " * indent
    k, n, ch = spec["k"], spec["n"], spec.get("c", [])
    out = []
    if k == "lambda":
        return [pad + "%s = lambda: 0" % n]
    if k == "genexpr":
        return [pad + "%s = (i for i in ())" % n]
    if k == "str":
        return [pad + "%s_s = %r" % (n, n)]
    if k == "class":
        out.append(pad + "class %s:" % n)
        out.append(pad + "    __slots__ = ()")
        for c in ch:
            out += nest_source(c, indent + 1, False)
        return out
    head = {"def": "def", "gen": "def", "async": "async def"}[k]
    out.append(pad + "%s %s(*a, **k):" % (head, n))
    if top:
        out.append(pad + "    LOG.append(sys._getframe().f_code)")
    for c in ch:
        out += nest_source(c, indent + 1, False)
    kids = [c["n"] for c in ch if c["k"] in ("def", "gen", "async", "class")]
    if k == "gen":
        out.append(pad + "    yield")
    if kids and k == "def":
        out.append(pad + "    return {%s}" % ", ".join("%r: %s" % (x, x) for x in dict.fromkeys(kids)))
    else:
        out.append(pad + "    return None" if k != "gen" else pad + "    return")
    return out


def compile_top(spec):
    import sys
    src = "\n".join(nest_source(spec)) + "\n"
    ns = {"LOG": LOG, "sys": sys}
    exec(compile(src, "<c12-nest>", "exec"), ns)
    return ns[spec["n"]], src


NAMES = ["a", "b", "c"]


def gen_nest(rng, depth, top=False):
    if top:
        k = rng.choice(["def", "def", "def", "gen", "async"])
    else:
        k = rng.choice(["def", "def", "def", "class", "class", "gen", "async", "lambda", "genexpr", "str"])
    n = "top" if top else rng.choice(NAMES)
    spec = {"n": n, "k": k}
    if k in ("def", "gen", "async", "class") and depth > 0:
        spec["c"] = [gen_nest(rng, depth - 1) for _ in range(rng.choice([0, 1, 2, 2, 3, 4]))]
    return spec


def all_paths(spec, limit=4):
    """name paths that exist in the spec (by spec, not by co_consts), for choosing inputs"""
    out = [[]]
    def rec(s, path):
        if len(path) >= limit:
            return
        for c in s.get("c", []):
            nm = {"lambda": "<lambda>", "genexpr": "<genexpr>"}.get(c["k"], c["n"])
            if c["k"] == "str":
                continue
            out.append(path + [nm])
            rec(c, path + [nm])
    rec(spec, [])
    return out


def gen_names(rng, spec):
    paths = all_paths(spec)
    r = rng.random()
    p = list(rng.choice(paths))
    if r < 0.45:
        return p
    if r < 0.6:
        return p + [rng.choice(NAMES + ["top", "nope", "<lambda>", "a_s"])]
    if r < 0.75 and len(p) >= 2:      # skip a level: a name that exists only deeper
        i = rng.randrange(len(p) - 1)
        return p[:i] + p[i + 1:]
    if r < 0.85 and p:
        p[rng.randrange(len(p))] = rng.choice(NAMES + ["nope"])
        return p
    return [rng.choice(NAMES) for _ in range(rng.randint(1, 3))]


def spec_unique(spec, names):
    """every name of the path is bound exactly once at its level (no rebinding by a later def/class/lambda)"""
    for nm in names:
        hits = [c for c in spec.get("c", []) if c["k"] != "str" and c["n"] == nm]
        if len(hits) != 1 or hits[0]["k"] not in ("def", "class", "gen", "async"):
            return False
        spec = hits[0]
    return True


def runtime_resolve(fn, names):
    """the function object a name path denotes at run time (defs return their children, classes
    hold them); None when the path leaves what can be evaluated or names are ambiguous"""
    import types
    obj = fn
    for nm in names:
        if isinstance(obj, types.FunctionType):
            import inspect
            if inspect.isgeneratorfunction(obj) or inspect.iscoroutinefunction(obj):
                return None
            consts = [c.co_name for c in obj.__code__.co_consts if isinstance(c, types.CodeType)]
            if consts.count(nm) != 1:
                return None
            d = obj()
            if not isinstance(d, dict) or nm not in d:
                return None
            obj = d[nm]
        elif isinstance(obj, type):
            import types as _t
            if nm not in obj.__dict__:
                return None
            obj = obj.__dict__[nm]
        else:
            return None
    return obj if isinstance(obj, types.FunctionType) else None


def all_towers(depth, leaves=("fn", "code", "other")):
    if depth == 0:
        for l in leaves:
            yield [l]
        return
    for w in WRAPS:
        for t in all_towers(depth - 1, leaves):
            yield [w, t]


def rand_tower(rng, depth):
    t = [rng.choice(["fn", "fn", "fn", "fn", "code", "other"])]
    for _ in range(depth):
        t = [rng.choice(WRAPS), t]
    return t


def _leaf(t):
    while len(t) > 1:
        t = t[1]
    return t[0]


def _drive(r):
    """run the body of a generator / coroutine function far enough to log its code object"""
    import types
    if isinstance(r, types.GeneratorType):
        next(r, None)
        r.close()
    elif isinstance(r, types.CoroutineType):
        try:
            r.send(None)
        except StopIteration:
            pass
        r.close()


SIMPLE_TOP = {"n": "top", "k": "def", "c": [{"n": "a", "k": "def", "c": [{"n": "b", "k": "def"}]}, {"n": "a", "k": "str"}]}


def run_main(desc):
    import types
    import stackscope.lowlevel as ll
    ids = Ids()
    fn, src = compile_top(desc["nest"])
    try:
        obj, term = build_tower(desc["tower"], fn, ids)
    except Unbuildable as ex:
        return {"skip": str(ex)}
    obs = {"term": term, "hw": hasattr(obj, "__wrapped__")}
    try:
        res = ll.get_code(obj, *desc["names"])
    except Exception as ex:
        obs["res"] = err_of(ex)
        return obs
    if not isinstance(res, types.CodeType):
        obs["res"] = ["other", repr(res)[:100]]
        return obs
    i = ids.lookup(res)
    obs["res"] = ["code", i] if i is not None else ["other", "a code object that is not part of the input"]
    # direct oracle: the code object that executes when the target is called
    oracle = None
    if not desc["names"]:
        if _leaf(desc["tower"]) == "fn":
            del LOG[:]
            try:
                _drive(invoke(obj))
            except TypeError as ex:
                if "is not callable" not in str(ex):       # e.g. staticmethod(classmethod(f)) cannot be called at all
                    oracle = "calling the tower raised %r" % (ex,)
            except Exception as ex:
                oracle = "calling the tower raised %r" % (ex,)
            else:
                if not LOG or LOG[-1] is not res:
                    oracle = "get_code returned a code object other than the innermost one executed by calling the target"
                obs["called"] = True
    else:
        f = runtime_resolve(fn, desc["names"]) if spec_unique(desc["nest"], desc["names"]) else None
        if f is not None:
            obs["resolved"] = True
            if f.__code__ is not res:
                oracle = "get_code(target, *names) is not the __code__ of the function object the path denotes at run time"
    if oracle:
        obs["oracle"] = oracle
    return obs


def coq_main(desc, obs):
    if "skip" in obs:
        return None
    r = obs["res"]
    if r[0] == "code":
        o = "(PCode %d)" % r[1]
    elif c_oerr(r):
        o = "(PErr %s)" % c_oerr(r)
    else:
        o = "POther"
    return "(%s, %s, %s, %s)" % (c_tower(obs["term"]), c_names(desc["names"]), cbool(obs["hw"]), o)


# ====================================================================== kind idict
class Cell:
    __slots__ = ("cls",)

    def __init__(self, cls):
        self.cls = cls

    def __eq__(self, other):
        return isinstance(other, Cell) and other.cls == self.cls

    def __hash__(self):
        return hash(self.cls)


IOPS = ["set", "set", "set", "get", "get", "del", "pop", "popd", "popitem", "clear", "setdefault", "setdefault",
        "len", "iter", "contains", "getd", "items", "update", "eqnew", "init"]


def gen_idict(rng, nkeys=None, nops=None):
    nkeys = nkeys or rng.randint(2, 6)
    ncls = rng.randint(1, 3)
    cls = [rng.randrange(ncls) for _ in range(nkeys)]
    ops = []
    for _ in range(nops or rng.randint(2, 14)):
        o = rng.choice(IOPS)
        k = rng.randrange(nkeys)
        v = rng.randrange(50)
        if o in ("set", "setdefault", "popd", "getd"):
            ops.append([o, k, v])
        elif o in ("get", "del", "pop", "contains"):
            ops.append([o, k])
        elif o in ("update", "eqnew", "init"):
            if o == "init" and rng.random() < 0.7:
                continue
            ops.append([o, [[rng.randrange(nkeys), rng.randrange(50)] for _ in range(rng.randint(0, 4))]])
        else:
            ops.append([o])
    return {"_kind": "idict", "cls": cls, "ops": ops}


def run_idict(desc):
    from stackscope.lowlevel import IdentityDict
    pool = [Cell(c) for c in desc["cls"]]

    def kix(k):
        for i, p in enumerate(pool):
            if p is k:
                return i
        return 4999

    def kpair(k):
        return [kix(k), getattr(k, "cls", 4999)]
    d = IdentityDict()
    out = []
    for op in desc["ops"]:
        o = op[0]
        try:
            if o == "init":
                d = IdentityDict([(pool[k], v) for k, v in op[1]])
                out.append(["none"])
            elif o == "set":
                d[pool[op[1]]] = op[2]
                out.append(["none"])
            elif o == "get":
                out.append(["val", d[pool[op[1]]]])
            elif o == "del":
                del d[pool[op[1]]]
                out.append(["none"])
            elif o == "pop":
                out.append(["val", d.pop(pool[op[1]])])
            elif o == "popd":
                out.append(["val", d.pop(pool[op[1]], op[2])])
            elif o == "popitem":
                k, v = d.popitem()
                out.append(["item"] + kpair(k) + [v])
            elif o == "clear":
                d.clear()
                out.append(["none"])
            elif o == "setdefault":
                out.append(["val", d.setdefault(pool[op[1]], op[2])])
            elif o == "len":
                out.append(["len", len(d)])
            elif o == "iter":
                out.append(["keys", [kpair(k) for k in d]])
            elif o == "contains":
                out.append(["bool", pool[op[1]] in d])
            elif o == "getd":
                out.append(["val", d.get(pool[op[1]], op[2])])
            elif o == "items":
                out.append(["items", [kpair(k) + [v] for k, v in d.items()]])
            elif o == "update":
                d.update([(pool[k], v) for k, v in op[1]])
                out.append(["none"])
            elif o == "eqnew":
                out.append(["bool", bool(d == IdentityDict([(pool[k], v) for k, v in op[1]]))])
            else:
                raise ValueError(o)
        except KeyError:
            out.append(["keyerr"])
    return {"out": out}


def coq_idict(desc, obs):
    cls = desc["cls"]
    K = lambda k: "(Key %d %d)" % (k, cls[k])
    items = lambda l: clist(["(%s, %d)" % (K(k), v) for k, v in l])
    ops = []
    for op in desc["ops"]:
        o = op[0]
        ops.append({
            "init": lambda: "OInit %s" % items(op[1]), "set": lambda: "OSet %s %d" % (K(op[1]), op[2]),
            "get": lambda: "OGet %s" % K(op[1]), "del": lambda: "ODel %s" % K(op[1]), "pop": lambda: "OPop %s" % K(op[1]),
            "popd": lambda: "OPopD %s %d" % (K(op[1]), op[2]), "popitem": lambda: "OPopItem", "clear": lambda: "OClear",
            "setdefault": lambda: "OSetDefault %s %d" % (K(op[1]), op[2]), "len": lambda: "OLen", "iter": lambda: "OIter",
            "contains": lambda: "OContains %s" % K(op[1]), "getd": lambda: "OGetD %s %d" % (K(op[1]), op[2]),
            "items": lambda: "OItems", "update": lambda: "OUpdate %s" % items(op[1]),
            "eqnew": lambda: "OEqNew %s" % items(op[1])}[o]())
    outs = []
    for b in obs["out"]:
        t = b[0]
        outs.append({"none": lambda: "BNone", "val": lambda: "BVal %d" % b[1], "keyerr": lambda: "BKeyErr",
                     "len": lambda: "BLen %d" % b[1],
                     "keys": lambda: "BKeys %s" % clist(["(%d, %d)" % tuple(x) for x in b[1]]),
                     "items": lambda: "BItems %s" % clist(["(%d, %d, %d)" % tuple(x) for x in b[1]]),
                     "bool": lambda: "BBool %s" % cbool(b[1]),
                     "item": lambda: "BItem %d %d %d" % (b[1], b[2], b[3])}[t]())
    return "(%s, %s)" % (clist(ops), clist(outs))


# ====================================================================== generator functions with twins
def gen_fn_source(name, tb, nested, last):
    body = []
    if tb:
        body.append("__tracebackhide__ = True")
    body.append("yield" if last else "yield from NEXT()")
    if nested:
        lines = ["def fac_%s():" % name, "    def %s():" % name] + ["        " + b for b in body] + ["    return %s" % name]
    else:
        lines = ["def %s():" % name] + ["    " + b for b in body]
    return "\n".join(lines) + "\n"


class FnPool:
    """generator functions compiled one by one; identical sources give equal, distinct code objects"""

    def __init__(self):
        self.by_src = {}
        self.twin_pairs = 0
        self.twin_bad = 0

    def make(self, name, tb=False, nested=False, last=True):
        src = gen_fn_source(name, tb, nested, last)
        ns = {}
        exec(compile(src, "<c12-fn>", "exec"), ns)
        if nested:
            target = ns["fac_" + name]
            fn = target()
            names = [name]
        else:
            target = fn = ns[name]
            names = []
        for other in self.by_src.get(src, []):
            self.twin_pairs += 1
            if not (other.__code__ == fn.__code__ and other.__code__ is not fn.__code__):
                self.twin_bad += 1
        self.by_src.setdefault(src, []).append(fn)
        return dict(fn=fn, ns=ns, target=target, names=names)


# ====================================================================== kind registry
def gen_registry(rng, which=None):
    nf = rng.randint(1, 4)
    groups = [rng.randrange(max(1, nf - 1)) for _ in range(nf)]        # equal group => twin sources
    nested = {g: rng.random() < 0.4 for g in set(groups)}
    fns = [{"g": g, "nested": nested[g]} for g in groups]
    regs = []
    for _ in range(rng.randint(1, 6)):
        j = rng.randrange(nf)
        depth = rng.choice([0, 0, 1, 1, 2, 3])
        t = ["fn"] if rng.random() < 0.85 else [rng.choice(["code", "other"])]
        for _ in range(depth):
            t = [rng.choice(WRAPS), t]
        extra = []
        if rng.random() < 0.15:
            extra = [rng.choice(["nope", "g0", "<lambda>"])]
        regs.append({"j": j, "t": t, "via_target": rng.random() < 0.6, "extra": extra,
                     "form": rng.choice(["pos", "kw", "deco"]), "h": rng.randrange(4)})
    return {"_kind": "registry", "which": which or rng.choice(["fresh", "fresh", "elaborate_frame", "unwrap_context_generator"]),
            "fns": fns, "regs": regs}


def run_registry(desc):
    import stackscope
    import stackscope.lowlevel as ll
    ids = Ids()
    pool = FnPool()
    fns = [pool.make("g%d" % f["g"], nested=f["nested"]) for f in desc["fns"]]
    if desc["which"] == "fresh":
        disp = ll.code_dispatch(lambda fr: fr.pyframe.f_code)(lambda fr, *a: None)
    else:
        disp = getattr(stackscope, desc["which"])
    hooks = [(lambda tag: (lambda fr, *a: tag))(i) for i in range(4)]
    results, terms, oracle = [], [], None
    for r in desc["regs"]:
        f = fns[r["j"]]
        # the registration target: the factory + nested name, or the function object itself
        if r["via_target"]:
            base, names = f["target"], list(f["names"])
        else:
            base, names = f["fn"], []
        names = names + r["extra"]
        try:
            obj, term = build_tower(r["t"], base, ids)
        except Unbuildable:
            results.append(None)
            terms.append(None)
            continue
        terms.append([term, names])
        h = hooks[r["h"]]
        try:
            if r["form"] == "pos":
                ret = disp.register(obj, *names, h)
            elif r["form"] == "kw":
                ret = disp.register(obj, *names, func=h)
            else:
                ret = disp.register(obj, *names)(h)
        except Exception as ex:
            results.append(err_of(ex))
        else:
            results.append(["ok"])
            if ret is not h:
                oracle = "register() did not return the registered function"
    queries, answers = [], []
    for f in fns:
        g = f["fn"]()
        fr = stackscope.Frame(pyframe=g.gi_frame)
        got = disp.dispatch(fr)
        queries.append(ids.of(g.gi_frame.f_code))
        if got is disp.__wrapped__:
            answers.append(None)
        elif got in hooks:
            answers.append(hooks.index(got))
        else:
            answers.append(4999)
        if disp.registry.get(g.gi_frame.f_code, None) is not (None if answers[-1] is None else got):
            oracle = "func.registry disagrees with func.dispatch"
        g.close()
    obs = {"results": results, "terms": terms, "queries": queries, "answers": answers,
           "twins": [pool.twin_pairs, pool.twin_bad]}
    if pool.twin_bad:
        oracle = "harness: sources compiled twice did not give equal-but-distinct code objects"
    if oracle:
        obs["oracle"] = oracle
    return obs


def coq_registry(desc, obs):
    regs, res = [], []
    for r, tn, x in zip(desc["regs"], obs["terms"], obs["results"]):
        if tn is None:
            continue
        regs.append("(%s, %s, %d)" % (c_tower(tn[0]), c_names(tn[1]), r["h"]))
        res.append(c_rres(x))
    return "(%s, %s, %s, %s)" % (clist(regs), clist([str(q) for q in obs["queries"]]), clist(res),
                                 clist([copt(a) for a in obs["answers"]]))


# ====================================================================== kind customize
ELABS = ["no", "none", "repl", "empty"]


def sweep_customize():
    """all 2^3 flag combinations x 4 elaborate kinds x 2 forms, at each position of a 3-frame chain"""
    for pos in range(3):
        for flags in itertools.product([False, True], repeat=3):
            for e in ELABS:
                for form in ("direct", "deco"):
                    elab = {"no": ["no"], "none": ["none", 1], "repl": ["repl", 1, 0], "empty": ["empty", 1]}[e]
                    yield {"_kind": "customize",
                           "stack": [{"g": 0, "tb": pos == 2, "nested": False}, {"g": 1, "tb": False, "nested": False},
                                     {"g": 2, "tb": pos != 2, "nested": False}],
                           "repls": [[{"g": 5, "tb": False, "nested": False}, {"g": 6, "tb": True, "nested": False}]],
                           "ops": [{"op": "cust", "form": form, "target": ["s", pos], "t": ["fn"], "via_target": True,
                                    "flags": list(flags), "elab": elab}]}


def gen_customize(rng):
    n = rng.randint(1, 4)
    ngroups = rng.randint(1, n)
    stack = []
    for _ in range(n):
        stack.append({"g": rng.randrange(ngroups), "tb": rng.random() < 0.25, "nested": rng.random() < 0.3})
    repls = []
    for _ in range(rng.randint(0, 2)):
        repls.append([{"g": rng.choice([rng.randrange(ngroups), 5, 6]), "tb": rng.random() < 0.25, "nested": rng.random() < 0.3}
                      for _ in range(rng.randint(1, 2))])
    ops = []
    for _ in range(rng.randint(0, 4)):
        if repls and rng.random() < 0.3:
            ri = rng.randrange(len(repls))
            target = ["r", ri, rng.randrange(len(repls[ri]))]
            lo = ri + 1
        else:
            target = ["s", rng.randrange(n)]
            lo = 0
        t = ["fn"] if rng.random() < 0.9 else ["code"]
        for _ in range(rng.choice([0, 0, 0, 1, 1, 2, 3])):
            t = [rng.choice(WRAPS), t]
        kinds = ["no", "none", "empty"] + (["repl", "repl"] if lo < len(repls) else [])
        e = rng.choice(kinds)
        tag = rng.randrange(1, 5)
        elab = {"no": ["no"], "none": ["none", tag], "empty": ["empty", tag]}.get(e) or ["repl", tag, rng.randrange(lo, len(repls))]
        if rng.random() < 0.8:
            ops.append({"op": "cust", "form": rng.choice(["direct", "deco"]), "target": target, "t": t,
                        "via_target": rng.random() < 0.6, "flags": [rng.random() < 0.5 for _ in range(3)], "elab": elab})
        else:
            if elab[0] == "no":
                elab = ["none", tag]
            ops.append({"op": "reg", "target": target, "t": t, "via_target": rng.random() < 0.6, "elab": elab})
    return {"_kind": "customize", "stack": stack, "repls": repls, "ops": ops}


def _link(chain):
    for a, b in zip(chain, chain[1:]):
        a["ns"]["NEXT"] = b["fn"]


def run_customize(desc):
    import stackscope
    ids = Ids()
    pool = FnPool()

    def build_chain(specs):
        ch = [pool.make("f%d" % s["g"], tb=s["tb"], nested=s["nested"], last=(i == len(specs) - 1))
              for i, s in enumerate(specs)]
        _link(ch)
        return ch
    stack = build_chain(desc["stack"])
    repls = [build_chain(r) for r in desc["repls"]]
    rgens = []
    for ch in repls:
        g = ch[0]["fn"]()
        next(g)
        rgens.append(g)
    log = []

    def describe(x):
        if x is None:
            return None
        if isinstance(x, stackscope.Frame):
            return x.funcname
        return "<leaf>"

    def make_elab(spec):
        if spec[0] == "no":
            return None
        ret = {"none": None, "empty": ()}.get(spec[0], None)
        if spec[0] == "repl":
            ret = rgens[spec[2]]
        tag = spec[1]

        def elaborate(frame, next_inner):
            log.append([tag, frame.funcname, describe(next_inner)])
            if len(log) > 40:       # extract() has no fuel: a replacement that keeps matching would never end
                raise RuntimeError("c12: elaborate hook called more than 40 times in one extraction")
            return ret
        return elaborate
    results, terms, oracle = [], [], None
    for op in desc["ops"]:
        tg = op["target"]
        f = stack[tg[1]] if tg[0] == "s" else repls[tg[1]][tg[2]]
        base, names = (f["target"], list(f["names"])) if op["via_target"] else (f["fn"], [])
        try:
            obj, term = build_tower(op["t"], base, ids)
        except Unbuildable:
            results.append(None)
            terms.append(None)
            continue
        terms.append([term, names])
        el = make_elab(op["elab"])
        try:
            if op["op"] == "reg":
                ret = stackscope.elaborate_frame.register(obj, *names)(el)
                want = el
            else:
                kw = dict(hide=op["flags"][0], hide_line=op["flags"][1], prune=op["flags"][2], elaborate=el)
                if op["form"] == "direct":
                    ret = stackscope.customize(obj, *names, **kw)
                else:
                    ret = stackscope.customize(**kw)(obj, *names)
                want = obj
        except Exception as ex:
            results.append(err_of(ex))
        else:
            results.append(["ok"])
            if ret is not want:
                oracle = "customize()/register() did not return its target/function unchanged"
    g = stack[0]["fn"]()
    next(g)
    st = stackscope.extract(g, with_contexts=False)
    frames = [[f.funcname, bool(f.hide), bool(f.hide_line)] for f in st.frames]
    if st.error is not None:
        oracle = "extract() reported an error: %r" % (st.error,)
    if st.leaf is not None:
        oracle = "unexpected leaf %r" % (st.leaf,)

    def fdesc(chain, specs):
        out = []
        gg = chain[0]["fn"]
        for c, s in zip(chain, specs):
            out.append([ids.of(c["fn"].__code__), c["fn"].__code__.co_name, s["tb"]])
        return out
    obs = {"results": results, "terms": terms, "frames": frames, "calls": list(log),
           "stack": fdesc(stack, desc["stack"]), "repls": [fdesc(c, s) for c, s in zip(repls, desc["repls"])],
           "twins": [pool.twin_pairs, pool.twin_bad]}
    g.close()
    for x in rgens:
        x.close()
    if pool.twin_bad:
        oracle = "harness: sources compiled twice did not give equal-but-distinct code objects"
    if oracle:
        obs["oracle"] = oracle
    return obs


def c_frame(f):
    return "(Frame %d %s %s)" % (f[0], cstr(f[1]), cbool(f[2]))


def c_ret(spec, obs):
    if spec[0] == "none":
        return "None"
    if spec[0] == "empty":
        return "(Some [])"
    return "(Some %s)" % clist([c_frame(f) for f in obs["repls"][spec[2]]])


def coq_customize(desc, obs):
    ops, res = [], []
    for op, tn, x in zip(desc["ops"], obs["terms"], obs["results"]):
        if tn is None:
            continue
        e = op["elab"]
        if op["op"] == "reg":
            ops.append("CReg %s %s %d %s" % (c_tower(tn[0]), c_names(tn[1]), e[1], c_ret(e, obs)))
        else:
            el = "ENo" if e[0] == "no" else "(ERet %d %s)" % (e[1], c_ret(e, obs))
            ops.append("CCust %s %s %s (Opts %s %s %s %s)" % (
                "Direct" if op["form"] == "direct" else "Decorator", c_tower(tn[0]), c_names(tn[1]),
                cbool(op["flags"][0]), cbool(op["flags"][1]), cbool(op["flags"][2]), el))
        res.append(c_rres(x))
    frames = clist(["(OFrame %s %s %s)" % (cstr(f[0]), cbool(f[1]), cbool(f[2])) for f in obs["frames"]])
    calls = clist(["(%d, %s, %s)" % (c[0], cstr(c[1]), copt(cstr(c[2])) if c[2] is not None else "None") for c in obs["calls"]])
    return "(%s, %s, %s, WOk %s %s)" % (clist(ops), clist([c_frame(f) for f in obs["stack"]]), clist(res), frames, calls)


# ====================================================================== module API
def make_inputs(tier, seed):
    rng = random.Random(seed * 7919 + 12)
    quick = tier == "quick"
    # --- main: exhaustive towers, then random towers and nestings
    for d in range(0, 5 if quick else 6):
        for t in all_towers(d):
            yield {"_kind": "main", "tower": t, "names": [], "nest": SIMPLE_TOP}
    for d in range(0, 3):
        for t in all_towers(d, leaves=("fn", "code")):
            for names in (["a"], ["a", "b"], ["b"], ["a", "a"]):
                yield {"_kind": "main", "tower": t, "names": names, "nest": SIMPLE_TOP}
    for _ in range(150 if quick else 1500):
        yield {"_kind": "main", "tower": rand_tower(rng, rng.randint(5, 7)), "names": [], "nest": SIMPLE_TOP}
    for _ in range(1000 if quick else 10000):
        nest = gen_nest(rng, rng.randint(1, 4), top=True)
        yield {"_kind": "main", "tower": rand_tower(rng, rng.choice([0, 0, 1, 2])), "names": gen_names(rng, nest), "nest": nest}
    # --- idict
    for _ in range(2500 if quick else 20000):
        yield gen_idict(rng)
    # --- registry
    for _ in range(1000 if quick else 8000):
        yield gen_registry(rng)
    # --- customize
    yield from sweep_customize()
    for _ in range(1200 if quick else 10000):
        yield gen_customize(rng)


def run_case(desc):
    k = desc.get("_kind", "main")
    return {"main": run_main, "idict": run_idict, "registry": run_registry, "customize": run_customize}[k](desc)


def coq_case(desc, obs):
    k = desc.get("_kind", "main")
    return {"main": coq_main, "idict": coq_idict, "registry": coq_registry, "customize": coq_customize}[k](desc, obs)


def direct_oracle(desc, obs):
    return obs.get("oracle")


def classify(desc, obs):
    k = desc.get("_kind", "main")
    labs = ["kind:" + k]
    if k == "main" and "res" in obs:
        labs.append("main:" + obs["res"][0])
        labs.append("main:names=%d" % min(len(desc["names"]), 4))
        if obs.get("called"):
            labs.append("main:oracle-called")
        if obs.get("resolved"):
            labs.append("main:oracle-nested")
    elif k == "main":
        labs.append("main:unbuildable")
    elif k == "registry":
        labs.append("registry:" + desc["which"])
        if obs["twins"][0]:
            labs.append("registry:with-twins")
    elif k == "customize":
        if obs["twins"][0]:
            labs.append("customize:with-twins")
        labs.append("customize:frames=%d" % min(len(obs["frames"]), 6))
        labs.append("customize:calls=%d" % min(len(obs["calls"]), 3))
    return labs
