"""Source facts for C04, re-extracted from stackscope/_types.py with `ast` (fail-closed).

  c04_stackslice_field_order   class StackSlice is a @dataclass whose annotated fields, in source
                               order, are exactly (outer, inner, limit), each with default None --
                               the dataclass field order is the positional order of the public
                               constructor StackSlice(outer, inner, limit) that the model's
                               sspec / ASlice argument order stands for
"""
from __future__ import annotations

import ast
import os

from .common import REPO


def _is_dataclass_deco(d):
    if isinstance(d, ast.Call):
        d = d.func
    return (isinstance(d, ast.Name) and d.id == "dataclass") or (isinstance(d, ast.Attribute) and d.attr == "dataclass")


def compute():
    ok = False
    try:
        with open(os.path.join(REPO, "stackscope", "_types.py")) as fh:
            tree = ast.parse(fh.read())
        classes = [n for n in tree.body if isinstance(n, ast.ClassDef) and n.name == "StackSlice"]
        if len(classes) == 1:
            cls = classes[0]
            fields = []
            plain = True
            for st in cls.body:
                if isinstance(st, ast.AnnAssign) and isinstance(st.target, ast.Name):
                    fields.append((st.target.id, isinstance(st.value, ast.Constant) and st.value.value is None))
                elif isinstance(st, ast.Expr) and isinstance(st.value, ast.Constant):
                    continue            # docstring
                else:
                    plain = False       # methods (__init__!), assignments, ...: not understood
            decos_ok = len(cls.decorator_list) == 1 and _is_dataclass_deco(cls.decorator_list[0])
            kw = cls.decorator_list[0].keywords if decos_ok and isinstance(cls.decorator_list[0], ast.Call) else []
            no_kw_only = not any(k.arg in ("kw_only", "init") for k in kw)
            ok = (plain and decos_ok and no_kw_only and not cls.bases
                  and fields == [("outer", True), ("inner", True), ("limit", True)])
    except Exception:
        ok = False
    return {"c04_stackslice_field_order": bool(ok)}
