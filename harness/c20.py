"""C20 — the fallback (referents) analysis is a sound ordered over-approximation; failures only warn.
Coq: certificate soundness for the with-machine (P_Cert.analysis_exact) => for every checked code
object, at every suspension point of every execution, the model of the trickery analysis is exact.
Tie: (1) every corpus code object gets a certificate that Coq's checkk KRef accepts; (2) the real
currently_exiting_context / analyze_with_blocks agree with the model at every suspension offset;
(3) runtime ground truth (harness/progs.py: logging managers, all branch outcomes, every suspension)."""
from . import wm_cases as WC

PROP = "C20"
KINDS = WC.kinds("KRef")
SHARD = 14
RULE = ("corpus = standard-library code objects containing a with statement (20 sampled by seed in quick, all ~440 in "
        "thorough) + generated sync/generator/coroutine/async-generator bodies over with/async with (1..3 items, targets, "
        "layouts), try/except/else/finally, for/while/async for, if, match, return/break/continue/raise, for CPython 3.12 and "
        "(computed by a 3.11 child process on 3.11's own standard library and the same generator) CPython 3.11. Each code "
        "object yields: a 'cert' case (certificate from the untrusted dataflow, checked by M_Cert.checkk in Coq), a 'static' "
        "case (real currently_exiting_context / analyze_with_blocks vs the model at every observation offset), a 'join' case "
        "(the REAL _contexts_active_by_trickery run on every certified observation, stack taken from the certificate, "
        "exception-table walk and trim executed from inspect_frame's own source), a 'table' case (model of "
        "_parse_exception_table on the raw co_exceptiontable bytes); plus one 'live' case per program of the runtime leg "
        "(f_lasti and logged ground truth of real frames must be observations the certified machine offers). distinct = "
        "distinct code objects; non-trivial = has a certified observation with a non-empty truth / an exit in progress / a "
        "non-empty reported context list / >= 2 table entries / a non-empty logged truth")
CONFIG = dict(
    coq=["C20"], level="proof",
    claim=("Coq theorems: (1) for every code object whose certificate Coq's checker accepts (checkk KRef), at every "
           "suspension point of every execution of the with-machine the referents-mode answer (bound exit methods on the "
           "value stack + the exiting marker) contains every active manager in order with the identical instance and "
           "is_async, extras only managers being entered/exited, and an is_exiting entry exactly when an exit is in "
           "progress; (2) with the try/except guard regenerated from the source, a failure inside the trickery branch "
           "yields a warning and the referents answer, never an exception; (3) set_trickery_enabled is a sequentially "
           "consistent register. Tie: certificates checked on every corpus code object on every run, the exiting "
           "recogniser compared with the real function at every suspension offset, and a runtime leg in referents mode "
           "(ground truth from logging managers, fault injection into every helper of the trickery branch, mode "
           "sequences across threads)."),
    design_ref="DESIGN.md section 5 C01/C02/C20",
    trusted_base=["M_WithMachine.v is a hand-written model of CPython 3.12's and 3.11's with/async-with bytecode semantics (validated by "
                  "the ground-truth runtime leg and by the fact that all corpus code objects are explained by it)",
                  "M_Analysis.v models _lowlevel.py's 3.11 and 3.12 branches; compared with the real functions at observation offsets",
                  "harness/withmachine.py's translation of code objects (via dis) to abstract code"],
    assumptions=["the program space is sampled (generated programs + standard library); proved for all executions of each checked code object",
                 "awaitables returned by __aenter__/__aexit__ are coroutine objects (no Python-level __await__ runs inside GET_AWAITABLE)",
                 "Coq instances for CPython 3.12.1 and 3.11.7 bytecode (version parameter of the machine and of the analysis model); 3.9/3.10 (block stack) are covered by the runtime leg only"],
    unproved_legs=["CPython 3.9/3.10: runtime ground-truth leg only (no Coq model of the block-stack code path)",
                   "inspect_frame's ctypes reads are not modelled; the chain walk and slot arithmetic are (M_Analysis.blocks/slot)"],
    timeout={"quick": 1200, "thorough": 5400},
)


def make_inputs(tier, seed):
    yield from WC.make_descs(tier, seed, "susp")


run_case = WC.run_case
coq_case = WC.coq_case
direct_oracle = WC.direct_oracle
classify = WC.classify


def race_leg(rounds):
    """set_trickery_enabled(False) issued by thread B while thread A is inside the auto-detection
    self-test (mode None) must win once both have finished: B's call returns after A's store (it
    waits for the lock) or A's store must not happen.  The interleaving is forced with a trace
    function on thread A (no monkeypatching)."""
    import sys
    import threading
    from stackscope import _lowlevel as ll
    import stackscope

    code = ll._check_trickery_available.__code__
    bad = []
    saved = ll._can_use_trickery
    try:
        for r in range(rounds):
            ll.set_trickery_enabled(None)
            state = {"b": None, "fired": False}

            def set_false():
                ll.set_trickery_enabled(False)

            def tracer(frame, event, arg):
                if frame.f_code is code:
                    def local(frame, event, arg):
                        # inside the self-test: `noop_cm` exists once the detection has really begun
                        if event == "line" and not state["fired"] and "noop_cm" in frame.f_locals:
                            state["fired"] = True
                            state["b"] = threading.Thread(target=set_false)
                            state["b"].start()
                            state["b"].join(0.15 + 0.05 * r)   # returns early iff the lock is not held
                        return local
                    return local
                return None

            def gen():
                yield

            def thread_a():
                g = gen(); next(g)
                sys.settrace(tracer)
                try:
                    stackscope.extract(g, with_contexts=True)
                finally:
                    sys.settrace(None)

            ta = threading.Thread(target=thread_a)
            ta.start(); ta.join(20)
            if state["b"] is not None:
                state["b"].join(20)
            final = ll._check_trickery_available()
            if state["fired"] and final is not False:
                bad.append({"what": "set_trickery_enabled(False) issued while another thread was auto-detecting did not take "
                                    "effect: later extractions still use trickery=%r" % (final,),
                            "input": {"leg": "mode_race", "round": r}})
                break
            if not state["fired"]:
                bad.append({"what": "mode_race leg could not reach the auto-detection self-test (source shape changed?)",
                            "input": {"leg": "mode_race", "round": r}})
                break
    finally:
        ll.set_trickery_enabled(saved)
    return bad


def extra_legs(tier, seed):
    from . import progs
    res = progs.leg_referents(tier, seed)
    bad = race_leg(3 if tier == "quick" else 12)
    res["evaluations"] = res.get("evaluations", 0) + (3 if tier == "quick" else 12)
    res.setdefault("violations", []).extend(bad)
    res.setdefault("info", {})["mode_race_rounds"] = 3 if tier == "quick" else 12
    return res
