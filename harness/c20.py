"""C20 — the fallback (referents) analysis is a sound ordered over-approximation; failures only warn.
Coq: certificate soundness for the with-machine (P_Cert.analysis_exact) => for every checked code
object, at every suspension point of every execution, the model of the trickery analysis is exact.
Tie: (1) every corpus code object gets a certificate that Coq's checkk KRef accepts; (2) the real
currently_exiting_context / analyze_with_blocks agree with the model at every suspension offset;
(3) runtime ground truth (harness/progs.py: logging managers, all branch outcomes, every suspension)."""
from . import wm_cases as WC

PROP = "C20"
CASE_LIMIT = 5400      # the `live` descriptor runs whole runtime legs (many minutes in the thorough tier)
KINDS = WC.kinds("KRef")
SHARD = 14
RULE = ("corpus = standard-library code objects containing a with statement (20 sampled by seed in quick, all ~440 in "
        "thorough) + generated sync/generator/coroutine/async-generator bodies over with/async with (1..3 items, targets, "
        "layouts), try/except/else/finally, for/while/async for, if, match, return/break/continue/raise, for CPython 3.12 and "
        "(computed by a 3.11 child process on 3.11's own standard library and the same generator) CPython 3.11. Each code "
        "object yields: a 'cert' case (certificate from the untrusted dataflow, checked by M_Cert.checkk in Coq), a 'static' "
        "case (real currently_exiting_context / analyze_with_blocks vs the model at every observation offset), a 'join' case "
        "(the REAL _contexts_active_by_trickery run on every certified observation, stack taken from the certificate, "
        "exception-table walk and trim executed from inspect_frame's own source), a 'table' case (model of "
        "_parse_exception_table on the raw co_exceptiontable bytes); plus one 'live' case per program of the runtime leg "
        "(f_lasti and logged ground truth of real frames must be observations the certified machine offers). distinct = "
        "distinct code objects; non-trivial = has a certified observation with a non-empty truth / an exit in progress / a "
        "non-empty reported context list / >= 2 table entries / a non-empty logged truth")
CONFIG = dict(
    escalate=False,
    coq=["C20"], level="proof",
    claim=("Coq theorems: (1) for every code object whose certificate Coq's checker accepts (checkk KRef), at every "
           "suspension point of every execution of the with-machine the referents-mode answer (bound exit methods on the "
           "value stack + the exiting marker) contains every active manager in order with the identical instance and "
           "is_async, extras only managers being entered/exited, and an is_exiting entry exactly when an exit is in "
           "progress; (2) with the try/except guard regenerated from the source, a failure inside the trickery branch "
           "yields a warning and the referents answer, never an exception; (3) set_trickery_enabled is a sequentially "
           "consistent register. Tie: certificates checked on every corpus code object on every run, the exiting "
           "recogniser compared with the real function at every suspension offset, and a runtime leg in referents mode "
           "(ground truth from logging managers, fault injection into every helper of the trickery branch, mode "
           "sequences across threads)."),
    design_ref="DESIGN.md section 5 C01/C02/C20",
    trusted_base=["M_WithMachine.v is a hand-written model of CPython 3.12's and 3.11's with/async-with bytecode semantics (validated by "
                  "the ground-truth runtime leg and by the fact that all corpus code objects are explained by it)",
                  "M_Analysis.v models _lowlevel.py's 3.11 and 3.12 branches; compared with the real functions at observation offsets",
                  "harness/withmachine.py's translation of code objects (via dis) to abstract code"],
    assumptions=["the program space is sampled (generated programs + standard library); proved for all executions of each checked code object",
                 "awaitables returned by __aenter__/__aexit__ are coroutine objects (no Python-level __await__ runs inside GET_AWAITABLE)",
                 "Coq instances for CPython 3.12.1 and 3.11.7 bytecode (version parameter of the machine and of the analysis model); for 3.9/3.10 (block stack) only the exit-call attribution is a theorem (C01.v, C01_py310_exiting_block_partial), the rest is the runtime leg"],
    unproved_legs=["CPython 3.9/3.10: the pre-3.11 branch of currently_exiting_context and analyze_with_blocks is modelled (M_BlockStack) and tied by the "
                   "`bs` correspondence under both interpreters (every instruction offset of every corpus code object); the attribution of an exit call in "
                   "progress to the block its POP_BLOCK pops is a theorem (C01_py310_exiting_block_partial, for every execution of the block-stack machine); "
                   "exactness of the whole context list there, _lowlevel_cpython_310.inspect_frame and the absence of warnings are runtime ground-truth legs",
                   "inspect_frame's ctypes reads are not modelled; the chain walk and slot arithmetic are (M_Analysis.blocks/slot)"],
    timeout={"quick": 1200, "thorough": 5400},
)


KINDS["mode"] = dict(imports=WC.IMPORTS, type="mode_case", mismatch="mode_mismatches", nontrivial="mode_nontrivial")


def mode_descs(tier, seed):
    """operation sequences over set_trickery_enabled(True/False/None) and "extract now" (C), run from the
    undetermined state, in an environment where the auto-detection self-test succeeds (detect) and in one
    where it fails; `thr` = which operations are issued from a fresh second thread"""
    import itertools
    import random
    rng = random.Random(seed * 9176 + 11)
    n = 3 if tier == "quick" else 5
    for detect in (True, False):
        for L in range(1, n + 1):
            for ops in itertools.product("TFNC", repeat=L):
                if "C" not in ops:
                    continue
                yield {"_kind": "mode", "detect": detect, "ops": "".join(ops), "thr": rng.getrandbits(L)}
        for _ in range(60 if tier == "quick" else 600):
            L = rng.randint(4, 12)
            ops = "".join(rng.choice("TFNCCC") for _ in range(L))
            yield {"_kind": "mode", "detect": detect, "ops": ops, "thr": rng.getrandbits(L)}


def make_inputs(tier, seed):
    yield from mode_descs(tier, seed)
    yield from WC.make_descs(tier, seed, "susp")


_MODE_TARGET = []


def run_mode(d):
    """observed: per operation the mode a real contexts_active_in_frame call showed (None for a set) and
    whether the auto-detection warning was emitted"""
    import contextlib
    import io
    import threading
    import warnings
    from stackscope import _lowlevel as ll

    if not _MODE_TARGET:
        class CM:
            def __enter__(self):
                return self

            def __exit__(self, *a):
                return False

        def target():
            with CM() as first:
                with CM() as second:
                    yield 1
        g = target()
        next(g)
        _MODE_TARGET.append(g)
    g = _MODE_TARGET[0]
    saved = ll._can_use_trickery
    orig = ll._contexts_active_by_trickery
    selftest_code = ll._check_trickery_available.__code__

    def broken(frame, *a, **kw):
        # the self-test's own frames are the functions defined inside _check_trickery_available
        if frame.f_code in _nested(selftest_code):
            raise RuntimeError("self-test made to fail by the harness")
        return orig(frame, *a, **kw)

    outs, ws, bad = [], [], []

    def one(op):
        with warnings.catch_warnings(record=True) as wl:
            warnings.simplefilter("always")
            with contextlib.redirect_stderr(io.StringIO()):
                if op == "C":
                    try:
                        cs = ll.contexts_active_in_frame(g.gi_frame, g)
                    except BaseException as ex:
                        bad.append("contexts_active_in_frame raised %r" % (ex,))
                        cs = None
                    if cs is not None:
                        if len(cs) != 2:
                            bad.append("wrong number of contexts: %d" % len(cs))
                        if cs and all(c.varname is not None and c.start_line is not None for c in cs):
                            outs.append(True)
                        elif cs and all(c.varname is None and c.start_line is None for c in cs):
                            outs.append(False)
                        else:
                            bad.append("mixed / empty answer")
                            outs.append(None)
                    else:
                        outs.append(None)
                else:
                    ll.set_trickery_enabled({"T": True, "F": False, "N": None}[op])
                    outs.append(None)
        detect_w = [w for w in wl if issubclass(w.category, ll.InspectionWarning)
                    and ("on this interpreter" in str(w.message))]
        other_w = [w for w in wl if issubclass(w.category, ll.InspectionWarning) and w not in detect_w]
        if other_w:
            bad.append("unexpected InspectionWarning: %s" % (str(other_w[0].message)[:200],))
        if len(detect_w) > 1:
            bad.append("auto-detection warned %d times in one operation" % len(detect_w))
        ws.append(bool(detect_w))

    try:
        ll.set_trickery_enabled(None)
        if not d["detect"]:
            ll._contexts_active_by_trickery = broken
        for i, op in enumerate(d["ops"]):
            if (d.get("thr", 0) >> i) & 1:
                th = threading.Thread(target=one, args=(op,))
                th.start()
                th.join(30)
            else:
                one(op)
    finally:
        ll._contexts_active_by_trickery = orig
        ll.set_trickery_enabled(saved)
    return {"outs": outs, "warns": ws, "bad": bad}


_NESTED = {}


def _nested(code):
    if code not in _NESTED:
        import types
        out = set()
        todo = [code]
        while todo:
            c = todo.pop()
            for k in c.co_consts:
                if isinstance(k, types.CodeType) and k not in out:
                    out.add(k)
                    todo.append(k)
        _NESTED[code] = out
    return _NESTED[code]


def _b(x):
    return "true" if x else "false"


def run_case(d):
    if d.get("_kind") == "mode":
        return run_mode(d)
    return WC.run_case(d)


def coq_case(d, obs):
    if d.get("_kind") == "mode":
        if len(obs["outs"]) != len(d["ops"]):
            return None
        ops = "; ".join({"T": "TSet (Some true)", "F": "TSet (Some false)", "N": "TSet None", "C": "TCheck"}[o] for o in d["ops"])
        outs = "; ".join("None" if o is None else "Some " + _b(o) for o in obs["outs"])
        ws = "; ".join(_b(w) for w in obs["warns"])
        return "(%s, [%s], [%s], [%s])" % (_b(d["detect"]), ops, outs, ws)
    return WC.coq_case(d, obs)


def direct_oracle(d, obs):
    if d.get("_kind") == "mode":
        return ("mode sequence %s (detect=%s): %s" % (d["ops"], d["detect"], "; ".join(obs["bad"]))) if obs["bad"] else None
    return WC.direct_oracle(d, obs)


def classify(d, obs):
    if d.get("_kind") == "mode":
        return "mode:detect=%s,len=%d" % (d["detect"], min(len(d["ops"]), 6))
    return WC.classify(d, obs)


def race_leg(rounds):
    """set_trickery_enabled(False) issued by thread B while thread A is inside the auto-detection
    self-test (mode None) must win once both have finished: B's call returns after A's store (it
    waits for the lock) or A's store must not happen.  The interleaving is forced with a trace
    function on thread A (no monkeypatching)."""
    import sys
    import threading
    from stackscope import _lowlevel as ll
    import stackscope

    code = ll._check_trickery_available.__code__
    bad = []
    saved = ll._can_use_trickery
    try:
        for r in range(rounds):
            ll.set_trickery_enabled(None)
            state = {"b": None, "fired": False}

            def set_false():
                ll.set_trickery_enabled(False)

            def tracer(frame, event, arg):
                if frame.f_code is code:
                    def local(frame, event, arg):
                        # inside the self-test: `noop_cm` exists once the detection has really begun
                        if event == "line" and not state["fired"] and "noop_cm" in frame.f_locals:
                            state["fired"] = True
                            state["b"] = threading.Thread(target=set_false)
                            state["b"].start()
                            state["b"].join(0.15 + 0.05 * r)   # returns early iff the lock is not held
                        return local
                    return local
                return None

            def gen():
                yield

            def thread_a():
                g = gen(); next(g)
                sys.settrace(tracer)
                try:
                    stackscope.extract(g, with_contexts=True)
                finally:
                    sys.settrace(None)

            ta = threading.Thread(target=thread_a)
            ta.start(); ta.join(20)
            if state["b"] is not None:
                state["b"].join(20)
            final = ll._check_trickery_available()
            if state["fired"] and final is not False:
                bad.append({"what": "set_trickery_enabled(False) issued while another thread was auto-detecting did not take "
                                    "effect: later extractions still use trickery=%r" % (final,),
                            "input": {"leg": "mode_race", "round": r}})
                break
            if not state["fired"]:
                bad.append({"what": "mode_race leg could not reach the auto-detection self-test (source shape changed?)",
                            "input": {"leg": "mode_race", "round": r}})
                break
    finally:
        ll.set_trickery_enabled(saved)
    return bad


def extra_legs(tier, seed):
    from . import progs
    res = progs.leg_referents(tier, seed)
    bad = race_leg(3 if tier == "quick" else 12)
    res["evaluations"] = res.get("evaluations", 0) + (3 if tier == "quick" else 12)
    res.setdefault("violations", []).extend(bad)
    res.setdefault("info", {})["mode_race_rounds"] = 3 if tier == "quick" else 12
    return res
