"""Structural source facts for C07 (ast on /repo/stackscope/_lowlevel_cpython_311.py and _glue.py),
fail-closed: any shape that is not recognised yields False.

  snapshot_slot_check_adjacent     inside `for i in range(stack_len)`: `assert frame.f_lasti == lasti_before`
                                   is the statement immediately before the `try:` whose first statement is
                                   `obj = stack_ptr[i]`; that is the only subscript of stack_ptr in the function;
                                   neither statement contains a call
  snapshot_header_check_adjacent   `stacktop_copy = iframe_raw.stacktop`, `frame_owner = iframe_raw.owner` and
                                   `assert frame.f_lasti == lasti_before` are three consecutive statements with no
                                   call, and they hold the only reads of .stacktop / .owner
  snapshot_capture_to_check_no_call  inside the try of the retry loop, the statements from
                                   `iframe_raw = frame_raw.f_frame.contents` up to and including the first
                                   `assert frame.f_lasti == lasti_before` contain no call (and no guarded checkpoint)
  snapshot_iframe_reads_in_loop    every use of iframe_raw / .f_frame sits inside the `try` of the retry loop
  snapshot_handler_retries_only_if_moved   `except AssertionError:` starts with `if frame.f_lasti == lasti_before: raise`
                                   and ends with `continue`; the loop's else raises RuntimeError
  snapshot_blocks_from_accepted    the walk over the exception table after the retry loop starts from a variable whose
                                   only assignment is `<v> = <lasti_before>` in the accepted path of the retry loop
                                   (after the try, before `break`) -- or from lasti_before itself --, and no f_lasti
                                   read occurs after the retry loop
  snapshot_stack_reset_in_attempt  `details.stack = []` is executed inside the attempt before the slot loop
  snapshot_check_read_no_switch_bytecode   (3.12 host) in the compiled inspect_frame no CALL*/JUMP_BACKWARD*/RESUME/
                                   FOR_ITER/SEND sits between the f_lasti compare and the BINARY_SUBSCR of stack_ptr[i],
                                   nor between the LOAD_ATTR contents (pointer capture) / stacktop and the following f_lasti compare
  thread_alive_rechecked           unwrap_thread: was_alive = thread.is_alive() precedes the sys._current_frames()
                                   lookup, and the StackSlice is returned only after
                                   `if inner_frame is None or not thread.is_alive() or not was_alive: return []`
"""
from __future__ import annotations

import ast
import dis
import os
import sys

from .common import REPO
from .srcfacts import _parse, _find_def, _walk_with_parents

L311 = "stackscope/_lowlevel_cpython_311.py"


def _is_verif_if(st):
    """`if _verif.ENABLED: _verif.checkpoint(...)` -- the guarded checkpoints are transparent"""
    return (isinstance(st, ast.If) and isinstance(st.test, ast.Attribute) and st.test.attr == "ENABLED"
            and isinstance(st.test.value, ast.Name) and st.test.value.id == "_verif" and not st.orelse)


def _strip(body):
    return [s for s in body if not _is_verif_if(s)]


NAMES = {"frame": "frame", "lasti": "lasti_before", "iframe": "iframe_raw", "ptr": "stack_ptr", "len": "stack_len",
         "frame_raw": "frame_raw"}


def _derive_names(fn):
    """Locals are recognised by what is assigned to them, not by their names (a rename is harmless)."""
    n = {}
    n["frame"] = fn.args.args[0].arg
    loop = _retry_loop(fn)
    first = _strip(loop.body)[0]
    if not (isinstance(first, ast.Assign) and isinstance(first.targets[0], ast.Name) and isinstance(first.value, ast.Attribute)
            and first.value.attr == "f_lasti" and isinstance(first.value.value, ast.Name) and first.value.value.id == n["frame"]):
        raise ValueError("retry loop does not start with <lasti> = <frame>.f_lasti")
    n["lasti"] = first.targets[0].id
    caps = [x for x in ast.walk(fn) if isinstance(x, ast.Assign) and isinstance(x.targets[0], ast.Name)
            and isinstance(x.value, ast.Attribute) and x.value.attr == "contents" and isinstance(x.value.value, ast.Attribute)
            and x.value.value.attr == "f_frame" and isinstance(x.value.value.value, ast.Name)]
    if len(caps) != 1:
        raise ValueError("pointer capture not unique")
    n["iframe"] = caps[0].targets[0].id
    n["frame_raw"] = caps[0].value.value.value.id
    ptrs = [x for x in ast.walk(fn) if isinstance(x, ast.Assign) and isinstance(x.targets[0], ast.Name)
            and isinstance(x.value, ast.Call) and isinstance(x.value.func, ast.Attribute) and x.value.func.attr == "from_address"
            and any(isinstance(y, ast.Name) and y.id == n["iframe"] for y in ast.walk(x.value))]
    if len(ptrs) != 1:
        raise ValueError("stack pointer array not unique")
    n["ptr"] = ptrs[0].targets[0].id
    loops = [x for x in ast.walk(loop) if isinstance(x, ast.For) and x is not loop and isinstance(x.iter, ast.Call)
             and isinstance(x.iter.func, ast.Name) and x.iter.func.id == "range" and len(x.iter.args) == 1
             and isinstance(x.iter.args[0], ast.Name)
             and any(isinstance(y, ast.Subscript) and isinstance(y.value, ast.Name) and y.value.id == n["ptr"] for y in ast.walk(x))]
    if len(loops) != 1:
        raise ValueError("slot loop not unique")
    n["len"] = loops[0].iter.args[0].id
    return n


def _is_lasti_assert(st):
    if not isinstance(st, ast.Assert) or not isinstance(st.test, ast.Compare):
        return False
    t = st.test
    if len(t.ops) != 1 or not isinstance(t.ops[0], ast.Eq):
        return False
    a, b = t.left, t.comparators[0]
    return (isinstance(a, ast.Attribute) and a.attr == "f_lasti" and isinstance(a.value, ast.Name) and a.value.id == NAMES["frame"]
            and isinstance(b, ast.Name) and b.id == NAMES["lasti"])


def _has_call(node):
    return any(isinstance(x, ast.Call) for x in ast.walk(node))


def _attr_assign(st, attr):
    return (isinstance(st, ast.Assign) and len(st.targets) == 1 and isinstance(st.targets[0], ast.Name)
            and isinstance(st.value, ast.Attribute) and st.value.attr == attr
            and isinstance(st.value.value, ast.Name) and st.value.value.id == NAMES["iframe"])


def _retry_loop(fn):
    """the `for _ in range(N)` loop (N a literal or a module-level constant name; its value is the business of
    SrcFacts.snapshot_retries) whose body starts with `<v> = <frame>.f_lasti`"""
    frame = fn.args.args[0].arg if fn.args.args else None
    loops = []
    for x in ast.walk(fn):
        if not (isinstance(x, ast.For) and isinstance(x.iter, ast.Call) and isinstance(x.iter.func, ast.Name)
                and x.iter.func.id == "range" and len(x.iter.args) == 1 and not x.iter.keywords
                and isinstance(x.iter.args[0], (ast.Constant, ast.Name))):
            continue
        body = _strip(x.body)
        if (body and isinstance(body[0], ast.Assign) and len(body[0].targets) == 1 and isinstance(body[0].targets[0], ast.Name)
                and isinstance(body[0].value, ast.Attribute) and body[0].value.attr == "f_lasti"
                and isinstance(body[0].value.value, ast.Name) and body[0].value.value.id == frame):
            loops.append(x)
    return loops[0] if len(loops) == 1 else None


def _blocks(fn):
    for node in ast.walk(fn):
        for field in ("body", "orelse", "finalbody"):
            b = getattr(node, field, None)
            if isinstance(b, list) and b and isinstance(b[0], ast.stmt):
                yield b


_TREE = None


def compute():
    global _TREE
    facts = {k: False for k in (
        "snapshot_slot_check_adjacent", "snapshot_header_check_adjacent", "snapshot_capture_to_check_no_call",
        "snapshot_iframe_reads_in_loop",
        "snapshot_handler_retries_only_if_moved", "snapshot_stack_reset_in_attempt", "snapshot_blocks_from_accepted",
        "snapshot_check_read_no_switch_bytecode", "thread_alive_rechecked")}
    try:
        tree = _parse(L311)
        _TREE = tree
        fn = _find_def(tree, "inspect_frame")
        if fn is not None:
            _snapshot_facts(fn, facts)
            _bytecode_fact(facts)
    except Exception:
        pass
    try:
        _thread_fact(facts)
    except Exception:
        pass
    return facts


def _snapshot_facts(fn, facts):
    loop = _retry_loop(fn)
    if loop is None:
        return
    NAMES.update(_derive_names(fn))
    tries = [s for s in loop.body if isinstance(s, ast.Try)]
    if len(tries) != 1:
        return
    tr = tries[0]

    # --- slot re-check adjacent to the read
    subs = [x for x in ast.walk(fn) if isinstance(x, ast.Subscript) and isinstance(x.value, ast.Name)
            and x.value.id == NAMES["ptr"]]
    slot_loops = [x for x in ast.walk(tr) if isinstance(x, ast.For) and isinstance(x.target, ast.Name)
                  and isinstance(x.iter, ast.Call) and isinstance(x.iter.func, ast.Name) and x.iter.func.id == "range"
                  and len(x.iter.args) == 1 and isinstance(x.iter.args[0], ast.Name) and x.iter.args[0].id == NAMES["len"]]
    ok = False
    if len(subs) == 1 and len(slot_loops) == 1:
        body = _strip(slot_loops[0].body)
        ivar = slot_loops[0].target.id
        for k, st in enumerate(body):
            if isinstance(st, ast.Try) and st.body:
                first = st.body[0]
                if (isinstance(first, ast.Assign) and first.value is subs[0] and isinstance(subs[0].slice, ast.Name)
                        and subs[0].slice.id == ivar and not _has_call(first)
                        and k > 0 and _is_lasti_assert(body[k - 1]) and not _has_call(body[k - 1])):
                    ok = True
    facts["snapshot_slot_check_adjacent"] = ok

    # --- header reads adjacent to their re-check
    reads = [x for x in ast.walk(fn) if isinstance(x, ast.Attribute) and x.attr in ("stacktop", "owner")]
    ok = False
    for b in _blocks(tr):
        # raw block: not even a guarded checkpoint may sit between the three statements
        for k in range(len(b) - 2):
            a, c, d = b[k], b[k + 1], b[k + 2]
            pair = ((_attr_assign(a, "stacktop") and _attr_assign(c, "owner"))
                    or (_attr_assign(a, "owner") and _attr_assign(c, "stacktop")))
            if pair and _is_lasti_assert(d) and not _has_call(d) and len(reads) == 2:
                ok = True
                hdr_vars = {a.targets[0].id, c.targets[0].id}
    # stacktop_copy / frame_owner must not be reassigned elsewhere
    stores = [x for x in ast.walk(fn) if isinstance(x, ast.Name) and isinstance(x.ctx, ast.Store)
              and ok and x.id in hdr_vars]
    facts["snapshot_header_check_adjacent"] = ok and len(stores) == 2

    # --- capture ... first re-check: no call at all
    ok = False
    tbody = tr.body
    caps = [k for k, st in enumerate(tbody) if isinstance(st, ast.Assign) and len(st.targets) == 1
            and isinstance(st.targets[0], ast.Name) and st.targets[0].id == NAMES["iframe"]]
    if len(caps) == 1:
        k0 = caps[0]
        v = tbody[k0].value
        shape = (isinstance(v, ast.Attribute) and v.attr == "contents" and isinstance(v.value, ast.Attribute)
                 and v.value.attr == "f_frame" and isinstance(v.value.value, ast.Name) and v.value.value.id == NAMES["frame_raw"])
        k1 = next((k for k in range(k0 + 1, len(tbody)) if _is_lasti_assert(tbody[k])), None)
        if shape and k1 is not None:
            window = tbody[k0:k1 + 1]
            # the header reads must be inside this window
            wids = {id(x) for st in window for x in ast.walk(st)}
            ok = (not any(_has_call(st) or _is_verif_if(st) for st in window)
                  and all(isinstance(st, (ast.Assign, ast.Assert)) for st in window)
                  and all(id(x) in wids for x in reads))
    # iframe_raw must not be captured anywhere else
    allcaps = [x for x in ast.walk(fn) if isinstance(x, ast.Name) and x.id == NAMES["iframe"] and isinstance(x.ctx, ast.Store)]
    facts["snapshot_capture_to_check_no_call"] = ok and len(allcaps) == 1

    # --- all InterpreterFrame accesses inside the try of the retry loop
    inside = {id(x) for s in tr.body for x in ast.walk(s)}
    uses = [x for x in ast.walk(fn) if (isinstance(x, ast.Name) and x.id == NAMES["iframe"])
            or (isinstance(x, ast.Attribute) and x.attr == "f_frame")]
    facts["snapshot_iframe_reads_in_loop"] = bool(uses) and all(id(x) in inside for x in uses)

    # --- handler
    ok = False
    if len(tr.handlers) == 1 and isinstance(tr.handlers[0].type, ast.Name) and tr.handlers[0].type.id == "AssertionError":
        hb = _strip(tr.handlers[0].body)
        if (len(hb) == 2 and isinstance(hb[0], ast.If) and not hb[0].orelse and len(hb[0].body) == 1
                and isinstance(hb[0].body[0], ast.Raise) and hb[0].body[0].exc is None
                and isinstance(hb[0].test, ast.Compare) and _is_lasti_assert(ast.Assert(test=hb[0].test, msg=None))
                and isinstance(hb[1], ast.Continue)):
            ok = True
    els = loop.orelse
    ok = ok and len(els) == 1 and isinstance(els[0], ast.Raise) and isinstance(els[0].exc, ast.Call) \
        and isinstance(els[0].exc.func, ast.Name) and els[0].exc.func.id == "RuntimeError"
    # the statements after the try inside the loop must end in `break`
    after = _strip(loop.body[loop.body.index(tr) + 1:])
    ok = ok and bool(after) and isinstance(after[-1], ast.Break)
    facts["snapshot_handler_retries_only_if_moved"] = ok

    # --- the block walk (inline, or extracted into a module-level helper(co, pos)) is fed the accepted position
    ok = False
    if loop in fn.body:
        rest = fn.body[fn.body.index(loop) + 1:]
        fresh = [x for st in rest for x in ast.walk(st) if isinstance(x, ast.Attribute) and x.attr == "f_lasti"]

        def accepted(v):
            """Name v holds the lasti validated by the accepted attempt: lasti_before itself (the loop is left
            by `break` only on acceptance) or a variable assigned exactly once, from it, on the accepted path"""
            if v == NAMES["lasti"]:
                return True
            stores = [x for x in ast.walk(fn) if isinstance(x, ast.Name) and isinstance(x.ctx, ast.Store) and x.id == v]
            path = _strip(loop.body[loop.body.index(tr) + 1:])
            asg = [st for st in path if isinstance(st, ast.Assign) and len(st.targets) == 1
                   and isinstance(st.targets[0], ast.Name) and st.targets[0].id == v
                   and isinstance(st.value, ast.Name) and st.value.id == NAMES["lasti"]]
            return len(stores) == 1 and len(asg) == 1

        def walk_start(stmts):
            """the Name the cursor of the unique bisect walk among stmts is initialised from (else None)"""
            walks = [st for st in stmts if isinstance(st, ast.While)]
            curs = set()
            for wl in walks:
                for x in ast.walk(wl):
                    if isinstance(x, ast.Call) and isinstance(x.func, ast.Attribute) and x.func.attr.startswith("bisect"):
                        for y in ast.walk(x):
                            if isinstance(y, ast.BinOp) and isinstance(y.op, ast.Add) and isinstance(y.left, ast.Name):
                                curs.add(y.left.id)
            if len(walks) != 1 or len(curs) != 1:
                return None
            cur = next(iter(curs))
            before = stmts[:stmts.index(walks[0])]
            inits = [st for st in before if isinstance(st, ast.Assign) and len(st.targets) == 1
                     and isinstance(st.targets[0], ast.Name) and st.targets[0].id == cur]
            if len(inits) == 1 and isinstance(inits[0].value, ast.Name):
                return inits[0].value.id
            return None

        inline = walk_start(rest)
        if inline is not None:
            ok = not fresh and accepted(inline)
        elif _TREE is not None:
            from . import snippets
            found = snippets.find_walk_helper(_TREE, fn)
            if found is not None:
                call, h = found
                calls_all = [x for x in ast.walk(fn) if isinstance(x, ast.Call) and isinstance(x.func, ast.Name)
                             and x.func.id == h.name]
                in_rest = any(call is x for st in rest for x in ast.walk(st))
                params = [a.arg for a in h.args.args]
                if len(calls_all) == 1 and in_rest and len(params) == 2 and isinstance(call.args[1], ast.Name):
                    start = walk_start(h.body)
                    reassigned = [x for x in ast.walk(h) if isinstance(x, ast.Name) and isinstance(x.ctx, ast.Store)
                                  and x.id == params[1]]
                    inner_fresh = [x for x in ast.walk(h) if isinstance(x, ast.Attribute) and x.attr == "f_lasti"]
                    ok = (start == params[1] and not reassigned and not inner_fresh and not fresh
                          and accepted(call.args[1].id))
    facts["snapshot_blocks_from_accepted"] = ok

    # --- details.stack = [] inside the attempt, before the slot loop
    ok = False
    tb = _strip(tr.body)
    for k, st in enumerate(tb):
        if (isinstance(st, ast.Assign) and len(st.targets) == 1 and isinstance(st.targets[0], ast.Attribute)
                and st.targets[0].attr == "stack" and isinstance(st.value, ast.List) and not st.value.elts):
            rest = tb[k + 1:]
            if slot_loops and any(slot_loops[0] in list(ast.walk(r)) for r in rest):
                ok = True
    facts["snapshot_stack_reset_in_attempt"] = ok


def _bytecode_fact(facts):
    """On the interpreter that runs the check (3.12): compile the module source without executing it and look
    at the code object of inspect_frame."""
    if sys.version_info[:2] != (3, 12):
        return
    with open(os.path.join(REPO, L311)) as fh:
        src = fh.read()
    # STACKSCOPE_VERIF hooks are compiled in either way; they sit before the assert, not inside the pair
    mod = compile(src, L311, "exec")
    target = None
    for c in mod.co_consts:
        if hasattr(c, "co_name") and c.co_name == "inspect_frame":
            target = c
    if target is None:
        return
    ins = list(dis.get_instructions(target))
    switchy = lambda op: op.startswith("CALL") or op.startswith("JUMP_BACKWARD") or op in ("RESUME", "FOR_ITER", "SEND", "YIELD_VALUE")
    # slot pair: the BINARY_SUBSCR whose operands are stack_ptr, i
    ok_slot = False
    for k, i in enumerate(ins):
        if i.opname == "BINARY_SUBSCR" and k >= 2 and ins[k - 2].argval == NAMES["ptr"]:
            j = k
            while j > 0 and not (ins[j].opname == "LOAD_ATTR" and ins[j].argval == "f_lasti"):
                if switchy(ins[j].opname):
                    return
                j -= 1
            if j > 0 and any(x.opname == "COMPARE_OP" for x in ins[j:k]):
                ok_slot = True
    ok_hdr = False
    firsts = [k for k, i in enumerate(ins) if i.opname == "LOAD_ATTR" and i.argval in ("stacktop", "owner")]
    if len(firsts) == 2:
        j = firsts[0]
        seen = set()
        while j < len(ins) and not (ins[j].opname == "LOAD_ATTR" and ins[j].argval == "f_lasti"):
            if switchy(ins[j].opname):
                return
            if ins[j].opname == "LOAD_ATTR" and ins[j].argval in ("stacktop", "owner"):
                seen.add(ins[j].argval)
            j += 1
        ok_hdr = j < len(ins) and seen == {"stacktop", "owner"}
    # capture (`.contents`) ... first f_lasti load: no switch point either
    ok_cap = False
    for k, i in enumerate(ins):
        if i.opname == "LOAD_ATTR" and i.argval == "contents":
            j = k
            while j < len(ins) and not (ins[j].opname == "LOAD_ATTR" and ins[j].argval == "f_lasti"):
                if switchy(ins[j].opname):
                    return
                j += 1
            ok_cap = j < len(ins)
    facts["snapshot_check_read_no_switch_bytecode"] = ok_slot and ok_hdr and ok_cap


def _thread_fact(facts):
    tree = _parse("stackscope/_glue.py")
    fn = _find_def(tree, "unwrap_thread")
    if fn is None:
        return
    body = _strip(fn.body)

    tname = fn.args.args[0].arg

    def is_alive_call(x):
        return (isinstance(x, ast.Call) and isinstance(x.func, ast.Attribute) and x.func.attr == "is_alive"
                and isinstance(x.func.value, ast.Name) and x.func.value.id == tname and not x.args)

    if len(body) != 4:
        return
    s0, s1, s2, s3 = body
    if not (isinstance(s0, ast.Assign) and isinstance(s0.targets[0], ast.Name) and is_alive_call(s0.value)):
        return
    was = s0.targets[0].id
    if not (isinstance(s1, ast.Assign) and isinstance(s1.targets[0], ast.Name)
            and "_current_frames" in ast.dump(s1.value) and "ident" in ast.dump(s1.value)):
        return
    inner = s1.targets[0].id
    if inner == was:
        return
    if not (isinstance(s2, ast.If) and isinstance(s2.test, ast.BoolOp) and isinstance(s2.test.op, ast.Or)
            and len(s2.body) == 1 and isinstance(s2.body[0], ast.Return) and isinstance(s2.body[0].value, ast.List)
            and not s2.body[0].value.elts and not s2.orelse):
        return
    vals = s2.test.values
    has_none = any(isinstance(v, ast.Compare) and isinstance(v.left, ast.Name) and v.left.id == inner
                   and isinstance(v.ops[0], ast.Is) and isinstance(v.comparators[0], ast.Constant)
                   and v.comparators[0].value is None for v in vals)
    has_alive = any(isinstance(v, ast.UnaryOp) and isinstance(v.op, ast.Not) and is_alive_call(v.operand) for v in vals)
    has_was = any(isinstance(v, ast.UnaryOp) and isinstance(v.op, ast.Not) and isinstance(v.operand, ast.Name)
                  and v.operand.id == was for v in vals)
    if not (has_none and has_alive and has_was and len(vals) == 3):
        return
    if not (isinstance(s3, ast.Return) and isinstance(s3.value, ast.Call) and isinstance(s3.value.func, ast.Name)
            and s3.value.func.id == "StackSlice" and len(s3.value.keywords) == 1 and s3.value.keywords[0].arg == "inner"
            and isinstance(s3.value.keywords[0].value, ast.Name) and s3.value.keywords[0].value.id == inner):
        return
    facts["thread_alive_rechecked"] = True
