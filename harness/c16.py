"""C16 — Frame.origin and extract_outermost keep their documented contracts.

Leg 1 (Coq correspondence): synthetic hook tables (frames_gen) with real suspended generator
objects among the items; real extract() (frames with their origin) vs M_Frames.extract and real
extract_outermost() vs M_Frames.outermost, compared inside Coq.
Direct oracles on the implementation alone, per case: for every frame with a non-None origin
weakref.ref(origin) works, origin is the generator that owns the frame and
extract_outermost(origin).pyframe is frame.pyframe; extract_outermost(x) equals
extract(x).frames[0] (frame, line, hide flags, origin, contexts and child stacks) and raises iff
there is no frame, with the recorded error(s).
Leg 2 (extra_legs, harness/c16_real.py): real await / yield-from / async-generator chains, threads,
greenlets, custom items with and without frames.
"""
import random

from . import frames_gen as G
from .common import cbool, clist, copt
from .c05 import acyclic, forget_synthetic_classes

PROP = "C16"
IMPORTS = "From SS Require Import Base M_Frames."
KINDS = {"main": G.KIND_EXTRACT, "outer": G.KIND_OUTERMOST,
         # re-entrant extract_outermost (called from a hook of an enclosing extract with other options) against
         # M_Frames_Ambient.api_outermost
         "amb": dict(imports="From SS Require Import Base M_Frames M_Frames_Ambient.", type="acase",
                     mismatch="amismatches", nontrivial=None)}
RULE = ("rank-ordered hook tables over 5 objects x 5 frames of which some objects are real suspended generators (own frame + delegate), "
        "acyclic item graph; each table is run through extract() (kind main: frames with origins compared in Coq) and through "
        "extract_outermost() (kind outer: OFrame / ORaise compared in Coq), with and without the contexts step and with 0-2 injected "
        "faults; a subset is repeated with the extract_outermost call made RE-ENTRANTLY from an unwrap_stackitem hook of an enclosing "
        "extract(with_contexts=amb), amb in {True, False} (kind amb: compared in Coq with M_Frames_Ambient.api_outermost, which is "
        "proved independent of the ambient options); thorough adds more tables and every root. distinct = distinct descriptors; non-trivial = as C10 (main), every case (outer)")
SHARD = 250
CONFIG = dict(
    coq=["C16"], level="proof",
    claim=("Coq theorems (all hook tables, all roots) about the executable model of extract_iter with origins and of extract_outermost: "
           "extract_outermost = head of extract (raises iff no frame, with the recorded errors); a non-None origin is the generator-like "
           "object owning that frame and extract_outermost(origin) returns that frame; looking inside a suspended generator-like object "
           "gives its frame that object as origin. Tied to the code by differential comparison evaluated inside Coq and by direct "
           "oracles on synthetic tables and on real chains."),
    design_ref="DESIGN.md section 5 C16",
    trusted_base=["model M_Frames.v (better_origin, frame_origin, origins through the two queues, first-frame mode) is hand-written",
                  "gen_wf (generator-like objects are weak-referenceable and unwrap to their own frame first) is a hypothesis of "
                  "C16_origin_recovers describing the built-in glue for suspended coroutines/generators/async generators; the real-chain leg checks it"],
    assumptions=["hook results are tuples/lists/FrameIterators; hooks are deterministic between the two calls that are compared",
                 "a *running* generator's callees carry origin None (after fix F5) and a running generator unwraps to StackSlice(outer=own frame): "
                 "covered by the real-chain leg only, the synthetic generators are suspended"],
    unproved_legs=["C16_suspended_chain_origin is the one-step statement (looking inside one object); that a whole await chain of the C03 model "
                   "gets the right origin on every frame is checked by the real-chain leg against the objects' own cr_frame/gi_frame/ag_frame",
                   "lineno equality between extract_outermost(x) and extract(x).frames[0] is a runtime check only (the model has no line numbers)"],
    timeout={"quick": 900, "thorough": 5400},
)


def make_inputs(tier, seed):
    rng = random.Random(seed * 7919 + 16)
    n = 350 if tier == "quick" else 4000
    made = 0
    while made < n:
        kind = made % 4
        d = G.gen_case(rng, nf=5, no=5, gens=True, with_ctx=(kind == 3), faults=(rng.randrange(1, 3) if kind == 2 else 0), weird=False,
                       **({"gen2": True} if "gen2" in G.gen_case.__code__.co_varnames else {}))
        if kind == 3:
            # generators and contexts together are only safe when the combined item graph is acyclic
            pass
        if not acyclic(d):
            continue
        made += 1
        gen_objs = [["O", int(o)] for o, sp in d["unwrap"].items() if sp[0] in ("gen", "gen2")]
        roots = ([d["root"]] + [g for g in gen_objs if g != d["root"]]) if tier == "quick" \
            else [["O", o] for o in range(d["no"])] + [["F", 0]]
        for root in roots:
            base = dict(d, root=root)
            yield dict(base, mode="extract")
            yield dict(base, mode="outermost", _kind="outer")
            if kind in (1, 3) or made % 8 == 0:
                # the same call made re-entrantly, from a hook of an enclosing extract(..., with_contexts=amb)
                for amb in (True, False):
                    yield dict(base, mode="outermost", _kind="amb", _ambient=amb)
    # roots without frames / with a failing unwrap
    base = {"nf": 1, "no": 4, "frames": {"0": ["plain"]}, "attr": {"1": {"wref": False}}, "ctxs": {}, "fill": {}, "faults": [],
            "with_ctx": False, "elab": {"0": ["none", None, False]},
            "unwrap": {"0": ["none"], "1": ["raise"], "2": ["seq", [["O", 0], ["O", 1]], "list"], "3": ["iter", [["O", 1]], True]}}
    for o in range(4):
        yield dict(base, root=["O", o], mode="extract")
        yield dict(base, root=["O", o], mode="outermost", _kind="outer")


# ----------------------------------------------------------------- running the implementation
def _frame_eq(a, b, path="frame"):
    """a, b: stackscope.Frame; structural comparison of what a user sees"""
    import stackscope
    if a.pyframe is not b.pyframe:
        return f"{path}: different pyframe"
    for attr in ("lineno", "hide", "hide_line"):
        if getattr(a, attr) != getattr(b, attr):
            return f"{path}: {attr} {getattr(a, attr)!r} != {getattr(b, attr)!r}"
    if a.origin is not b.origin:
        return f"{path}: different origin"
    if len(a.contexts) != len(b.contexts):
        return f"{path}: {len(a.contexts)} contexts != {len(b.contexts)}"
    for i, (x, y) in enumerate(zip(a.contexts, b.contexts)):
        r = _ctx_eq(x, y, f"{path}.ctx{i}")
        if r:
            return r
    return None


def _ctx_eq(x, y, path):
    import stackscope
    if type(x.obj) is not type(y.obj) or (x.is_async, x.is_exiting, x.varname, x.start_line, x.hide, x.description) != \
            (y.is_async, y.is_exiting, y.varname, y.start_line, y.hide, y.description):
        return f"{path}: context differs"
    if (x.inner_stack is None) != (y.inner_stack is None):
        return f"{path}: inner_stack presence differs"
    if x.inner_stack is not None:
        r = _stack_eq(x.inner_stack, y.inner_stack, path + ".inner")
        if r:
            return r
    if len(x.children) != len(y.children):
        return f"{path}: children differ in number"
    for j, (p, q) in enumerate(zip(x.children, y.children)):
        if isinstance(p, stackscope.Stack) != isinstance(q, stackscope.Stack):
            return f"{path}.child{j}: kind differs"
        r = _stack_eq(p, q, f"{path}.child{j}") if isinstance(p, stackscope.Stack) else _ctx_eq(p, q, f"{path}.child{j}")
        if r:
            return r
    return None


def _stack_eq(s, t, path):
    if len(s.frames) != len(t.frames):
        return f"{path}: {len(s.frames)} frames != {len(t.frames)}"
    for i, (a, b) in enumerate(zip(s.frames, t.frames)):
        r = _frame_eq(a, b, f"{path}.f{i}")
        if r:
            return r
    if _err_sig(s.error) != _err_sig(t.error):
        return f"{path}: errors differ"
    return None


def _err_sig(e):
    if e is None:
        return []
    es = e.exceptions if hasattr(e, "exceptions") else [e]
    return [(type(x).__name__, repr(getattr(x, "args", None))) for x in es]


def origin_contract(st, with_contexts=True):
    """direct oracle on one extracted Stack -> None | message"""
    import types
    import weakref
    import stackscope
    for i, fr in enumerate(st.frames):
        o = fr.origin
        if o is None:
            continue
        try:
            weakref.ref(o)
        except TypeError:
            return f"frame {i}: origin {type(o).__name__} is not weak-referenceable"
        try:
            back = stackscope.extract_outermost(o, with_contexts=with_contexts)
        except BaseException as ex:  # noqa: BLE001
            return f"frame {i}: extract_outermost(origin) raised {ex!r}"
        if back.pyframe is not fr.pyframe:
            return f"frame {i} ({fr.pyframe.f_code.co_name}): extract_outermost(origin).pyframe is frame {back.pyframe.f_code.co_name}"
        if back.origin is not o:
            return f"frame {i}: extract_outermost(origin).origin is not origin"
    return None


def outermost_contract(x, st, **opts):
    """extract_outermost(x) vs the Stack st = extract(x, **opts) -> None | message"""
    import stackscope
    try:
        fr = stackscope.extract_outermost(x, **opts)
    except BaseException as ex:  # noqa: BLE001
        if st.frames:
            return f"extract_outermost raised {ex!r} although extract has {len(st.frames)} frames"
        want = _err_sig(st.error)
        if not want:
            if not (isinstance(ex, RuntimeError) and "Couldn't extract a frame" in str(ex)):
                return f"no frames, no error: expected the RuntimeError, got {ex!r}"
            return None
        got = _err_sig(ex)
        if got != want:
            return f"no frames: raised {got}, recorded error {want}"
        return None
    if not st.frames:
        return "extract_outermost returned a frame although extract has none"
    return _frame_eq(fr, st.frames[0])


def run_case(desc):
    try:
        return _run_case(desc)
    finally:
        forget_synthetic_classes()


class _Trigger:
    """a stack item whose unwrap hook runs a thunk: gives a hook context inside an enclosing extract()"""
    thunk = None


def in_hook_of_extract(amb, fn):
    """run fn() from inside an unwrap_stackitem hook of extract(..., with_contexts=amb); amb None = top level"""
    import stackscope
    if amb is None:
        return fn()
    if not getattr(_Trigger, "_registered", False):
        @stackscope.unwrap_stackitem.register(_Trigger)
        def _(x):
            _Trigger.result = _Trigger.thunk()
            return None
        _Trigger._registered = True
    _Trigger.thunk, _Trigger.result = fn, None
    st = stackscope.extract(_Trigger(), with_contexts=amb, recurse_child_tasks=not amb)
    if st.error is not None:
        raise st.error
    return _Trigger.result


def _run_case(desc):
    import stackscope
    if desc["mode"] == "outermost":
        amb = desc.get("_ambient")
        obs = in_hook_of_extract(amb, lambda: G.run_impl(desc))
        ext = in_hook_of_extract(amb, lambda: G.run_impl(dict(desc, mode="extract")))
        # pair oracle on the abstract observations (fresh objects in each run, same ids)
        if ext.get("kind") == "ok":
            if ext["frames"]:
                ok = obs.get("kind") == "frame" and obs["frame"] == ext["frames"][0]
                msg = "extract_outermost %r != first frame of extract %r" % (obs.get("frame", obs), ext["frames"][0])
            else:
                ok = obs.get("kind") == "raise" and obs["errs"] == ext["errs"]
                msg = "extract has no frames and errors %r; extract_outermost gave %r" % (ext["errs"], obs)
            obs["pair"] = True if ok else msg
        else:
            obs["pair"] = "extract() raised: %r" % (ext,)
        return obs
    captured = []
    orig = stackscope.extract

    def p_extract(x, **kw):
        st = orig(x, **kw)
        captured.append((x, st))
        return st
    stackscope.extract = p_extract
    try:
        obs = G.run_impl(desc)
    finally:
        stackscope.extract = orig
    if obs.get("kind") == "ok" and captured and not desc["faults"] and not desc["with_ctx"]:
        x, st = captured[-1]
        obs["direct"] = origin_contract(st, with_contexts=False) or outermost_contract(x, st, with_contexts=False) or True
        # ground truth for synthetic generators: the frame of generator o has origin o
        # ("gen2" = a second live instance of the same generator function: same code object, own frame)
        gens = {int(o): s[1] for o, s in desc["unwrap"].items() if s[0] in ("gen", "gen2")}
        for f in obs["frames"]:
            owner = [o for o, fo in gens.items() if fo == f["f"]]
            if f["org"] is not None and [f["org"]] != owner:
                obs["direct"] = "frame %d has origin object %r, its generator is %r" % (f["f"], f["org"], owner)
            obs.setdefault("origins", 0)
            obs["origins"] += f["org"] is not None
    return obs


def coq_case(desc, obs):
    if desc.get("_kind") == "amb":
        out = (f"(OFrame {G.c_fout(obs['frame'])})" if obs["kind"] == "frame"
               else f"(ORaise {clist([G.c_err(e) for e in obs['errs']])})")
        return f"({copt(cbool(desc['_ambient']))}, {G.c_cfg(desc)}, {G.c_item(desc['root'])}, {out})"
    return G.c_case(desc, obs)


def direct_oracle(desc, obs):
    if obs.get("kind") == "raised":
        return "extract() raised: " + obs.get("exc", "")
    if obs.get("direct", True) is not True:
        return "origin/outermost contract: " + str(obs["direct"])
    if obs.get("pair", True) is not True:
        return str(obs["pair"])
    return None


def classify(desc, obs):
    labs = ["mode:" + desc["mode"], "with_ctx=%s" % desc["with_ctx"], "faults=%d" % len(desc["faults"])]
    if "_ambient" in desc:
        labs.append("reentrant:ambient=%s,arg=%s" % (desc["_ambient"], desc["with_ctx"]))
    if desc["mode"] == "outermost":
        labs.append("outermost:" + obs.get("kind", "?"))
    elif obs.get("kind") == "ok":
        labs.append("frames_with_origin=%d" % min(obs.get("origins", 0), 4))
    return labs


def extra_legs(tier, seed):
    from . import c16_real
    return c16_real.run(tier, seed)
