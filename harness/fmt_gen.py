"""Shared by C18/C19: random Stack/Frame/Context trees built directly from stackscope's
dataclasses over REAL frame objects, their abstraction to the Coq tree type of M_Format.v, and
Gallina text literals (lists of code points; printable-ASCII runs are written `a "..."`).

A descriptor is a JSON tree spec (see gen_stack); everything else is rebuilt from it, so a
descriptor suffices to replay a case.  stackscope is imported inside functions only."""
from __future__ import annotations

import itertools
import linecache
import random
import sys
import traceback

from .common import cbool, clist, copt

F12 = "F12_newline_in_payload"

# ------------------------------------------------------------------ real frames
_SRC = {
    "<ga>": [
        "def f0(x=1):",
        "    with open(p) as fh:",
        "",
        "        y = 'café ─ ║'",
        "    \t  ",
        "    async with lock, other as (a, b):",
        "    return sys._getframe()",
        "class K:",
        "    def meth(self, q=2):",
        "        with self.cm() as v:  # c",
        "            return sys._getframe()",
        "    @classmethod",
        "    def cmeth(cls):",
        "        return sys._getframe()",
        "def boom(msg):",
        "    raise ValueError(msg)",
    ],
    "<gü>": [
        "def fé(z=None):",
        "    ─ = 1",
        "    return sys._getframe()",
        ". dotted",
        "─ dashed",
    ],
}
_world = None


def world():
    """name -> dict(frame=<frame object>, func, cls, modn, file)"""
    global _world
    if _world is not None:
        return _world
    w = {}
    for fn, lines in _SRC.items():
        text = "\n".join(lines) + "\n"
        linecache.cache[fn] = (len(text), None, [l + "\n" for l in lines], fn)
    # what is compiled has the same line layout as what linecache shows, but is valid Python
    ga = ("def f0(x=1):\n    pass\n    pass\n    y = 1\n    pass\n    pass\n    return sys._getframe()\n"
          "class K:\n    def meth(self, q=2):\n        pass\n        return sys._getframe()\n"
          "    @classmethod\n    def cmeth(cls):\n        return sys._getframe()\n"
          "def boom(msg):\n    raise ValueError(msg)\n")
    gu = "def fé(z=None):\n    ü = 1\n    return sys._getframe()\n"

    def ns(name):
        d = {"sys": sys}
        if name is not ...:
            d["__name__"] = name
        return d

    n1 = ns("modA")
    exec(compile(ga, "<ga>", "exec"), n1)
    w["f0"] = dict(frame=n1["f0"](), func="f0", cls=None, modn="modA", file="<ga>")
    w["meth"] = dict(frame=n1["K"]().meth(), func="meth", cls="K", modn="modA", file="<ga>")
    w["cmeth"] = dict(frame=n1["K"].cmeth(), func="cmeth", cls="K", modn="modA", file="<ga>")
    n2 = ns(...)
    exec(compile(ga, "<ga>", "exec"), n2)
    w["nomod"] = dict(frame=n2["f0"](), func="f0", cls=None, modn=None, file="<ga>")
    n3 = ns("")
    exec(compile(ga, "<ga>", "exec"), n3)
    w["emptymod"] = dict(frame=n3["f0"](), func="f0", cls=None, modn="", file="<ga>")
    n4 = ns("möd")
    exec(compile(gu, "<gü>", "exec"), n4)
    w["uni"] = dict(frame=n4["fé"](), func="fé", cls=None, modn="möd", file="<gü>")
    w["_boom"] = n1["boom"]
    _world = w
    return w


TEMPLATES = ["f0", "meth", "cmeth", "nomod", "emptymod", "uni"]


class _R:
    def __init__(self, text):
        self.text = text

    def __repr__(self):
        return self.text


class Lock(_R):
    pass


class Tüp(_R):
    pass


_OBJ_CLASSES = {"R": _R, "Lock": Lock, "Tup": Tüp}


class EmptyMailbox:
    """a falsy user object (awaitable-like with __len__ == 0)"""
    def __len__(self):
        return 0

    def __repr__(self):
        return "<EmptyMailbox>"


class FalsyError(ValueError):
    def __bool__(self):
        return False


class Bomb:
    """context-manager object whose __repr__ can be made to raise (mode "raise") or to park the
    calling thread (mode "park", only the thread `park_thread`) -- for histories on one Stack"""
    mode = None
    park_thread = None
    parked = None
    release = None

    def __repr__(self):
        import threading
        if Bomb.mode == "raise":
            raise RuntimeError("repr failed")
        if Bomb.mode == "park" and threading.get_ident() == Bomb.park_thread:
            Bomb.parked.set()
            Bomb.release.wait(20)
        return "<bomb>"


# objects that are falsy but not None: the code must treat them like any other object wherever it
# tests `is not None` (root, leaf, child root, context obj, error)
FALSY = {"0": lambda: 0, "''": lambda: "", "[]": lambda: [], "()": lambda: (), "{}": lambda: {},
         "False": lambda: False, "0.0": lambda: 0.0, "Empty": EmptyMailbox}


def mk_obj(spec):
    """spec: None | [classkey, reprtext] | ["int", n]"""
    if spec is None:
        return None
    if spec[0] == "int":
        return spec[1]
    if spec[0] == "falsy":
        return FALSY[spec[1]]()
    if spec[0] == "bomb":
        return Bomb()
    return _OBJ_CLASSES[spec[0]](spec[1])


def mk_err(spec):
    if spec is None:
        return None
    kind = spec[0]
    if kind == "V":
        return ValueError(spec[1])
    if kind == "K":
        return KeyError(spec[1])
    if kind == "falsy":
        return FalsyError(spec[1])
    if kind == "tb":
        try:
            world()["_boom"](spec[1])
        except ValueError as ex:
            return ex
    if kind == "cause":
        try:
            try:
                raise KeyError(spec[1])
            except KeyError as e1:
                raise RuntimeError(spec[2]) from e1
        except RuntimeError as ex:
            ex.__traceback__ = None
            ex.__cause__.__traceback__ = None
            return ex
    raise AssertionError(spec)


def build_stack(spec):
    from stackscope import Stack
    return Stack(root=mk_obj(spec["root"]), frames=[build_frame(f) for f in spec["frames"]],
                 leaf=mk_obj(spec["leaf"]), error=mk_err(spec["error"]))


def build_frame(spec):
    from stackscope import Frame
    t = world()[spec["t"]]
    return Frame(pyframe=t["frame"], lineno=spec["lineno"], contexts=[build_ctx(c) for c in spec["ctxs"]],
                 hide=spec["hide"], hide_line=spec["hide_line"])


def build_ctx(spec):
    from stackscope import Context
    kids = [build_ctx(k[1]) if k[0] == "c" else build_stack(k[1]) for k in spec["kids"]]
    return Context(obj=mk_obj(spec["obj"]), is_async=spec["async"], is_exiting=spec["exiting"],
                   varname=spec["varname"], start_line=spec["start_line"], description=spec["descr"],
                   inner_stack=None if spec["inner"] is None else build_stack(spec["inner"]),
                   children=kids, hide=spec["hide"])


# ------------------------------------------------------------------ Gallina literals
def ctext(s: str) -> str:
    if not s:
        return "[]"
    parts = []
    run = ""
    codes = []
    for ch in s:
        if 32 <= ord(ch) < 127:
            if codes:
                parts.append("[" + ";".join("%d%%N" % c for c in codes) + "]")
                codes = []
            run += ch
        else:
            if run:
                parts.append('a "' + run.replace('"', '""') + '"')
                run = ""
            codes.append(ord(ch))
    if codes:
        parts.append("[" + ";".join("%d%%N" % c for c in codes) + "]")
    if run:
        parts.append('a "' + run.replace('"', '""') + '"')
    return "(" + " ++ ".join(parts) + ")" if len(parts) > 1 else "(" + parts[0] + ")"


def cotext(s):
    return copt(None if s is None else ctext(s))


def clines(lines):
    return clist([ctext(l) for l in lines])


def cN(n):
    assert n >= 0
    return "%d%%N" % n


def copts(o):
    return "(Build_fopts %s %s %s)" % (cbool(o["ascii_only"]), cbool(o["show_contexts"]), cbool(o["show_hidden_frames"]))


OPTION_SETS = [dict(ascii_only=a, show_contexts=c, show_hidden_frames=h)
               for a in (False, True) for c in (True, False) for h in (False, True)]


# ---- abstraction: built objects -> model tree.  Environment inputs (reprs, linecache lookups,
# traceback.format_exception) are computed here, independently of stackscope's formatting code.
LOCALS = False      # C19 sets this: emit f_locals, repr(context), repr(obj) into the tree


def c_locals(py):
    if not LOCALS:
        return "[]"
    return clist(["(%s, %s)" % (ctext(k), ctext(repr(v))) for k, v in sorted(py.f_locals.items())])


def c_stack(spec, st):
    """spec is unused (kept for call compatibility): everything is read from the built objects"""
    err = None
    if st.error is not None:
        err = clines(traceback.format_exception(type(st.error), st.error, st.error.__traceback__))
    return "(Stk %s %s %s %s)" % (
        cotext(None if st.root is None else repr(st.root)),
        clist([c_frame(None, f) for f in st.frames]),
        cotext(None if st.leaf is None else repr(st.leaf)), copt(err))


def c_frame(spec, fr):
    py = fr.pyframe
    file = py.f_code.co_filename
    src = linecache.getline(file, fr.lineno, py.f_globals).strip()
    return "(Frm %s %s %s %s %s %s %s %s %s %s)" % (
        ctext(py.f_code.co_name), cotext(fr.clsname), cotext(py.f_globals.get("__name__")), ctext(file),
        cN(fr.lineno), ctext(src), c_locals(py), cbool(fr.hide), cbool(fr.hide_line),
        clist([c_ctx(None, c, fr) for c in fr.contexts]))


def c_ctx(spec, cx, parent, top=True, want_repr=False):
    from stackscope import Context
    csrc = ""
    if cx.start_line is not None and parent is not None and top:
        csrc = linecache.getline(parent.pyframe.f_code.co_filename, cx.start_line, parent.pyframe.f_globals).strip()
    kids = []
    for k in cx.children:
        if isinstance(k, Context):
            kids.append("(KCtx %s)" % c_ctx(None, k, parent, top=False, want_repr=True))
        else:
            kids.append("(KStk %s)" % c_stack(None, k))
    crepr = repr(cx) if (LOCALS and want_repr and not cx.description) else ""
    orepr = repr(cx.obj) if (LOCALS and not cx.description) else ""
    return "(Ctx %s %s %s %s %s %s %s %s %s %s %s %s)" % (
        cotext(None if cx.obj is None else type(cx.obj).__name__),
        cbool(cx.is_async), cbool(cx.is_exiting), cotext(cx.varname),
        copt(None if cx.start_line is None else cN(cx.start_line)), cotext(cx.description),
        ctext(csrc), ctext(crepr), ctext(orepr),
        copt(None if cx.inner_stack is None else c_stack(None, cx.inner_stack)),
        clist(kids), cbool(cx.hide))


# ------------------------------------------------------------------ generators
NAMES = ["v", "fh", "(a, b)", "x.y[0]", "é", "", "─ v", ". v"]
DESCRS = ["d", "stack.enter_context(cm)", "─ tricky", ". tricky", " ", "　", "", "café()", "  lead"]
REPRS = ["<R>", "<task 'a'>", "─ r", ". r", "| r", "║ r", " ", "", "répr", "+ x", "  Error while extracting stack:"]
NL_TEXTS = ["<ML\nline2>", "d1\nd2", "\n", "x\n"]
ERRS = [["V", "bad"], ["K", "kéy"], ["V", "two\nlines"], ["V", "a\n\nb"], ["tb", "boom"],
        ["cause", "inner", "outer"], ["V", ""], ["V", "  "], ["falsy", "falsy error"]]
# every character str.splitlines() breaks at (finding F20, fixed): ordinary cases
SEP_ERRS = [["V", "a\rb"], ["V", "e\r\nf\r"], ["V", "a\x0bb\x0cc"], ["V", "x\x1cy\x1dz\x1e"],
            ["V", "p\x85q\u2028r\u2029s"], ["K", "k\rk"], ["V", "\r\n\x85\n"], ["cause", "i\u2028n", "o\x0cut\r"]]
ERRS = ERRS + SEP_ERRS


def sep_error_specials():
    """error texts with each line-break character, at top level, in an inner stack and in a child stack"""
    for e in SEP_ERRS:
        yield {"root": None, "frames": [], "leaf": None, "error": e}
        yield wrap_ctx(_ctx("c", inner=_stub(root=None, frames=1, error=e), kids=[["s", _stub(frames=1, error=e)],
                                                                                   ["s", _stub(frames=0, error=e)]]))


def _pick(rng, xs):
    return xs[rng.randrange(len(xs))]


def gen_obj(rng, nl=False, allow_none=True):
    r = rng.random()
    if allow_none and r < 0.3:
        return None
    if r < 0.35:
        return ["int", rng.randrange(0, 50)]
    if r < 0.5:
        return ["falsy", _pick(rng, sorted(FALSY))]
    text = _pick(rng, NL_TEXTS) if (nl and rng.random() < 0.5) else _pick(rng, REPRS)
    return [_pick(rng, ["R", "Lock", "Tup"]), text]


def gen_ctx(rng, depth, width, nl=False):
    inner = None
    kids = []
    if depth > 0:
        if rng.random() < 0.4:
            inner = gen_stack(rng, depth - 1, width, nl=nl, as_inner=True)
        for _ in range(rng.randrange(0, width + 1) if rng.random() < 0.6 else 0):
            if rng.random() < 0.5:
                kids.append(["c", gen_ctx(rng, depth - 1, width, nl=nl)])
            else:
                kids.append(["s", gen_stack(rng, depth - 1, width, nl=nl, as_child=True)])
    descr = None
    r = rng.random()
    if r < 0.5:
        descr = _pick(rng, NL_TEXTS) if (nl and rng.random() < 0.5) else _pick(rng, DESCRS)
    return {"obj": gen_obj(rng), "async": rng.random() < 0.3, "exiting": rng.random() < 0.3,
            "varname": None if rng.random() < 0.4 else _pick(rng, NAMES),
            "start_line": None if rng.random() < 0.35 else _pick(rng, [0, 1, 2, 3, 5, 6, 10, 99]),
            "descr": descr, "inner": inner, "kids": kids, "hide": rng.random() < 0.2}


def gen_frame(rng, depth, width, nl=False):
    ctxs = []
    if depth > 0 and rng.random() < 0.7:
        ctxs = [gen_ctx(rng, depth - 1, width, nl=nl) for _ in range(rng.randrange(1, width + 1))]
    return {"t": _pick(rng, TEMPLATES), "lineno": _pick(rng, [-1, -1, 0, 1, 2, 3, 4, 5, 6, 10, 99]),
            "hide": rng.random() < 0.2, "hide_line": rng.random() < 0.15, "ctxs": ctxs}


def gen_stack(rng, depth, width, nl=False, as_inner=False, as_child=False):
    if as_child and rng.random() < 0.35:
        nfr = 0          # stub child
    else:
        nfr = rng.randrange(0 if (as_inner or as_child) else 1, width + 1) if rng.random() < 0.9 else 0
    frames = [gen_frame(rng, depth, width, nl=nl) for _ in range(nfr)]
    if frames and rng.random() < 0.12:
        # a run of identical frames (recursion): traceback folds more than 3 repeats
        i = rng.randrange(len(frames))
        rep = dict(frames[i], ctxs=[] if rng.random() < 0.7 else frames[i]["ctxs"][:1])
        frames[i:i + 1] = [rep] * rng.choice([4, 5, 6, 8])
    return {"root": gen_obj(rng, nl=nl), "frames": frames,
            "leaf": gen_obj(rng, nl=nl) if rng.random() < 0.4 else None,
            "error": _pick(rng, ERRS) if rng.random() < 0.25 else None}


def has_newline_payload(spec) -> bool:
    """F12's signature: some payload (root/leaf repr, description, varname) contains a newline"""
    def obj(o):
        return o is not None and o[0] not in ("int", "falsy", "bomb") and "\n" in o[1]

    def st(s):
        return obj(s["root"]) or obj(s["leaf"]) or any(fr(f) for f in s["frames"])

    def fr(f):
        return any(cx(c) for c in f["ctxs"])

    def cx(c):
        return (bool(c["descr"]) and "\n" in c["descr"]) or (bool(c["varname"]) and "\n" in c["varname"]) \
            or (c["inner"] is not None and st(c["inner"])) \
            or any(cx(k[1]) if k[0] == "c" else st(k[1]) for k in c["kids"])
    return st(spec)


def ctx_field_product():
    """every combination of the fields that decide a context's own line"""
    for obj, vn, sl, ds, asy, ex, hd in itertools.product(
            [None, ["Lock", "<L>"]], [None, "", "v"], [None, 0, 2, 99], [None, "", "d"],
            [False, True], [False, True], [False, True]):
        yield {"obj": obj, "async": asy, "exiting": ex, "varname": vn, "start_line": sl, "descr": ds,
               "inner": None, "kids": [], "hide": hd}


def wrap_ctx(c, as_child=False, t="f0"):
    if as_child:
        c = {"obj": None, "async": False, "exiting": False, "varname": None, "start_line": None, "descr": "outer",
             "inner": None, "kids": [["c", c]], "hide": False}
    return {"root": None, "frames": [{"t": t, "lineno": -1, "hide": False, "hide_line": False, "ctxs": [c]}],
            "leaf": None, "error": None}


def _stub(root="<t>", frames=0, leaf=None, error=None):
    fr = [{"t": "f0", "lineno": 7, "hide": False, "hide_line": False, "ctxs": []} for _ in range(frames)]
    return {"root": None if root is None else ["R", root], "frames": fr, "leaf": leaf, "error": error}


def _ctx(descr="c", kids=(), inner=None, hide=False, exiting=False):
    return {"obj": None, "async": False, "exiting": exiting, "varname": None, "start_line": None, "descr": descr,
            "inner": inner, "kids": list(kids), "hide": hide}


def blank_rule_specials():
    """the did_blank state machine of Context._format: sequences of children over
    {populated stack, stub stack, context, hidden context, blank-ending context, blank-text stub}"""
    alph = {
        "P": lambda: ["s", _stub(frames=1)],
        "S": lambda: ["s", _stub(frames=0)],
        "C": lambda: ["c", _ctx("k")],
        "H": lambda: ["c", _ctx("h", hide=True)],
        "B": lambda: ["c", _ctx("b", kids=[["s", _stub(frames=1)]])],
        "W": lambda: ["s", _stub(root=" ", frames=0)],
        "E": lambda: ["s", _stub(frames=1, error=["V", "a\n\n"])],
        "X": lambda: ["s", {"root": ["R", "<h>"], "frames": [
            {"t": "f0", "lineno": 7, "hide": True, "hide_line": False, "ctxs": []}], "leaf": None, "error": None}],
    }
    keys = sorted(alph)
    for n in (1, 2, 3):
        for combo in itertools.product(keys, repeat=n):
            kids = [alph[k]() for k in combo]
            yield wrap_ctx(_ctx("top", kids=kids))


_keep = []
_last = [None, None]


def build(desc):
    """descriptor -> Stack: {"spec": tree spec} or {"real": scenario name of fmt_real}.
    run_case and coq_case of one descriptor must see the SAME objects (reprs hold addresses),
    so the most recent build is cached."""
    import json
    key = json.dumps(desc, sort_keys=True)     # "hist" is part of the key: every history gets its own object
    if _last[0] == key:
        return _last[1]
    if "real" in desc:
        from . import fmt_real
        st, keep = fmt_real.build(desc["real"])
        _keep.append(keep)       # keep the suspended generator/coroutine alive while the case is rendered
        del _keep[:-4]
    else:
        st = build_stack(desc["spec"])
    _last[0], _last[1] = key, st
    return st


def falsy_specials():
    """None vs falsy, at every place where _types.py tests `is not None` or truthiness:
    root, leaf, child-stack root, context obj, error, description, varname, start_line, inner stack"""
    fr = lambda ctxs=(): {"t": "f0", "lineno": 7, "hide": False, "hide_line": False, "ctxs": list(ctxs)}
    for k in sorted(FALSY):
        o = ["falsy", k]
        yield {"root": o, "frames": [], "leaf": o, "error": None}
        yield {"root": None, "frames": [fr()], "leaf": o, "error": ["falsy", "e"]}
        yield {"root": o, "frames": [fr()], "leaf": None, "error": None}
        c = dict(_ctx(None, kids=[["s", {"root": o, "frames": [], "leaf": o, "error": None}],
                                  ["s", {"root": o, "frames": [fr()], "leaf": o, "error": ["falsy", "x"]}],
                                  ["c", dict(_ctx(""), obj=o, varname="")]],
                      inner={"root": o, "frames": [], "leaf": o, "error": None}), obj=o, varname=None, start_line=0)
        yield {"root": None, "frames": [fr([c])], "leaf": o, "error": None}


def repeat_specials():
    """runs of 4..8 consecutive IDENTICAL summary entries (traceback folds more than 3 into
    '[Previous line repeated N more times]'): the same real frame repeated, at top level and in an
    inner stack, hidden frames inside the run, and one context repeated at the same with-line"""
    fr = lambda t="f0", ln=7, ctxs=(), hide=False: {"t": t, "lineno": ln, "hide": hide, "hide_line": False, "ctxs": list(ctxs)}
    rc = lambda: dict(_ctx(None), obj=["Lock", "<L>"], varname="v", start_line=2)
    for n in (3, 4, 5, 8):
        yield {"root": None, "frames": [fr() for _ in range(n)], "leaf": ["R", "<leaf>"], "error": None}
        yield {"root": ["R", "<r>"], "frames": [fr("uni", 3)] + [fr("meth", 11) for _ in range(n)] + [fr("uni", 3)],
               "leaf": None, "error": ["V", "bad"]}
        # the run sits in an inner stack
        yield wrap_ctx(dict(_ctx("c"), inner={"root": None, "frames": [fr() for _ in range(n)], "leaf": None, "error": None}))
        # the same context repeated at one with-line, then the frame's own entry
        yield {"root": None, "frames": [fr(ctxs=[rc() for _ in range(n)])], "leaf": None, "error": None}
        # hidden frames inside the run: 2n frames, every other one hidden
        yield {"root": None, "frames": [fr(hide=bool(i % 2)) for i in range(2 * n)], "leaf": None, "error": None}
        # frames that each carry the same context: entries alternate, no folding
        yield {"root": None, "frames": [fr(ctxs=[rc()]) for _ in range(n)], "leaf": None, "error": None}


# ------------------------------------------------------------------ histories on ONE Stack object
import contextlib


@contextlib.contextmanager
def history(st, hist, log):
    """Run the operations of `hist` on the Stack `st`, then yield so that the caller observes the
    projections on the SAME object (for ["thread"]: while another thread is parked in the middle of
    a summary of it).  A projection is a pure function of the tree, so none of this may matter.
      ["fail"]        a summary that fails part-way: some context object's __repr__ raises under
                      capture_locals=True; the error must propagate and is contained here
      ["abandon", k]  Frame.as_stdlib_summary_with_contexts() iterator advanced k steps and dropped
      ["flags"]       successful calls with other flag combinations, format_flat, format
      ["thread"]      a second thread parked inside a __repr__ called by its own summary"""
    import gc
    import threading
    th = None
    for op in hist:
        if op[0] == "fail":
            Bomb.mode = "raise"
            try:
                st.as_stdlib_summary(show_contexts=True, show_hidden_frames=True, capture_locals=True)
                log.append("fail: no exception")
            except RuntimeError:
                log.append("fail: raised")
            finally:
                Bomb.mode = None
        elif op[0] == "abandon":
            for fr in st.frames[:2]:
                it = fr.as_stdlib_summary_with_contexts(show_hidden_frames=True)
                for _ in range(op[1]):
                    if next(it, None) is None:
                        break
                del it
            gc.collect()
        elif op[0] == "flags":
            st.as_stdlib_summary(show_contexts=True, show_hidden_frames=True)
            st.as_stdlib_summary(show_contexts=False, capture_locals=True)
            st.format_flat(show_contexts=True)
            st.format(show_hidden_frames=True)
        elif op[0] == "thread":
            Bomb.parked, Bomb.release = threading.Event(), threading.Event()

            def worker():
                Bomb.park_thread = threading.get_ident()
                Bomb.mode = "park"
                try:
                    st.as_stdlib_summary(show_contexts=True, show_hidden_frames=True, capture_locals=True)
                    log.append("thread: finished")
                except Exception as ex:      # pragma: no cover
                    log.append("thread: raised %r" % (ex,))
            th = threading.Thread(target=worker, daemon=True)
            th.start()
            log.append("thread: parked" if Bomb.parked.wait(10) else "thread: never parked")
    try:
        yield
    finally:
        if th is not None:
            Bomb.release.set()
            th.join(20)
            Bomb.mode = None
            Bomb.park_thread = None


HISTORIES = [[["fail"]], [["abandon", 1]], [["abandon", 2]], [["abandon", 3]], [["flags"]], [["thread"]],
             [["flags"], ["fail"], ["abandon", 1]], [["fail"], ["fail"]]]


def bomb_trees():
    """trees in which a context object's repr can fail/park at several depths: frame context, child
    context, context of a frame of an inner stack (all enclosing contexts are then mid-summary)"""
    fr = lambda ctxs=(), t="f0": {"t": t, "lineno": 7, "hide": False, "hide_line": False, "ctxs": list(ctxs)}
    bomb = lambda **kw: dict(_ctx(None), obj=["bomb"], varname="b", start_line=2, **kw)
    plain = lambda d="p", **kw: dict(_ctx(d), obj=["Lock", "<L>"], varname="v", start_line=6, **kw)
    inner = {"root": None, "frames": [fr(), fr(t="meth")], "leaf": None, "error": None}
    yield {"root": None, "frames": [fr([bomb(inner=inner, kids=[["c", plain("k")]])])], "leaf": None, "error": None}
    yield {"root": None, "frames": [fr([plain(inner=inner), bomb(), plain("q")]), fr([plain()], t="uni")],
           "leaf": ["R", "<l>"], "error": None}
    yield {"root": None, "frames": [fr([plain(kids=[["c", plain("k1")], ["c", bomb(inner=inner)], ["c", plain("k2")]])])],
           "leaf": None, "error": None}
    deep = {"root": None, "frames": [fr([plain("in1"), bomb(kids=[["c", plain("k3")]])])], "leaf": None, "error": None}
    yield {"root": ["R", "<r>"], "frames": [fr([plain(inner=deep, kids=[["c", plain("k4")]])]), fr([plain("z")], t="cmeth")],
           "leaf": None, "error": ["V", "bad"]}
    yield {"root": None, "frames": [fr([dict(bomb(inner=inner), hide=True), plain()])], "leaf": None, "error": None}
