"""C09 — generator-based managers and exit stacks unfold into the exact nested tree.

Correspondence: real ExitStack / AsyncExitStack objects populated through the public registration
methods, real @contextmanager / @asynccontextmanager managers (sync/async, with/without yield from),
nested arbitrarily, owned by a real coroutine / generator that is observed suspended in the body,
suspended inside a manager's exit, or running inside a manager's exit; the real stackscope.extract()
result is abstracted (Context.obj identity, is_async, is_exiting, inner_stack frames, children,
varname, description) and compared inside Coq with M_ExitStack.series on the same tree.  The
attribute vector of every callback that the real contextlib stored is printed next to the
registration kind and re-validated against the modelled map M_ExitStack.cl_attrs in the same run."""
import copy
import itertools
import random

from . import c09_build as B
from .common import cbool, clist, cnat

PROP = "C09"
F10_SIG = "F10_push_manager_indistinguishable"
KINDS = {"main": dict(imports="From SS Require Import Base M_ExitStack.", type="es_case",
                      mismatch="mismatches", nontrivial="count_nontrivial"),
         "hist": dict(imports="From SS Require Import Base M_ExitStack.", type="hist_case",
                      mismatch="hist_mismatches", nontrivial="hist_nontrivial"),
         "conc": dict(imports="From SS Require Import Base M_ExitStack.", type="conc_case",
                      mismatch="conc_mismatches", nontrivial="conc_nontrivial")}
SHARD = 300
RULE = ("(a) registration sequences: every sequence of length <= 4 over the 10 registration forms (enter_context, "
        "push(manager), push(function), push(bound method), callback, enter_async_context, push_async_exit(manager / "
        "function / bound method), push_async_callback) on an AsyncExitStack and every sync-only sequence on an ExitStack "
        "(exhaustive in thorough, all of length <= 2 plus a sample in quick); registered managers are plain, falsy, "
        "generator-based or exit stacks, chosen per position from the seed.  (b) random manager trees of depth <= 4 "
        "mixing plain / generator-based (sync, async, yield from) managers and exit stacks, owned by a coroutine or a "
        "generator observed suspended in the body, suspended inside an async manager's exit, or running inside any "
        "manager's exit (left normally or by an exception: throw()/athrow() into the manager's generator, cleanup in except or finally), including exit stacks observed in the middle of their own exit (a later callback running, earlier ones pending).  Every tree is extracted twice in a row (equal results required).  (c) histories: an extraction "
        "made to fail part-way (every plain manager's __repr__ raises), then two more extractions of the same still-entered "
        "tree.  (d) concurrent registration: the owner thread is parked inside `with ExitStack()`; the __repr__ of one "
        "registered manager, called by the extracting thread, makes the owner register one more callback and waits for it "
        "(events, no sleeps); extract(thread) must show the children of a snapshot (n or n+1), a later one all n+1.  "
        "distinct = distinct descriptors; non-trivial = the root frame holds a non-empty exit stack or a "
        "generator-based manager, or is exiting")
CONFIG = dict(
    coq=["C09"], level="proof",
    claim=("Coq theorems, for all registration sequences and all manager trees, that the executable model of "
           "elaborate_exit_stack / elaborate_generatorbased_contextmanager / fill_context / extract_child yields exactly the "
           "tree the property describes; the model (and the modelled contextlib representation) is tied to /repo and to the "
           "running contextlib by differential comparison evaluated inside Coq on exhaustive small sequences and random trees."),
    design_ref="DESIGN.md section 5 C09",
    trusted_base=["model M_ExitStack.v is hand-written from _glue.py / _extract.py",
                  "harness/c09_build.py: code generation of the owner / manager functions and the abstraction of Stack/Context "
                  "objects (identity of Context.obj, parsing of varname / description against independently computed texts)"],
    assumptions=["contextlib stores callbacks as modelled by M_ExitStack.cl_attrs (CPython 3.8+ representation; re-validated on "
                 "every run against the real contextlib for every generated registration)",
                 "which with-blocks are active / exiting in a frame and how generator / coroutine frames chain is input to the "
                 "model (properties C01-C03); unwrap_context returns None for every manager type in scope (the hook loop is C11)",
                 "'identifying the registered manager or callable as obj' is read as: the manager; the function; for a bound "
                 "method its receiver; for callback / push_async_callback contextlib's _exit_wrapper whose __wrapped__ is the callable"],
    unproved_legs=[],
    NOTES=("10 registration forms instead of 8 (push_async_exit split by argument type); push(bound method named __exit__) is "
           "treated as a further instance of F10 (contextlib stores the very same bound method as for enter_context); frames of "
           "contextlib itself and of the trap/probe helpers are dropped from the observed frame series before comparison."),
    timeout={"quick": 900, "thorough": 3600},
)

METH_TEXT = dict(enter_context="MEnter", enter_async_context="MEnterA", push="MPush", push_async_exit="MPushA",
                 callback="MCallback", push_async_callback="MACallback")


# ------------------------------------------------------------------------------ generators
def _plain(a, falsy=False):
    return {"t": "plain", "a": a, "f": falsy}


def _frm(ws=(), tail=("stop",)):
    return {"ws": list(ws), "tail": list(tail)}


def _wth(m, a=None, n=True):
    return {"a": m["a"] if a is None else a, "n": n, "m": m}


def gen_mgr(rng, d, a, weights=(5, 3, 2)):
    t = rng.choices(["plain", "gen", "stack"], weights)[0] if d > 0 else "plain"
    falsy = rng.random() < 0.15
    if t == "plain":
        return _plain(a, falsy)
    if t == "gen":
        return {"t": "gen", "a": a, "f": falsy, "body": gen_frm(rng, d - 1, "agen" if a else "gen", False, True, "susp")}
    return {"t": "stack", "a": a, "f": falsy, "cbs": [gen_cb(rng, d - 1, a) for _ in range(rng.choice([0, 1, 2, 2, 3, 4]))]}


def gen_cb(rng, d, stack_async, kind=None, weights=(6, 2, 2)):
    k = kind or rng.choice(B.KINDS if stack_async else B.SYNC_KINDS)
    is_a = k in B.KINDS[5:]
    c = {"k": k, "x": False, "m": None}
    if k in ("pushfn", "pushafn") and rng.random() < 0.6:
        c["lk"] = rng.choice(B.LOOKS[1:])
    if k in B.F10_KINDS and rng.random() < 0.4:
        # push(manager) of a generator-based manager that was never entered: its generator has an unstarted frame
        c["m"] = {"t": "gen", "a": is_a, "f": rng.random() < 0.15, "u": True, "body": _frm()}
    elif k in B.MGR_KINDS:
        c["m"] = gen_mgr(rng, d, is_a, weights)
    elif k in B.METH_KINDS:
        c["m"] = gen_mgr(rng, d, is_a, (8, 1, 1))
        c["x"] = rng.random() < 0.2
    return c


def gen_wth(rng, d, fk):
    a = fk in ("coro", "agen") and rng.random() < 0.5
    return {"a": a, "n": rng.random() < 0.6, "m": gen_mgr(rng, d, a)}


def gen_frm(rng, d, fk, on_path, body, mode, resumed=None):
    ws = [gen_wth(rng, d, fk) for _ in range(rng.choice([0, 1, 1, 2, 3]) if d > 0 else rng.choice([0, 0, 1]))]
    tail = ["stop"]
    r = rng.random()
    if not on_path:
        if fk == "gen" and d > 0 and r < 0.35:
            tail = ["deleg", gen_frm(rng, d - 1, "gen", False, True, mode)]
    elif d > 0:
        can_async = fk in ("coro", "agen")
        can_exit = mode == "run" or can_async
        if r < 0.3:
            tail = ["deleg", gen_frm(rng, d - 1, "gen" if fk == "gen" else "coro", True, False, mode)]
        elif r < 0.75 and can_exit:
            a = can_async and (mode == "susp" or rng.random() < 0.5)
            # the with-block is left normally, or by an exception (throw()/athrow() into the manager's generator)
            exc = resumed or rng.choice([None, None, "except", "finally"])
            r2 = rng.random()
            if r2 < 0.35:
                m = gen_exiting_stack(rng, d, a, mode, exc)
            elif r2 < 0.8:
                m = {"t": "gen", "a": a, "f": rng.random() < 0.15,
                     "body": gen_frm(rng, d - 1, "agen" if a else "gen", True, True, mode, resumed=exc)}
            else:
                m = _plain(a, rng.random() < 0.15)
            tail = ["exit", {"a": a, "n": rng.random() < 0.6, "m": m, "exc": exc}]
    if body and on_path and fk == "gen" and mode == "susp":
        raise AssertionError("sync manager on the suspended path")
    return {"ws": ws, "tail": tail}


def gen_exiting_stack(rng, d, a, mode, exc=None):
    """an exit stack observed in the middle of its own exit: pending callbacks + the popped, running one"""
    cbs = [gen_cb(rng, d - 1, a, weights=(2, 5, 2)) for _ in range(rng.choice([1, 1, 2, 3]))]
    cur_async = a and (mode == "susp" or rng.random() < 0.5)
    r = rng.random()
    if r < 0.5 and d > 0:
        cur = {"k": "entera" if cur_async else "enter", "x": False,
               "m": {"t": "gen", "a": cur_async, "f": False,
                     "body": gen_frm(rng, d - 1, "agen" if cur_async else "gen", True, True, mode, resumed=exc)}}
    elif r < 0.7:
        cur = {"k": "entera" if cur_async else "enter", "x": False, "m": _plain(cur_async)}
    else:
        kinds = ("pushafn", "acallback") if cur_async else ("pushfn", "callback")
        cur = {"k": rng.choice(kinds), "x": False, "m": None}
    return {"t": "stack", "a": a, "f": rng.random() < 0.1, "cbs": cbs, "cur": cur}


def gen_tree_case(rng, depth):
    mode = rng.choice(["susp", "susp", "run"])
    rk = "gen" if rng.random() < 0.25 else "coro"
    return {"root": gen_frm(rng, depth, rk, True, False, mode), "mode": mode, "rk": rk}


def seq_case(kinds, rng, sync_stack=False):
    """one exit stack populated by the given sequence of registration forms, owner suspended in the body"""
    cbs = [gen_cb(rng, 2 if rng.random() < 0.3 else 0, not sync_stack, kind=k, weights=(2, 5, 2)) for k in kinds]
    st = {"t": "stack", "a": not sync_stack, "f": rng.random() < 0.1, "cbs": cbs}
    named = rng.random() < 0.8
    root = _frm([{"a": not sync_stack, "n": named, "m": st}])
    return {"root": root, "mode": "susp", "rk": "gen" if sync_stack else "coro"}


def all_sequences(maxlen, kinds):
    for n in range(maxlen + 1):
        yield from itertools.product(kinds, repeat=n)


def f10_cases():
    """deliberate reproductions of known finding F10 (strict oracle, expected to fail)"""
    out = []
    for k, a in (("pushmgr", False), ("pushamgr", True)):
        st = {"t": "stack", "a": True, "f": False,
              "cbs": [{"k": "entera" if a else "enter", "x": False, "m": _plain(a)},
                      {"k": k, "x": False, "m": _plain(a)},
                      {"k": "pushafn" if a else "pushfn", "x": False, "m": None}]}
        out.append({"root": _frm([_wth(st)]), "mode": "susp", "rk": "coro", "_sig": F10_SIG})
    st = {"t": "stack", "a": False, "f": False, "cbs": [{"k": "pushmeth", "x": True, "m": _plain(False)}]}
    out.append({"root": _frm([_wth(st)]), "mode": "susp", "rk": "gen", "_sig": F10_SIG})
    return out


def specials():
    out = []
    gcm = lambda a, body=None, f=False: {"t": "gen", "a": a, "f": f, "body": body or _frm()}
    # falsy managers of every type, registered every way (F9 is fixed)
    for a in (False, True):
        ek, pk, mk = ("entera", "pushamgr", "pushameth") if a else ("enter", "pushmgr", "pushmeth")
        cbs = []
        for mk_m in (lambda: _plain(a, True), lambda: gcm(a, f=True),
                     lambda: {"t": "stack", "a": a, "f": True, "cbs": [{"k": "enter", "x": False, "m": gcm(False)}]}):
            cbs += [{"k": ek, "x": False, "m": mk_m()}, {"k": pk, "x": False, "m": mk_m()},
                    {"k": mk, "x": False, "m": mk_m()}, {"k": mk, "x": True, "m": mk_m()}]
        st = {"t": "stack", "a": True, "f": True, "cbs": cbs}
        out.append({"root": _frm([_wth(st, n=False)]), "mode": "susp", "rk": "coro"})
    # generator-based managers: body / exiting, sync / async, yield from, nested
    inner = gcm(False, _frm([_wth(_plain(False))], ["deleg", _frm([_wth(gcm(False))])]))
    out.append({"root": _frm([_wth(inner)]), "mode": "susp", "rk": "gen"})
    out.append({"root": _frm([_wth(inner)], ["deleg", _frm([_wth(gcm(False))])]), "mode": "susp", "rk": "coro"})
    for mode in ("susp", "run"):
        ex = gcm(True, _frm([_wth(_plain(True)), _wth(gcm(False))], ["deleg", _frm([_wth(_plain(False))])]))
        out.append({"root": _frm([_wth(gcm(True))], ["exit", _wth(ex)]), "mode": mode, "rk": "coro"})
        ex2 = gcm(True, _frm([_wth(_plain(True))], ["exit", _wth(gcm(True, _frm([_wth(gcm(False))])))]))
        out.append({"root": _frm([], ["exit", _wth(ex2)]), "mode": mode, "rk": "coro"})
        out.append({"root": _frm([_wth(gcm(True))], ["exit", _wth(_plain(True))]), "mode": mode, "rk": "coro"})
    # with-blocks left by an exception: contextlib drives the manager's generator with throw() / athrow()
    for mode in ("susp", "run"):
        for flav in ("except", "finally"):
            ex = gcm(True, _frm([_wth(_plain(True)), _wth(gcm(False))], ["deleg", _frm([_wth(_plain(False))])]))
            out.append({"root": _frm([_wth(gcm(True))], ["exit", dict(_wth(ex), exc=flav)]), "mode": mode, "rk": "coro"})
            ex2 = gcm(True, _frm([_wth(_plain(True))], ["exit", dict(_wth(gcm(True, _frm([_wth(gcm(False))]))), exc=flav)]))
            out.append({"root": _frm([], ["exit", dict(_wth(ex2), exc=flav)]), "mode": mode, "rk": "coro"})
            st = {"t": "stack", "a": True, "f": False,
                  "cbs": [{"k": "entera", "x": False, "m": gcm(True)}, {"k": "enter", "x": False, "m": gcm(False)}],
                  "cur": {"k": "entera", "x": False, "m": gcm(True, _frm([_wth(gcm(False))], ["deleg", _frm()]))}}
            out.append({"root": _frm([_wth(gcm(False))], ["exit", dict(_wth(st), exc=flav)]), "mode": mode, "rk": "coro"})
    for flav in ("except", "finally"):
        sx = gcm(False, _frm([_wth(gcm(False))], ["deleg", _frm([_wth(_plain(False))])]))
        out.append({"root": _frm([_wth(_plain(False))], ["exit", dict(_wth(sx), exc=flav)]), "mode": "run", "rk": "gen"})
    exs = gcm(False, _frm([_wth(gcm(False))], ["deleg", _frm([_wth(_plain(False))])]))
    out.append({"root": _frm([_wth(_plain(False))], ["exit", _wth(exs)]), "mode": "run", "rk": "gen"})
    out.append({"root": _frm([_wth(_plain(True))], ["exit", _wth(copy.deepcopy(exs))]), "mode": "run", "rk": "coro"})
    # push(manager) / push_async_exit(manager) of generator-based managers that were never entered, at several depths
    un = lambda a, f=False: {"t": "gen", "a": a, "f": f, "u": True, "body": _frm()}
    ust = {"t": "stack", "a": False, "f": False, "cbs": [{"k": "pushmgr", "x": False, "m": un(False)}, {"k": "enter", "x": False, "m": gcm(False)}]}
    out.append({"root": _frm([_wth(copy.deepcopy(ust))]), "mode": "susp", "rk": "gen"})
    out.append({"root": _frm([_wth({"t": "stack", "a": True, "f": False, "cbs": [
        {"k": "pushamgr", "x": False, "m": un(True)}, {"k": "pushmgr", "x": False, "m": un(False, True)},
        {"k": "entera", "x": False, "m": gcm(True)}, {"k": "enter", "x": False, "m": copy.deepcopy(ust)},
        {"k": "enter", "x": False, "m": gcm(False, _frm([_wth(copy.deepcopy(ust))]))}]})]), "mode": "susp", "rk": "coro"})
    # user functions that look like contextlib's _exit_wrapper closure, registered with push / push_async_exit
    looks = [{"k": "pushfn", "x": False, "m": None, "lk": lk} for lk in B.LOOKS]
    out.append({"root": _frm([_wth({"t": "stack", "a": False, "f": False, "cbs": copy.deepcopy(looks) + [{"k": "callback", "x": False, "m": None}]})]),
                "mode": "susp", "rk": "gen"})
    alooks = [{"k": "pushafn", "x": False, "m": None, "lk": lk} for lk in B.LOOKS]
    out.append({"root": _frm([_wth({"t": "stack", "a": True, "f": False,
                                    "cbs": looks + alooks + [{"k": "acallback", "x": False, "m": None}, {"k": "callback", "x": False, "m": None}]})]),
                "mode": "susp", "rk": "coro"})
    # exit stacks observed in the middle of their own exit; earlier registrations still pending
    def pending(a):
        leaf = lambda: gcm(False)
        wrapper = gcm(False, _frm([_wth(leaf())]))
        delegating = gcm(False, _frm([], ["deleg", _frm([_wth(leaf())])]))
        nested = {"t": "stack", "a": False, "f": False, "cbs": [{"k": "enter", "x": False, "m": gcm(False, _frm([_wth(leaf())]))},
                                                                 {"k": "callback", "x": False, "m": None}]}
        cbs = [{"k": "enter", "x": False, "m": leaf()}, {"k": "enter", "x": False, "m": wrapper},
               {"k": "enter", "x": False, "m": delegating}, {"k": "enter", "x": False, "m": nested},
               {"k": "pushmeth", "x": False, "m": gcm(False)}, {"k": "enter", "x": False, "m": _plain(False)}]
        if a:
            cbs += [{"k": "entera", "x": False, "m": gcm(True, _frm([_wth(_plain(True))]))}, {"k": "acallback", "x": False, "m": None}]
        return cbs
    for mode, a, cur in (("run", False, {"k": "callback", "x": False, "m": None}),
                         ("run", False, {"k": "enter", "x": False, "m": _plain(False)}),
                         ("run", False, {"k": "enter", "x": False, "m": gcm(False, _frm([_wth(gcm(False))]))}),
                         ("run", True, {"k": "pushfn", "x": False, "m": None}),
                         ("susp", True, {"k": "acallback", "x": False, "m": None}),
                         ("susp", True, {"k": "pushafn", "x": False, "m": None}),
                         ("susp", True, {"k": "entera", "x": False, "m": _plain(True)}),
                         ("susp", True, {"k": "entera", "x": False, "m": gcm(True, _frm([_wth(gcm(False))], ["deleg", _frm()]))})):
        st = {"t": "stack", "a": a, "f": False, "cbs": pending(a), "cur": cur}
        out.append({"root": _frm([_wth(gcm(False))], ["exit", _wth(st)]), "mode": mode, "rk": "coro" if a else "gen"})
    # exit stacks inside exit stacks inside generator-based managers
    deep = {"t": "stack", "a": True, "f": False, "cbs": [
        {"k": "enter", "x": False, "m": {"t": "stack", "a": False, "f": False, "cbs": [
            {"k": "callback", "x": False, "m": None},
            {"k": "enter", "x": False, "m": gcm(False, _frm([_wth({"t": "stack", "a": False, "f": False, "cbs": [
                {"k": "pushmeth", "x": False, "m": gcm(False)}]}, n=False)]))}]}},
        {"k": "entera", "x": False, "m": gcm(True, _frm([_wth(_plain(True))]))}]}
    out.append({"root": _frm([_wth(deep)]), "mode": "susp", "rk": "coro"})
    return out


def has_repr_site(x):
    """some exit stack holds a plain manager whose repr the glue needs (enter / push(manager) / bound method)"""
    if isinstance(x, dict):
        if x.get("t") == "stack":
            for c in x["cbs"]:
                if c["k"] in B.MGR_KINDS + B.METH_KINDS and c.get("m") and c["m"]["t"] == "plain":
                    return True
        return any(has_repr_site(v) for v in x.values())
    if isinstance(x, list):
        return any(has_repr_site(v) for v in x)
    return False


def hist_cases(rng, n):
    gcm = lambda a, body=None: {"t": "gen", "a": a, "f": False, "body": body or _frm()}
    # the shape of the seeded demo: gen-based child holding a nested stack, plain manager, function, callback
    inner = {"t": "stack", "a": False, "f": False, "cbs": [{"k": "callback", "x": False, "m": None}]}
    st = {"t": "stack", "a": False, "f": False, "cbs": [
        {"k": "enter", "x": False, "m": gcm(False, _frm([_wth(inner)]))},
        {"k": "enter", "x": False, "m": _plain(False)},
        {"k": "pushfn", "x": False, "m": None}, {"k": "callback", "x": False, "m": None}]}
    for mode, rk in (("susp", "gen"), ("susp", "coro"), ("run", "gen")):
        yield {"root": _frm([_wth(copy.deepcopy(st))]), "mode": mode, "rk": rk, "plan": "hist", "_kind": "hist"}
    # the failing child sits in a stack nested in a stack nested in a generator-based manager
    deep = {"t": "stack", "a": True, "f": False, "cbs": [
        {"k": "entera", "x": False, "m": gcm(True, _frm([_wth({"t": "stack", "a": False, "f": False, "cbs": [
            {"k": "enter", "x": False, "m": {"t": "stack", "a": False, "f": False, "cbs": [
                {"k": "enter", "x": False, "m": gcm(False)}, {"k": "pushmeth", "x": False, "m": _plain(False)}]}}]})]))},
        {"k": "enter", "x": False, "m": gcm(False)}]}
    yield {"root": _frm([_wth(deep)]), "mode": "susp", "rk": "coro", "plan": "hist", "_kind": "hist"}
    # frames with several with-blocks where an EARLIER one fails to unfold during the fault: the later ones must be whole
    failing = lambda: {"t": "stack", "a": False, "f": False, "cbs": [{"k": "callback", "x": False, "m": None},
                                                                      {"k": rng.choice(["enter", "pushmeth"]), "x": False, "m": _plain(False)}]}
    whole = [lambda: gcm(False, _frm([_wth(gcm(False))])),
             lambda: {"t": "stack", "a": False, "f": False, "cbs": [{"k": "enter", "x": False, "m": gcm(False)}, {"k": "pushfn", "x": False, "m": None}]},
             lambda: gcm(False, _frm([_wth(failing()), _wth(gcm(False)), _wth({"t": "stack", "a": False, "f": False, "cbs": [{"k": "callback", "x": False, "m": None}]})]))]
    for k in range(12):
        ws = [_wth(failing())] + [_wth(rng.choice(whole)(), n=rng.random() < 0.7) for _ in range(rng.choice([1, 2, 3]))]
        if k % 3 == 0:
            ws.insert(0, _wth(whole[k % len(whole)]()))
        mode, rk = [("susp", "gen"), ("susp", "coro"), ("run", "gen"), ("run", "coro")][k % 4]
        yield {"root": _frm(ws), "mode": mode, "rk": rk, "plan": "hist", "_kind": "hist"}
    got = 0
    while got < n:
        if rng.random() < 0.5:
            sync = rng.random() < 0.3
            d = seq_case([rng.choice(B.SYNC_KINDS if sync else B.KINDS) for _ in range(rng.choice([2, 3, 4]))], rng, sync_stack=sync)
        else:
            d = gen_tree_case(rng, rng.choice([2, 3, 4]))
        if has_repr_site(d):
            got += 1
            yield dict(d, plan="hist", _kind="hist")


def conc_cases(rng, n):
    """owner thread registers [late] while the extracting thread is describing child [signal]"""
    out = 0
    while out < n:
        k = rng.choice([1, 2, 3, 4])
        cbs = [gen_cb(rng, 2 if rng.random() < 0.5 else 0, False, weights=(3, 4, 2)) for _ in range(k)]
        sig = rng.randrange(k)
        cbs[sig] = {"k": rng.choice(["enter", "enter", "pushmgr", "pushmeth"]), "x": False, "m": _plain(False, rng.random() < 0.2)}
        late = gen_cb(rng, 2, False, weights=(3, 4, 2))
        st = {"t": "stack", "a": False, "f": False, "cbs": cbs, "late": late}
        ws = [_wth(st, n=rng.random() < 0.8)]
        if rng.random() < 0.3:
            ws.insert(0, _wth({"t": "gen", "a": False, "f": False, "body": _frm()}))
        out += 1
        yield {"root": _frm(ws), "mode": "susp", "rk": "fn", "plan": "conc", "signal": sig, "_kind": "conc"}


def make_inputs(tier, seed):
    rng = random.Random(seed * 7919 + 9)
    yield from f10_cases()
    yield from specials()
    yield from hist_cases(rng, 150 if tier == "quick" else 1500)
    yield from conc_cases(rng, 60 if tier == "quick" else 600)
    if tier == "thorough":
        for ks in all_sequences(4, B.KINDS):
            yield seq_case(ks, rng)
        for ks in all_sequences(4, B.SYNC_KINDS):
            yield seq_case(ks, rng, sync_stack=True)
        ntree = 15000
    else:
        for ks in all_sequences(2, B.KINDS):
            yield seq_case(ks, rng)
        for ks in all_sequences(2, B.SYNC_KINDS):
            yield seq_case(ks, rng, sync_stack=True)
        for _ in range(900):
            n = rng.choice([3, 4, 4])
            sync = rng.random() < 0.2
            yield seq_case([rng.choice(B.SYNC_KINDS if sync else B.KINDS) for _ in range(n)], rng, sync_stack=sync)
        ntree = 1000
    for i in range(ntree):
        yield gen_tree_case(rng, rng.choice([2, 3, 3, 4, 4]))


# ------------------------------------------------------------------------------ running
def run_case(desc):
    d = copy.deepcopy(desc)
    env = B.Env(d)
    if desc.get("plan") == "conc":
        env.run_thread()
        before = strip(d["root"])
        after = copy.deepcopy(before)
        _append_late(after)
        return {"tree": before, "tree_after": after, "outs": env.observations, "notes": env.notes,
                "signalled": env.signalled}
    env.run()
    obs = {"tree": strip(d["root"]), "out": env.abstracted, "notes": env.notes}
    if desc.get("plan") == "hist":
        obs["outs"] = env.observations
        obs["fault_reported"] = getattr(env, "fault_error", None)
        obs["faulted"] = env.faulted_abstracted
    return obs


def _append_late(x):
    if isinstance(x, dict):
        if x.get("t") == "stack" and x.get("late") is not None:
            x["cbs"] = x["cbs"] + [x.pop("late")]
        for v in x.values():
            _append_late(v)
    elif isinstance(x, list):
        for v in x:
            _append_late(v)


def strip(x):
    """annotated descriptor -> JSON (drops python objects)"""
    if isinstance(x, dict):
        return {k: strip(v) for k, v in x.items() if k not in ("_regs", "_cbs")}
    if isinstance(x, list):
        return [strip(v) for v in x]
    return x


# ------------------------------------------------------------------------------ Gallina
def c_av(av):
    return "(Build_avec %s %s)" % (" ".join(cbool(av[k]) for k in
                                            ("sync", "has_self", "is_method", "exitish", "wrapped", "wname", "isfun", "freevars", "truthy")),
                                   av["rel"])


def c_mgr(m, flt=False):
    """flt: print the plain managers as MFaulty (their __repr__ raised during that extraction)"""
    if m is None:
        return "MPlain"
    if m["t"] == "plain":
        return "MFaulty" if flt else "MPlain"
    if m["t"] == "gen":
        return "(MGen %s)" % c_frm(m["body"], flt)
    return "(MStack %s)" % clist([c_cb(c, flt) for c in m["cbs"]])


def c_kind(c):
    k = B.COQ_KIND[c["k"]]
    return k % c.get("lk", "LPlain") if "%s" in k else k


def c_cb(c, flt=False):
    m = c.get("m")
    return "(Cb %s %s %s %s %s %s %s)" % (c_kind(c), cbool(bool(m and m.get("f"))), cbool(c.get("x", False)),
                                          c_av(c["_av"]), cnat(c["_oself"]), cnat(c["_ocb"]), c_mgr(m, flt))


def c_wth(w, flt=False):
    return "(Wth %s %s %s %s)" % (cnat(w["m"]["_oid"]), cbool(w["a"]), cbool(w["n"]), c_mgr(w["m"], flt))


def c_frm(f, flt=False):
    t = f["tail"]
    if t[0] == "stop":
        tail = "TStop"
    elif t[0] == "deleg":
        tail = "(TDeleg %s)" % c_frm(t[1], flt)
    elif t[1]["m"]["t"] == "stack" and t[1]["m"].get("cur") is not None:
        tail = "(TExitS %s %s)" % (c_wth(t[1], flt), c_mgr(t[1]["m"]["cur"].get("m"), flt))
    else:
        tail = "(TExit %s)" % c_wth(t[1], flt)
    return "(Frm %s %s %s)" % (cnat(f["_id"]), clist([c_wth(w, flt) for w in f["ws"]]), tail)


def c_cout(c):
    i = c["info"]
    if i is None:
        info = "KTop"
    else:
        info = "(KChild %s %s %s %s %s %s %s)" % (i["sel"], i["root"], clist([cnat(p) for p in i["path"]]), cnat(i["idx"]),
                                                  cbool(i["aw"]), METH_TEXT.get(i["meth"], "MOtherMeth"), i["arg"])
    inner = "None" if c["inner"] is None else "(Some %s)" % clist([c_fout(f) for f in c["inner"]])
    return "(COut %s %s %s %s %s %s)" % (cnat(c["oid"]), cbool(c["a"]), cbool(c["e"]), inner,
                                         clist([c_cout(k) for k in c["kids"]]), info)


def c_fout(f):
    return "(FOut %s %s)" % (cnat(f["code"]), clist([c_cout(c) for c in f["cs"]]))


def coq_case(desc, obs):
    outs = lambda o: clist([c_fout(f) for f in o])
    if desc.get("_kind") == "hist":
        return "(Build_hist_case %s %s %s %s)" % (c_frm(obs["tree"]), clist([outs(o) for o in obs["outs"]]),
                                                  c_frm(obs["tree"], True), outs(obs["faulted"]))
    if desc.get("_kind") == "conc":
        return "(Build_conc_case %s %s %s %s)" % (c_frm(obs["tree"]), c_frm(obs["tree_after"]), outs(obs["outs"][0]), outs(obs["outs"][1]))
    return "(Build_es_case %s %s)" % (c_frm(obs["tree"]), clist([c_fout(f) for f in obs["out"]]))


# ------------------------------------------------------------------------------ reference (python side)
# The expected tree written from the property text alone: by registration KIND, never by looking at
# what contextlib stored.  strict=False folds the pairs contextlib makes indistinguishable (F10).
def _exp_meth(k, x, strict):
    table = dict(enter=("MEnter", False), pushmgr=("MPush", False), pushfn=("MPush", False), pushmeth=("MPush", False),
                 callback=("MCallback", False), entera=("MEnterA", True), pushamgr=("MPushA", False),
                 pushafn=("MPushA", False), pushameth=("MPushA", False), acallback=("MACallback", False))
    meth, aw = table[k]
    if not strict and (k in B.F10_KINDS or (k in B.METH_KINDS and x)):
        meth, aw = ("MEnterA", True) if k in B.KINDS[5:] else ("MEnter", False)
    return meth, aw


def exp_fails(m):
    """fault injection (every plain manager's repr raises): does the unfolding of this manager fail?
    An exit stack needs the repr of each registered manager / bound-method receiver; generator-based
    managers contain faults of their own frames, functions and callbacks need no repr."""
    if m is None or m["t"] != "stack":
        return False
    return any((c["k"] in B.MGR_KINDS or c["k"] in B.METH_KINDS) and (c["m"]["t"] == "plain" or exp_fails(c["m"]))
               for c in m["cbs"])


def exp_top(w, exiting, strict, flt):
    if flt and exp_fails(w["m"]):
        # contained: this with-block stays bare, its neighbours are unaffected
        return {"oid": w["m"]["_oid"], "a": w["a"], "e": exiting, "inner": None, "kids": [], "info": None}
    return exp_ctx(w["m"], w["m"]["_oid"], w["a"], exiting, "RName" if w["n"] else "RUnderscore", [], None, strict, flt)


def exp_series(f, strict, flt=False):
    cs = [exp_top(w, False, strict, flt) for w in f["ws"]]
    rest = []
    t = f["tail"]
    if t[0] == "exit":
        w = t[1]
        cs.append(exp_top(w, True, strict, flt))
        if w["m"]["t"] == "gen":
            rest = exp_series(w["m"]["body"], strict, flt)
        elif w["m"]["t"] == "stack" and w["m"].get("cur") is not None:
            # a stack in the middle of exiting: the popped callback's manager is what is exiting now
            cm = w["m"]["cur"].get("m")
            if cm is not None and cm["t"] == "gen":
                rest = exp_series(cm["body"], strict, flt)
    elif t[0] == "deleg":
        rest = exp_series(t[1], strict, flt)
    return [{"code": f["_id"], "cs": cs}] + rest


def exp_ctx(m, oid, a, exiting, root, path, info, strict, flt=False):
    d = {"oid": oid, "a": a, "e": exiting, "inner": None, "kids": [], "info": info}
    if m is not None and m["t"] == "gen" and not exiting:
        d["inner"] = exp_series(m["body"], strict, flt)
    if m is not None and m["t"] == "stack":
        for idx, c in enumerate(m["cbs"]):
            k = c["k"]
            is_a = k in B.KINDS[5:]
            meth, aw = _exp_meth(k, c.get("x"), strict)
            has_recv = k in B.MGR_KINDS or k in B.METH_KINDS
            tgt = c["m"] if has_recv else None
            if tgt is not None and tgt["t"] == "gen":
                arg = "AChildDesc"
            elif meth in ("MEnter", "MEnterA"):
                arg = "AReprSelf"
            elif k in ("callback", "acallback"):
                arg = "ACallArgs"
            else:
                arg = "AFuncname"
            ci = {"sel": "SelSelf" if has_recv else "SelCallback", "root": root, "path": path, "idx": idx, "aw": aw,
                  "meth": meth, "arg": arg}
            d["kids"].append(exp_ctx(tgt, c["m"]["_oid"] if has_recv else c["_ocb"], is_a, False, root, path + [idx], ci, strict, flt))
    return d


def diff(exp, obs, where="frames"):
    """first difference between two abstracted trees -> (path, expected, observed, field) | None"""
    if isinstance(exp, list):
        if not isinstance(obs, list) or len(exp) != len(obs):
            return (where, "%d entries" % len(exp), "%s entries" % (len(obs) if isinstance(obs, list) else obs), "len")
        for i, (e, o) in enumerate(zip(exp, obs)):
            r = diff(e, o, "%s[%d]" % (where, i))
            if r:
                return r
        return None
    if isinstance(exp, dict):
        if not isinstance(obs, dict):
            return (where, exp, obs, "shape")
        for k in exp:
            if k == "info" and exp[k] is not None and obs.get(k) is not None:
                for kk in ("meth", "aw", "sel", "root", "path", "idx", "arg"):
                    e, o = exp[k][kk], obs[k][kk]
                    if kk == "meth":
                        o = METH_TEXT.get(o, "MOtherMeth")
                    if e != o:
                        return ("%s.%s" % (where, kk), e, o, kk)
                continue
            r = diff(exp[k], obs.get(k), "%s.%s" % (where, k))
            if r:
                return r
        return None
    if exp != obs:
        return (where, exp, obs, where.rsplit(".", 1)[-1])
    return None


def direct_oracle(desc, obs):
    if obs.get("notes"):
        return "extraction anomalies: " + "; ".join(obs["notes"][:3])
    if desc.get("plan") == "hist":
        exp = exp_series(obs["tree"], False)
        for i, o in enumerate(obs["outs"]):
            r = diff(exp, o)
            if r:
                return ("extraction %d of the history (0 = before, 1.. = after an extraction that failed part-way) differs from "
                        "the property's tree at %s: expected %r, observed %r" % ((i,) + r[:3]))
        r = diff(exp_series(obs["tree"], False, True), obs["faulted"])
        if r:
            return ("the extraction during which some managers' repr failed: a with-block NOT hit by the fault is not unfolded as "
                    "the property says (or one that was hit is not left bare) at %s: expected %r, observed %r" % r[:3])
        return None
    if desc.get("plan") == "conc":
        e0, e1 = exp_series(obs["tree"], False), exp_series(obs["tree_after"], False)
        r0, r1 = diff(e0, obs["outs"][0]), diff(e1, obs["outs"][0])
        if r0 and r1:
            return ("extraction during a concurrent registration shows neither the callbacks registered before nor after it; "
                    "vs before at %s: expected %r, observed %r" % r0[:3])
        r = diff(e1, obs["outs"][1])
        if r:
            return "extraction after the concurrent registration differs at %s: expected %r, observed %r" % r[:3]
        return None
    strict = bool(desc.get("_sig"))
    r = diff(exp_series(obs["tree"], strict), obs["out"])
    if r:
        return "context tree differs from the property's tree at %s: expected %r, observed %r" % r[:3]
    return None


def classify(desc, obs):
    labs = ["mode:" + desc["mode"], "root:" + desc["rk"], "plan:" + desc.get("plan", "single")]
    if desc.get("plan") == "conc":
        labs.append("conc:signalled" if obs.get("signalled") else "conc:not-signalled")
        n0 = len([c for w in obs["tree"]["ws"] if w["m"]["t"] == "stack" for c in w["m"]["cbs"]])
        seen = [len(c["kids"]) for c in obs["outs"][0][0]["cs"] if c["kids"]] if obs["outs"][0] else []
        labs.append("conc:first-sees-%s" % ("n+1" if seen and seen[-1] == n0 + 1 else "n"))
    if desc.get("plan") == "hist":
        labs.append("hist:fault-reported=%s" % obs.get("fault_reported"))

    def walk_m(m, depth):
        if m is None:
            return depth
        if m["t"] == "gen":
            return walk_f(m["body"], depth + 1)
        if m["t"] == "stack":
            return max([depth + 1] + [walk_m(c.get("m"), depth + 1) for c in m["cbs"] + ([m["cur"]] if m.get("cur") else [])])
        return depth

    def walk_f(f, depth):
        ds = [walk_m(w["m"], depth) for w in f["ws"]] + [depth]
        t = f["tail"]
        if t[0] == "deleg":
            ds.append(walk_f(t[1], depth))
        elif t[0] == "exit":
            ds.append(walk_m(t[1]["m"], depth))
        return max(ds)

    labs.append("depth=%d" % min(walk_f(desc["root"], 0), 6))
    t = desc["root"]["tail"][0]
    if t == "exit" and desc["root"]["tail"][1]["m"]["t"] == "stack":
        t = "exit-stack(pending=%d)" % min(len(desc["root"]["tail"][1]["m"]["cbs"]), 4)
    labs.append("tail:" + t)
    if desc["root"]["tail"][0] == "exit":
        labs.append("exit-route:" + (desc["root"]["tail"][1].get("exc") or "normal"))
    ws = desc["root"]["ws"]
    if len(ws) == 1 and ws[0]["m"]["t"] == "stack":
        labs.append("stacklen=%d" % len(ws[0]["m"]["cbs"]))
    return labs


# ------------------------------------------------------------------------------ runtime legs
def extra_legs(tier, seed):
    """(1) F10 reproduced deliberately: the strict reference differs from the observation only in the
    method name / await tag of the indistinguishable registrations; anything else is a violation.
    (2) the modelled contextlib map, checked directly for every registration form and manager type."""
    viol, known, n = [], [], 0
    for desc in f10_cases():
        obs = run_case(desc)
        n += 1
        strict = diff(exp_series(obs["tree"], True), obs["out"])
        loose = diff(exp_series(obs["tree"], False), obs["out"])
        if loose or obs["notes"]:
            viol.append({"what": "F10 reproduction case differs from the property's tree beyond the known finding: %r %r" % (loose, obs["notes"]),
                         "input": {k: v for k, v in desc.items() if k != "_sig"}})
        elif strict and strict[3] in ("meth", "aw"):
            known.append(F10_SIG)
    return dict(evaluations=n, violations=viol, known_reproduced=sorted(set(known)),
                info={"f10_cases": n, "f10_reproduced": len(known)})
