"""Translator: facts about /repo's current source that the theorems depend on but that no
input/output comparison pins down reliably, re-extracted with `ast` on every run and written
to coq/gen/SrcFacts.v.  Fail-closed: a shape that is not recognised yields `false` / `0` /
an empty list, which makes the dependent `Theorem ... reflexivity` fail.

Only plain bool / nat / list literals are emitted, so SrcFacts.v depends on no model file.
"""
from __future__ import annotations

import ast
import json
import os

from .common import BUILD, COQ, REPO, cbool

_last = {}


def last_facts():
    return dict(_last)


# ------------------------------------------------------------------ ast helpers
def _parse(rel):
    with open(os.path.join(REPO, rel)) as fh:
        return ast.parse(fh.read())


def _find_def(tree, name, cls=None):
    for node in ast.walk(tree):
        if isinstance(node, (ast.FunctionDef, ast.AsyncFunctionDef, ast.ClassDef)) and node.name == name:
            return node
    return None


def _walk_with_parents(root):
    """yield (node, [ancestors outermost first, each as (parent, fieldname)])"""
    stack = [(root, [])]
    while stack:
        node, anc = stack.pop()
        yield node, anc
        for field, value in ast.iter_fields(node):
            if isinstance(value, list):
                for v in value:
                    if isinstance(v, ast.AST):
                        stack.append((v, anc + [(node, field)]))
            elif isinstance(value, ast.AST):
                stack.append((value, anc + [(node, field)]))


def _catches_exception(handler: ast.ExceptHandler) -> bool:
    t = handler.type
    if t is None:
        return True
    names = []
    if isinstance(t, ast.Tuple):
        names = [e.id for e in t.elts if isinstance(e, ast.Name)]
    elif isinstance(t, ast.Name):
        names = [t.id]
    return "Exception" in names or "BaseException" in names


def _has_call(nodes, pred) -> bool:
    for n in nodes:
        for x in ast.walk(n):
            if isinstance(x, ast.Call) and pred(x):
                return True
    return False


def _reraises(nodes) -> bool:
    for n in nodes:
        for x in ast.walk(n):
            if isinstance(x, ast.Raise):
                return True
    return False


def _is_name_call(call: ast.Call, name: str) -> bool:
    return isinstance(call.func, ast.Name) and call.func.id == name


def _is_attr_call(call: ast.Call, obj: str, attr: str) -> bool:
    f = call.func
    return (isinstance(f, ast.Attribute) and f.attr == attr and isinstance(f.value, ast.Name)
            and f.value.id == obj)


def _guarded_sites(func, is_site, handler_ok, expect=1) -> bool:
    """True iff exactly `expect` call sites match and every one sits in the body of a `try`
    with a handler for Exception that satisfies handler_ok and does not re-raise."""
    if func is None:
        return False
    n = 0
    for node, anc in _walk_with_parents(func):
        if isinstance(node, ast.Call) and is_site(node):
            n += 1
            ok = False
            for parent, field in reversed(anc):
                if isinstance(parent, (ast.FunctionDef, ast.AsyncFunctionDef, ast.Lambda)) and parent is not func:
                    break
                if isinstance(parent, ast.Try) and field == "body":
                    for h in parent.handlers:
                        if _catches_exception(h) and not _reraises(h.body) and handler_ok(h):
                            ok = True
                    if ok:
                        break
            if not ok:
                return False
    return n == expect


def _const_in_compare(func, varname, op_type):
    """the integer N of the unique `varname <op> N` comparison in func, else 0"""
    vals = []
    if func is None:
        return 0
    for x in ast.walk(func):
        if (isinstance(x, ast.Compare) and isinstance(x.left, ast.Name) and x.left.id == varname
                and len(x.ops) == 1 and isinstance(x.ops[0], op_type)
                and isinstance(x.comparators[0], ast.Constant) and isinstance(x.comparators[0].value, int)):
            vals.append(x.comparators[0].value)
    return vals[0] if len(vals) == 1 else 0


_MODULE_CONSTS = {}


def _module_int_consts(tree):
    """{NAME: n} for module-level `NAME = <int literal>` (also annotated) assigned exactly once"""
    key = id(tree)
    if key not in _MODULE_CONSTS:
        seen = {}
        for st in getattr(tree, "body", []):
            tgt = val = None
            if isinstance(st, ast.Assign) and len(st.targets) == 1 and isinstance(st.targets[0], ast.Name):
                tgt, val = st.targets[0].id, st.value
            elif isinstance(st, ast.AnnAssign) and isinstance(st.target, ast.Name) and st.value is not None:
                tgt, val = st.target.id, st.value
            if tgt is not None:
                seen.setdefault(tgt, []).append(val)
        # a name stored anywhere else (global statements, augmented assignment) disqualifies it
        stores = {}
        for x in ast.walk(tree):
            if isinstance(x, ast.Name) and isinstance(x.ctx, ast.Store):
                stores[x.id] = stores.get(x.id, 0) + 1
        _MODULE_CONSTS[key] = {k: v[0].value for k, v in seen.items()
                               if len(v) == 1 and stores.get(k, 0) == 1 and isinstance(v[0], ast.Constant)
                               and isinstance(v[0].value, int) and not isinstance(v[0].value, bool)}
    return _MODULE_CONSTS[key]


def _int_of(node, tree):
    """the integer a literal or a once-assigned module-level constant name stands for, else None"""
    if isinstance(node, ast.Constant) and isinstance(node.value, int) and not isinstance(node.value, bool):
        return node.value
    if isinstance(node, ast.Name) and tree is not None:
        return _module_int_consts(tree).get(node.id)
    return None


def _counter_guard_const(func, tree=None):
    """the integer N of the unique comparison `<name> > N` whose left side is a local that the
    function increments with `+= 1` (the no-progress counter), whatever it is called; else 0"""
    if func is None:
        return 0
    counters = set()
    for x in ast.walk(func):
        if (isinstance(x, ast.AugAssign) and isinstance(x.op, ast.Add) and isinstance(x.target, ast.Name)
                and isinstance(x.value, ast.Constant) and x.value.value == 1):
            counters.add(x.target.id)
    vals = []
    for x in ast.walk(func):
        if (isinstance(x, ast.Compare) and isinstance(x.left, ast.Name) and x.left.id in counters
                and len(x.ops) == 1 and isinstance(x.ops[0], ast.Gt)
                and _int_of(x.comparators[0], tree) is not None):
            vals.append(_int_of(x.comparators[0], tree))
    return vals[0] if len(vals) == 1 else 0


def _range_const_of_for(func, nth=0, tree=None):
    """N of the nth `for _ in range(N)` loop of func (document order), else 0; N a literal or a
    once-assigned module-level integer constant"""
    if func is None:
        return 0
    loops = []
    for x in ast.walk(func):
        if isinstance(x, ast.For) and isinstance(x.iter, ast.Call) and _is_name_call(x.iter, "range"):
            a = x.iter.args
            consts = [_int_of(y, tree) for y in a]
            if any(c is None for c in consts):
                continue
            # range(N), range(0, N), range(0, N, 1)
            if len(a) == 1:
                loops.append((x.lineno, consts[0], x))
            elif len(a) in (2, 3) and consts[0] == 0 and (len(a) == 2 or consts[2] == 1):
                loops.append((x.lineno, consts[1], x))
    loops.sort()
    return loops[nth][1] if len(loops) > nth else 0


# ------------------------------------------------------------------ the facts
def compute():
    facts = {}
    ex = _parse("stackscope/_extract.py")
    ei = _find_def(ex, "extract_iter")
    def appends(h):
        # the handler records the caught exception: `<some list>.append(<the exception variable>)`
        if h.name is None:
            return False
        return _has_call(h.body, lambda c: isinstance(c.func, ast.Attribute) and c.func.attr == "append"
                         and len(c.args) == 1 and isinstance(c.args[0], ast.Name) and c.args[0].id == h.name)
    facts["extract_g_unwrap"] = _guarded_sites(ei, lambda c: _is_name_call(c, "unwrap_stackitem"), appends)
    facts["extract_g_iter"] = _guarded_sites(
        ei, lambda c: _is_name_call(c, "next") and len(c.args) == 1 and isinstance(c.args[0], ast.Name), appends)
    facts["extract_g_ctx"] = _guarded_sites(ei, lambda c: _is_name_call(c, "contexts_active_in_frame"), appends)
    facts["extract_g_fill"] = _guarded_sites(ei, lambda c: _is_name_call(c, "fill_context"), appends)
    facts["extract_g_elab"] = _guarded_sites(ei, lambda c: _is_name_call(c, "elaborate_frame"), appends)
    facts["unwrap_guard"] = _counter_guard_const(ei, ex)
    # partial operations on the deques outside any try: popleft() must be dominated by a
    # truthiness test of the same deque (while/if) -- count unconditional ones
    fc = _find_def(ex, "fill_context")
    facts["context_guard"] = _range_const_of_for(fc, tree=ex)

    # ExtractOptions: thread-local storage, push restores in finally
    eo = _find_def(ex, "ExtractOptions")
    tl = False
    if eo is not None:
        for b in eo.bases:
            if isinstance(b, ast.Attribute) and b.attr == "local" and isinstance(b.value, ast.Name) and b.value.id == "threading":
                tl = True
    facts["options_thread_local"] = tl
    push = _find_def(eo, "push") if eo is not None else None
    fin = False
    if push is not None:
        for x in ast.walk(push):
            if isinstance(x, ast.Try) and x.finalbody and any(isinstance(y, (ast.Yield)) for b in x.body for y in ast.walk(b)):
                # finally must assign both options back from the saved tuple
                src = ast.dump(ast.Module(body=x.finalbody, type_ignores=[]))
                if "with_contexts" in src and "recurse_child_tasks" in src and "prev" in src:
                    fin = True
    facts["push_restores_in_finally"] = fin
    # extract / extract_outermost / fill_context use current_options.push
    def uses_push(fn):
        f = _find_def(ex, fn)
        return f is not None and any(
            isinstance(x, ast.With) and any(
                isinstance(i.context_expr, ast.Call) and isinstance(i.context_expr.func, ast.Attribute)
                and i.context_expr.func.attr == "push" for i in x.items)
            for x in ast.walk(f))
    facts["extract_pushes_options"] = uses_push("extract") and uses_push("extract_outermost") and uses_push("fill_context")

    # glue installation
    gl = _parse("stackscope/_glue.py")
    ag = _find_def(gl, "add_glue_as_needed")
    warns = lambda h: _has_call(h.body, lambda c: _is_attr_call(c, "warnings", "warn"))
    # locals that hold a glue function: assigned from a `.pop(...)` call, or from an expression over such
    # locals; every call of one of them must sit in a try/except Exception that warns
    glue_vars = set()
    if ag is not None:
        changed = True
        while changed:
            changed = False
            for x in ast.walk(ag):
                if isinstance(x, ast.Assign) and len(x.targets) == 1 and isinstance(x.targets[0], ast.Name):
                    v = x.targets[0].id
                    if v in glue_vars:
                        continue
                    from_pop = any(isinstance(y, ast.Call) and isinstance(y.func, ast.Attribute) and y.func.attr == "pop"
                                   for y in ast.walk(x.value))
                    from_var = any(isinstance(y, ast.Name) and y.id in glue_vars for y in ast.walk(x.value))
                    if from_pop or from_var:
                        glue_vars.add(v)
                        changed = True
    ncalls = sum(1 for x in ast.walk(ag) if isinstance(x, ast.Call) and isinstance(x.func, ast.Name)
                 and x.func.id in glue_vars) if ag is not None else 0
    facts["glue_call_guarded"] = bool(ncalls >= 1 and _guarded_sites(
        ag, lambda c: isinstance(c.func, ast.Name) and c.func.id in glue_vars, warns, expect=ncalls))
    facts["glue_under_lock"] = False
    if ag is not None:
        for x in ast.walk(ag):
            if isinstance(x, ast.With) and any(isinstance(i.context_expr, ast.Name) and i.context_expr.id == "glue_lock" for i in x.items):
                inner = ast.dump(ast.Module(body=x.body, type_ignores=[]))
                if "builtin_glue_pending" in inner and "_sys_modules_len_cache" in inner:
                    facts["glue_under_lock"] = True
    # both lookups remove the function before it is called (pop, not get)
    pops = 0
    if ag is not None:
        for x in ast.walk(ag):
            if isinstance(x, ast.Call) and isinstance(x.func, ast.Attribute) and x.func.attr == "pop":
                pops += 1
    facts["glue_pop_before_call"] = pops == 2

    # lowlevel: trickery failure guard, retry count
    ll = _parse("stackscope/_lowlevel.py")
    caf = _find_def(ll, "contexts_active_in_frame")
    facts["trickery_failure_guarded"] = _guarded_sites(
        caf, lambda c: _is_name_call(c, "_contexts_active_by_trickery"), warns)
    l311 = _parse("stackscope/_lowlevel_cpython_311.py")
    facts["snapshot_retries"] = _range_const_of_for(_find_def(l311, "inspect_frame"), tree=l311)

    # formatting markers (C18): (name, unicode literal, ascii literal) for every
    # `x = A if opts.ascii_only else U` assignment in _types.py
    ty = _parse("stackscope/_types.py")
    markers = []
    for x in ast.walk(ty):
        if (isinstance(x, ast.Assign) and len(x.targets) == 1 and isinstance(x.targets[0], ast.Name)
                and isinstance(x.value, ast.IfExp) and isinstance(x.value.body, ast.Constant)
                and isinstance(x.value.orelse, ast.Constant)
                and isinstance(x.value.test, ast.Attribute) and x.value.test.attr == "ascii_only"):
            markers.append((x.targets[0].id, x.value.orelse.value, x.value.body.value))
    facts["markers"] = sorted(markers)
    # per-property fact modules: harness/facts_*.py, each with compute() -> {name: bool|int}
    import glob
    import importlib
    here = os.path.dirname(os.path.abspath(__file__))
    for path in sorted(glob.glob(os.path.join(here, "facts_*.py"))):
        mod = importlib.import_module("harness." + os.path.basename(path)[:-3])
        try:
            extra = mod.compute()
        except Exception as ex:  # fail closed: the facts of that module are simply absent
            extra = {}
        for k, v in extra.items():
            assert k not in facts, k
            facts[k] = v
    return facts


def _marker_code(s: str):
    return [ord(ch) for ch in s]


def render(facts) -> str:
    out = ["(* GENERATED by harness/srcfacts.py from /repo on every run -- do not edit. *)",
           "From Coq Require Import List String NArith.", "Import ListNotations.", ""]
    for k, v in facts.items():
        if isinstance(v, bool):
            out.append(f"Definition {k} : bool := {cbool(v)}.")
        elif isinstance(v, int):
            out.append(f"Definition {k} : nat := {v}.")
    # markers as (name, unicode code points, ascii code points)
    ms = []
    for name, uni, asc in facts.get("markers", []):
        ms.append('("%s"%%string, [%s], [%s])' % (
            name, "; ".join("%d%%N" % c for c in _marker_code(uni)), "; ".join("%d%%N" % c for c in _marker_code(asc))))
    out.append("Definition markers : list (string * list N * list N) := [" + ";\n  ".join(ms) + "].")
    return "\n".join(out) + "\n"


def regenerate():
    global _last
    facts = compute()
    _last = facts
    text = render(facts)
    path = os.path.join(COQ, "gen", "SrcFacts.v")
    os.makedirs(os.path.dirname(path), exist_ok=True)
    old = open(path).read() if os.path.exists(path) else None
    if old != text:
        with open(path, "w") as fh:
            fh.write(text)
    os.makedirs(BUILD, exist_ok=True)
    with open(os.path.join(BUILD, "srcfacts.json"), "w") as fh:
        json.dump(facts, fh, indent=1, default=list)
    return facts


if __name__ == "__main__":
    print(json.dumps(regenerate(), indent=1, default=list))
