"""C15 -- greenlet stacks (suspended, current, dead, unstarted, running in another thread) and
greenback bridges.

Correspondence (kind main): real greenlet trees.  A 'susp' chain is run inside nested greenlets
and parked (its innermost greenlet switches back to the thread's main greenlet), then an 'asker'
chain -- itself possibly split into nested greenlets -- calls the real extract(g) from its
innermost frame for every greenlet g in sight: itself, each ancestor up to the thread's main
greenlet, every parked greenlet (asker = outside / sibling / child / descendant), a two-frame
sibling, a dead and a never-started greenlet, and three greenlets of another thread (running
there, suspended there, that thread's main greenlet).  The asker's world is abstracted as in C04
and Coq evaluates M_Greenlet.unwrap_greenlet on it.  Direct oracle: gr_frame / f_back walk.
Runtime leg: greenback await_ alternation depth 0..M inside a trio task, extracted from outside
the task and from inside it, against a shadow call log."""
from __future__ import annotations

import random
import sys
import threading

from .common import cbool, clist, copt
from . import c04 as _c04

PROP = "C15"
SHARD = 8
KINDS = {"main": dict(imports="From Coq Require Import ZArith String.\nFrom SS Require Import Base M_Slice M_Greenlet.",
                      type="glet_case", mismatch="gmismatches", nontrivial="gcount_nontrivial"),
         "ghist": dict(imports="From Coq Require Import ZArith String.\nFrom SS Require Import Base M_Slice M_Greenlet.",
                       type="ghist_case", mismatch="ghist_mismatches", nontrivial="ghist_nontrivial"),
         "gb": dict(imports="From SS Require Import Base M_Greenback.", type="gb_case",
                    mismatch="gb_mismatches", nontrivial="gb_nontrivial")}
RULE = ("parked greenlet chains (0..3 nested greenlets, call depth 1..3 in each) x asker chains (0..3 nested greenlets, "
        "plain/generator/coroutine/stackscope-named frames) x base {fresh thread, main thread}; per scenario every "
        "greenlet in sight is extracted from the asker's innermost frame (current, ancestors, parked = outside/sibling/"
        "child/descendant view, dead, unstarted, running / suspended in another thread, and the running MAIN greenlet of "
        "another thread). non-trivial = some query yields "
        ">= 2 frames or the other-thread error. kind gb: trio task with greenback alternation depth n = 0..3 (thorough 0..6), "
        "extract(task.coro) from outside the task and from inside it j = 0..2 (thorough 0..3) greenlets below its sync code; "
        "compared with M_Greenback.gb_extract in Coq and with the shadow call stack directly; also with every await_ given a "
        "non-coroutine awaitable (adapt_awaitable / __await__ frames), both hosts. kind ghist: ONE greenlet object inspected in "
        "2..4 rounds -- started by a C-level runner (list(map(cb,..)), sorted(key=cb), functools.reduce) or a Python entry "
        "function, callback at call depths 0..3, parked and extracted from its parent's loop frame (outside) or extracting "
        "itself (inside), driver in the main or a nested greenlet")
CONFIG = dict(
    coq=["C15"], level="proof",
    claim=("Coq theorems about the executable model of unwrap_greenlet composed with the C04 model of unwrap_stackslice "
           "(one theorem per lifecycle state; asker independence for suspended greenlets), tied to the code by differential "
           "comparison inside Coq on real greenlet trees from every asker position, plus a runtime differential leg for greenback."),
    design_ref="DESIGN.md section 5 C15",
    trusted_base=["models M_Greenlet.v / M_Slice.v are hand-written",
                  "harness/stackgen.py + c15.py abstract live greenlets to (gr_frame, bool, is-current, parent.gr_frame) and f_back chains"],
    assumptions=["a frame whose globals' __name__ starts with 'stackscope.' (and not 'stackscope._tests.') is taken for one of "
                 "stackscope's own by get_true_caller and skipped when locating the caller (modelled: M_Slice.is_mine; exercised "
                 "by the 'm' frames); a frame whose globals have no __name__ at all (exec with a bare namespace) is an ordinary "
                 "user frame (exercised by the 'n' frames and the exec'd greenback probe)",
                 "CPython; a greenlet's f_back chain ends at its run function (greenlet >= 1.0 behaviour)",
                 "the greenlet tree does not change during one extraction"],
    unproved_legs=["greenback: the frame shapes of greenback/greenlet/outcome/trio (what each object unwraps to, which frames "
                   "follow which) are modelled from recorded runs, not derived; agreement of M_Greenback.gb_extract with the real "
                   "extract(<task coroutine>) is checked by the correspondence kind 'gb' for n <= 3 / j <= 2 (thorough n <= 6 / j <= 3), "
                   "under trio and under asyncio, incl. every level resumed by throw() (task.cancel()+uncancel, asyncio.timeout)",
                   "greenback: the composition of the tabulated hooks with the general extract_iter model (M_Frames.extract) "
                   "is proved by a finite sweep for n <= 6, j <= 3, throw-resumed level <= 6, both hosts "
                   "(C15_greenback_composes_with_extract_iter), not for all n; "
                   "the for-all-n theorems C15_greenback_n_* are about the specialised walk gb_extract"],
    timeout={"quick": 900, "thorough": 3600},
    NOTES="CPython artifact seen while building the awaitable scenarios (not a stackscope defect): when throw() passes through an "
          "__await__ generator delegating (yield from) to a non-generator iterator, that generator's frame is not linked into "
          "f_back, so it is absent from the true stack and from extract(); those shapes are checked in extra_legs against the "
          "call stack minus that frame and are not part of M_Greenback. greenback: specialised model M_Greenback instead of an M_Frames hook table (M_Frames.elab does not see next_inner).",
)


SUSP = ["", "Gp", "Gpp", "GpGp", "GppGpp", "GpGpGp", "GpgGpc", "GpGppp"]
# kinds n (exec'd with a bare namespace: no __name__ in the globals), x / t / s (module names that merely
# look like stackscope's) and m (a name under "stackscope.": such frames count as stackscope's own and are
# skipped by get_true_caller) also as the frame that calls extract() and as intermediate frames
ASKER = ["p", "pp", "Gp", "pGp", "GpGp", "pGpGp", "GpGpGp", "gGpc", "Gm", "pGpm", "GpdGp", "cGpg", "pUp",
         "n", "Gn", "pGn", "GpGn", "GnGp", "Gnn", "nGpn", "Gx", "Gpt", "Gs", "GnGm", "Gnm"]


def make_inputs(tier, seed):
    rng = random.Random(seed * 7919 + 15)
    # histories: one greenlet object inspected at several moments (C-level runners: the outermost
    # Python frame of the greenlet changes between inspections)
    dseqs = [[0, 1, 0], [2, 0]] if tier == "quick" else [[0, 1, 0], [2, 0], [0, 0, 0, 0], [1, 3, 2]]
    for runner in ("cmap", "csorted", "creduce", "py"):
        for mode in ("outside", "inside"):
            for depths in dseqs:
                for nest in (0, 1):
                    if tier == "quick" and (nest + len(depths) + seed) % 2:
                        continue
                    yield dict(_kind="ghist", runner=runner, mode=mode, depths=depths, nest=nest, base="thread")
    nmax, jmax = (3, 2) if tier == "quick" else (6, 3)
    for n in range(nmax + 1):
        yield {"_kind": "gb", "inside": False, "n": n, "j": 0}
        for j in range(jmax + 1):
            yield {"_kind": "gb", "inside": True, "n": n, "j": j}
    # the frame calling extract() exec'd with a bare namespace (no __name__) / an unrelated module name
    for n in range(nmax + 1):
        for j in ([0, 1] if tier == "quick" else range(jmax + 1)):
            for ns in ("bare", "named"):
                if tier == "quick" and ns == "named" and (n + j + seed) % 2:
                    continue
                yield {"_kind": "gb", "host": ["trio", "asyncio"][(n + j) % 2], "inside": True, "n": n, "j": j, "ns": ns}
    # await_ given non-coroutine awaitables (greenback wraps them in adapt_awaitable), both hosts
    for n in range(1, nmax + 1):
        for host in ("trio", "asyncio"):
            yield {"_kind": "gb", "host": host, "awt": True, "inside": False, "n": n, "j": 0}
            for j in ([0, 1] if tier == "quick" else range(jmax + 1)):
                yield {"_kind": "gb", "host": host, "awt": True, "inside": True, "n": n, "j": j}
        # with a throw()-resumed level only at the top level n (its coroutine is awaited directly by the
        # task function): when throw() passes THROUGH an __await__ generator that delegates to a
        # non-generator iterator, CPython does not link that generator's frame into the frame chain
        # (gen_throw calls the delegate's throw() without resuming the generator), so the __await__
        # frame is really absent from f_back; those shapes are checked in extra_legs only
        for inside in (False, True):
            yield {"_kind": "gb", "host": "asyncio", "awt": True, "inside": inside, "n": n, "j": 0,
                   "err": n, "how": ["cancel", "timeout"][(n + seed) % 2]}
    # asyncio-hosted tasks; at level err the coroutine is resumed by throw() (cancellation caught and
    # uncancelled / asyncio.timeout expiring and handled) and then goes on down
    for n in range(nmax + 1):
        for err in [None] + list(range(n + 1)):
            hows = [None] if err is None else (["cancel", "timeout"] if (tier != "quick" or (n + err + seed) % 2 == 0)
                                                else [["cancel", "timeout"][(n + seed) % 2]])
            for how in hows:
                base = {"_kind": "gb", "host": "asyncio", "n": n, "err": err, "how": how}
                yield dict(base, inside=False, j=0)
                for j in ([0, 1] if tier == "quick" else range(jmax + 1)):
                    yield dict(base, inside=True, j=j)
    k = 0
    for s in SUSP:
        for a in ASKER:
            k += 1
            if tier == "quick" and (k + seed) % 2:
                continue
            yield dict(susp=s, asker=a, base="main" if k % 5 == 0 else "thread")
    n = 10 if tier == "quick" else 150
    for _ in range(n):
        def rnd(lo, hi, must_g):
            s = ""
            for j in range(rng.randint(lo, hi)):
                kd = rng.choice("pppgcmnx")
                g = "G" if (kd in "pmnx" and (rng.random() < 0.4 or (must_g and j == 0))) else ""
                if must_g and j == 0 and not g:
                    kd, g = "p", "G"
                s += g + kd
            return s
        yield dict(susp=rnd(0, 6, True) if rng.random() < 0.8 else "", asker=rnd(1, 6, False), base="thread")


LEAF_SUSP = "ctx.shadow.append(sys._getframe(0))\nctx.owner.parked.append(ctx.greenlet.getcurrent())\nctx.thread_main.switch()\n"


def _classes():
    from . import stackgen

    class BlockedG(stackgen.Blocked):
        """helper thread: main greenlet in b1, one greenlet parked in s1, one running b2 -> b3 -> acquire"""

        def b1(self):
            import greenlet
            self.frames.append(sys._getframe(0))
            self.g_main = greenlet.getcurrent()

            def s1():
                self.g_main.switch()
            self.g_susp = greenlet.greenlet(s1)
            self.g_susp.switch()
            self.g_run = greenlet.greenlet(self.b2)
            self.g_run.switch()
            self.g_susp.switch()

    class BlockedM(stackgen.Blocked):
        """a second helper thread that uses no greenlets of its own: it publishes ITS main greenlet
        (running there, parent None) and parks in a C call"""

        def b3(self):
            import greenlet
            self.g_main_running = greenlet.getcurrent()
            super().b3()

    class Sub:
        """ctx seen by the parked chain"""

        def __init__(self, owner, chain):
            self.owner = owner
            self.fns, self.sd, self.links = stackgen.build(chain, LEAF_SUSP)
            self.shadow = []
            self.greenlet = owner.greenlet
            self.thread_main = owner.greenlet.getcurrent()

        def new_greenlet(self, fn):
            g = self.greenlet.greenlet(fn)
            self.owner.susp_glets.append(g)
            return g

    class C(stackgen.Ctx):
        def __init__(self, desc):
            super().__init__(desc["asker"])
            self.desc = desc
            self.susp_glets = []
            self.parked = []
            self.asker_glets = []
            g = self.greenlet.greenlet

            def mk(fn):
                x = g(fn)
                self.asker_glets.append(x)
                return x
            self.new_greenlet = mk

        def run(self, base="thread"):
            orig = stackgen.Blocked
            stackgen.Blocked = BlockedG
            try:
                with BlockedM() as bm:
                    self.blocked_main = bm
                    return super().run(base)
            finally:
                stackgen.Blocked = orig

        def setup_foreign(self):
            super().setup_foreign()
            self.dead = self.greenlet.greenlet(lambda: None)
            self.dead.switch()
            self.unstarted = self.greenlet.greenlet(lambda: None)
            if self.desc.get("susp"):
                self.sub = Sub(self, self.desc["susp"])
                self.sub.fns[0](self.sub)

        def teardown_foreign(self):
            if self.parked:
                self.parked[-1].switch()
            super().teardown_foreign()

        def make_queries(self, n):
            ss = self.stackscope
            cur = self.greenlet.getcurrent()
            tg = [("cur", cur)]
            g, k = cur.parent, 1
            while g is not None:
                tg.append(("anc%d" % k, g))
                g, k = g.parent, k + 1
            tg += [("susp%d" % j, x) for j, x in enumerate(self.susp_glets)]
            tg += [("sib", self.sib), ("dead", self.dead), ("unstarted", self.unstarted)]
            b = self.blocked
            tg += [("t_running", b.g_run), ("t_susp", b.g_susp), ("t_main", b.g_main),
                   ("t_mainrunning", self.blocked_main.g_main_running)]
            tg += [(nm, x) for nm, x in self.extra_targets() if x is not cur]
            self.targets = tg
            # ids for chains hanging off gr_frame of targets that are not yet known
            nxt = 400
            for _, x in tg:
                fr = x.gr_frame
                if fr is not None and id(fr) not in self.ids:
                    ch = []
                    while fr is not None:
                        ch.append(fr)
                        fr = fr.f_back
                    for f in ch:
                        self.ids[id(f)] = nxt
                        nxt += 1
                    self.other_chains.append(ch)
            self.queries = [(ss.extract, (x,), {"with_contexts": False}, name) for name, x in tg]
            self.gdesc = []
            for name, x in tg:
                fr = x.gr_frame
                own = []
                while fr is not None:
                    own.append(self.ids[id(fr)])
                    fr = fr.f_back
                par = None
                if x.parent is not None:
                    pf = x.parent.gr_frame
                    par = [self.ids.get(id(pf), 3998) if pf is not None else None]
                self.gdesc.append(dict(name=name, frame=(own[0] if own else None), active=bool(x),
                                       current=x is cur, parent=par, own=own[::-1]))

        def extra_targets(self):
            return []

        def internal_chain(self):
            recs = sorted(set(self.records))
            if not recs:
                return []
            if len({a for _, a in recs}) > 1 or recs[0][1] != len(self.full) - 1:
                self.problems.append("get_true_caller calls do not hang off the calling frame: %r" % (recs[:3],))
            for ch, _ in recs:
                if ch and ch[0][0] == "unwrap_greenlet":
                    return list(ch)
            return list(recs[0][0])

        def encode(self, r):
            if isinstance(r, BaseException):
                return ["R", type(r).__name__]
            fr = [self.ids.get(id(f.pyframe), 3999) for f in r.frames]
            e = r.error
            if e is None:
                if r.leaf is not None:
                    return ["X", fr, "leaf"]
                return ["F", fr]
            if isinstance(e, RuntimeError) and "running in another thread" in str(e) and not fr:
                return ["T", fr]
            if isinstance(e, RuntimeError) and "Couldn't find where" in str(e):
                return ["E", fr]
            if isinstance(e, AssertionError):
                return ["A", fr]
            return ["X", fr, type(e).__name__]
    return C


def run_case(desc):
    if desc.get("_kind") == "gb":
        return gb_scenario(desc["inside"], desc["n"], desc["j"], host=desc.get("host", "trio"),
                           err=desc.get("err"), how=desc.get("how"), awt=bool(desc.get("awt")), ns=desc.get("ns"))
    if desc.get("_kind") == "ghist":
        return run_ghist(desc)
    c = _classes()(desc)
    c.run(desc["base"])
    return _obs15(c)


def _obs15(c):
    internal = c.internal_chain()
    cur = [(500 + k, m, sd) for k, (_, m, sd) in enumerate(internal)] + c.frame_names(c.segs[0])
    return {
        "cur": cur, "internal": [x[0] for x in internal],
        "parent_active": c.parent_active,
        "parents": [[c.ids[id(f)] for f in seg] for seg in c.segs[1:]],
        "threads": [[me, [c.ids[id(f)] for f in ch]] for me, ch in c.threads],
        "chains": [[c.ids[id(f)] for f in ch] for ch in c.other_chains],
        "n": len(c.full), "tc": c.tc,
        "own_cur": [c.ids[id(f)] for f in c.segs[0] if c.ids[id(f)] <= (c.tc if c.tc is not None else -1)][::-1],
        "glets": c.gdesc,
        "results": [c.encode(r) for r in c.results],
        "problems": c.problems,
    }


GHIST_SRC = {
    "outside": """def loop(ctx):
    while ctx.rounds_left():
        ctx.advance()
        ctx.prepare(sys._getframe(0))
        for q in ctx.queries:
            ctx.begin(q)
            try:
                r = q[0](*q[1], **q[2])
            except BaseException as e:
                r = e
            ctx.end(q, r)
        ctx.finish_round()
""",
    "inside": """def probe(ctx):
    ctx.prepare(sys._getframe(0))
    for q in ctx.queries:
        ctx.begin(q)
        try:
            r = q[0](*q[1], **q[2])
        except BaseException as e:
            r = e
        ctx.end(q, r)
    ctx.finish_round()
""",
}


def _rec(k, f):
    if k == 0:
        return f()
    return _rec(k - 1, f)


def run_ghist(desc):
    """The SAME greenlet object inspected at several moments.  The target greenlet runs a callback
    once per round at call depth depths[i] -- started either by a C-level runner (list(map(cb, ..)),
    sorted(key=cb), functools.reduce: its outermost Python frame is a different frame every round)
    or by a plain Python entry function.  mode outside: it parks in the callback and is extracted
    from its parent's loop frame; mode inside: the callback itself extracts (it is the current
    greenlet), together with every other greenlet in sight."""
    import functools
    C = _classes()

    class H(C):
        def __init__(self, desc):
            super().__init__(dict(desc, asker="p", susp=""))
            self.desc = desc
            self.rounds = []
            self.target = None
            glb = {"sys": sys, "__name__": "vuser.ghist"}
            exec(compile(GHIST_SRC[desc["mode"]], "<ghist:%s>" % desc["mode"], "exec"), glb)
            self.fn = glb["loop" if desc["mode"] == "outside" else "probe"]

        def extra_targets(self):
            return [("hist", self.target)] if self.target is not None else []

        def rounds_left(self):
            return len(self.rounds) < len(self.desc["depths"])

        def finish_round(self):
            self.rounds.append(_obs15(self))
            self.results, self.records = [], []

        def advance(self):
            self.target.switch()

        def make_target(self):
            g = self.greenlet
            depths = self.desc["depths"]
            if self.desc["mode"] == "outside":
                def action():
                    g.getcurrent().parent.switch()
            else:
                def action():
                    self.fn(self)

            def cb(i):
                return _rec(depths[i], action)
            k = len(depths)
            runner = self.desc["runner"]
            if runner == "cmap":
                run = functools.partial(list, map(cb, range(k)))
            elif runner == "csorted":
                run = functools.partial(sorted, range(k), key=lambda i: (cb(i), i)[1])
            elif runner == "creduce":
                run = functools.partial(functools.reduce, lambda acc, i: cb(i), range(k), None)
            else:
                def run():
                    for i in range(k):
                        cb(i)
            return g.greenlet(run)

        def body(self):
            self.target = self.make_target()
            if self.desc["mode"] == "outside":
                self.fn(self)
                self.target.switch()            # let it finish
            else:
                self.target.switch()

        def entry(self):
            self.setup_foreign()
            try:
                if self.desc["nest"]:
                    self.greenlet.greenlet(self.body).switch()
                else:
                    self.body()
            finally:
                self.teardown_foreign()
    h = H(desc)
    h.run(desc["base"])
    return {"rounds": h.rounds}


def _glet(g):
    par = "None" if g["parent"] is None else "(Some %s)" % copt(None if g["parent"][0] is None else str(g["parent"][0]))
    return "(Build_glet %s %s %s %s)" % (copt(None if g["frame"] is None else str(g["frame"])), cbool(g["active"]),
                                         cbool(g["current"]), par)


def _gres(r):
    fr = clist(str(x) for x in r[1]) if r[0] != "R" else ""
    if r[0] == "F":
        return "GEmpty" if not r[1] else "GSlice (SFrames %s)" % fr
    if r[0] == "T":
        return "GRaise"
    if r[0] == "E":
        return "GSlice (SError %s)" % fr
    if r[0] == "A" and not r[1]:
        return "GAssert"
    return "GSlice (SFrames [3999])"


def coq_case(desc, obs):
    if desc.get("_kind") == "gb":
        return gb_coq(desc, obs)
    if desc.get("_kind") == "ghist":
        return clist(_gcase(o) for o in obs["rounds"])
    return _gcase(obs)


def _gcase(obs):
    qs = clist("(%s, %s)" % (_glet(g), _gres(r)) for g, r in zip(obs["glets"], obs["results"]))
    return "(%s,\n %s)" % (_c04._world(obs), qs)


def direct_oracle(desc, obs):
    if desc.get("_kind") == "gb":
        msg = gb_oracle(desc, obs)
        return None if msg is None else "greenback task under %s%s, alternation depth %d, extracted from %s: %s" % (
            desc.get("host", "trio"),
            ("" if desc.get("err") is None else " (level %d resumed by throw(): %s)" % (desc["err"], desc["how"]))
            + (" (await_ given non-coroutine awaitables)" if desc.get("awt") else ""),
            desc["n"], ("inside, %d greenlet(s) below the task's sync code" % desc["j"]) if desc["inside"] else "outside", msg)
    if desc.get("_kind") == "ghist":
        for rnd, o in enumerate(obs["rounds"]):
            msg = _oracle15(o)
            if msg:
                return ("inspection %d of %d of the same greenlet (%s runner, from %s, callback at call depth %d): %s"
                        % (rnd + 1, len(obs["rounds"]), desc["runner"], desc["mode"], desc["depths"][rnd], msg))
        if len(obs["rounds"]) != len(desc["depths"]):
            return "history ended after %d of %d rounds" % (len(obs["rounds"]), len(desc["depths"]))
        return None
    return _oracle15(obs)


def _oracle15(obs):
    if obs["problems"]:
        return "harness self-check failed: " + "; ".join(obs["problems"])
    if obs["tc"] is None or obs["tc"] < (obs["cur"][-1][0] if obs["cur"] else 0):
        return None     # the asking greenlet has no frame that is not stackscope's own: outside the property
    for g, r in zip(obs["glets"], obs["results"]):
        if g["frame"] is not None:
            exp = ["F", g["own"]]            # suspended: entry function .. switch point, whoever asks
        elif not g["active"]:
            exp = ["F", []]                  # unstarted / dead
        elif not g["current"]:
            exp = ["T", []]                  # running in another thread (a child greenlet there or that thread's
                                             # main greenlet): the documented error, not some other stack
        else:
            exp = ["F", obs["own_cur"]]      # the caller's own portion of the running stack
        if r != exp:
            return "extract(<greenlet %s>) returned %r, expected %r" % (g["name"], r, exp)
    return None


def classify(desc, obs):
    if desc.get("_kind") == "gb":
        return ["greenback:%s" % ("inside-j%d" % desc["j"] if desc["inside"] else "outside"), "greenback:n=%d" % desc["n"],
                "greenback:" + desc.get("host", "trio"), "greenback:awaitable=%s" % bool(desc.get("awt")),
                "greenback:caller-globals=%s" % (desc.get("ns") or "module"),
                "greenback:throw-" + ("none" if desc.get("err") is None else
                                      ("top" if desc["err"] == desc["n"] else "leaf" if desc["err"] == 0 else "middle")),
                "greenback:Error.send=%d" % sum(1 for _, _, k in obs["frames"] if k == "Error.send")]
    if desc.get("_kind") == "ghist":
        return ["ghist:" + desc["runner"], "ghist:" + desc["mode"], "ghist:rounds=%d" % len(obs["rounds"])]
    labs = ["asker-segments=%d" % (1 + len(obs["parents"])), "base:" + desc["base"],
            "parked=%d" % sum(1 for g in obs["glets"] if g["name"].startswith("susp"))]
    for g, r in zip(obs["glets"], obs["results"]):
        labs.append("%s:%s" % (g["name"].rstrip("0123456789"), r[0]))
    return labs


# ------------------------------------------------------------------ greenback
USER = ("target", "a_level", "s_level", "s_leaf", "nested", "probe", "__await__")
IGNORED_VISIBLE = ("probe_call",)       # the plain frame through which the exec'd probe is called
BRIDGE = ("await_", "_greenback_shim", "trampoline", "switch", "send")
ALLOWED_VISIBLE = ("greenback_shim", "wait", "adapt_awaitable")


def _frames_of(st):
    out = []
    for f in st.frames:
        code = f.pyframe.f_code
        kind = code.co_name
        if kind == "send":
            kind = getattr(code, "co_qualname", "send")      # Value.send / Error.send
        out.append([code.co_name, bool(f.hide), kind])
    return out


def gb_scenario(inside, n, j, portal=True, host="trio", err=None, how=None, awt=False, ns=None):
    """A task alternating n times between async code (a_level k) and sync code (s_level k)
    through greenback.await_, hosted by trio or asyncio.  Its stack is extracted (extract(<task
    coroutine>)) either from another task while it is parked at level 0 (outside), or from its own
    innermost sync code, j greenlets below it (inside; j = 0: directly).  With err = m (asyncio
    only) the coroutine of level m first waits under a timeout / gets cancelled, handles that --
    i.e. it is resumed by coro.throw() -- and then goes on down without another await of its own.
    With awt every await_ is given a non-coroutine awaitable (an object whose __await__ is a
    generator delegating to the coroutine); greenback wraps it in adapt_awaitable().
    Returns the frames (name, hidden, kind), the error and the shadow call stack at that moment."""
    import greenback
    import greenlet
    import stackscope
    aio = host == "asyncio"
    if aio:
        import asyncio
    else:
        import trio

    box = {}
    shadow = []

    def the_coro():
        return box["task"].get_coro() if aio else box["task"].coro

    def probe():
        shadow.append("probe")
        try:
            box["shadow"] = list(shadow)
            box["stack"] = stackscope.extract(the_coro(), with_contexts=False)
        finally:
            shadow.pop()

    if ns is not None:
        # the frame that calls extract() runs code exec'd with a caller-supplied namespace:
        # "bare" = no __name__ in its globals at all, "named" = some unrelated module name
        glb = {} if ns == "bare" else {"__name__": "vuser.execd"}
        exec(compile("def probe(box, shadow, extract, the_coro):\n"
                     "    shadow.append('probe')\n"
                     "    try:\n"
                     "        box['shadow'] = list(shadow)\n"
                     "        box['stack'] = extract(the_coro(), with_contexts=False)\n"
                     "    finally:\n"
                     "        shadow.pop()\n", "<gb-probe>", "exec"), glb)
        bare_probe = glb["probe"]

        def probe():        # noqa: F811  (a plain frame above the exec'd one; named 'probe_call' in the log)
            return bare_probe(box, shadow, stackscope.extract, the_coro)
        probe.__code__ = probe.__code__.replace(co_name="probe_call")

    def nested(k):
        shadow.append("nested")
        try:
            if k == 0:
                return probe()
            return greenlet.greenlet(nested).switch(k - 1)
        finally:
            shadow.pop()

    def s_leaf():
        shadow.append("s_leaf")
        try:
            nested(j)
        finally:
            shadow.pop()

    async def handle_error():
        if how == "timeout":
            try:
                async with asyncio.timeout(0.001):
                    await asyncio.sleep(3600)
            except TimeoutError:
                pass
        else:
            task = asyncio.current_task()
            asyncio.get_running_loop().call_soon(task.cancel)
            try:
                await asyncio.sleep(3600)
            except asyncio.CancelledError:
                task.uncancel()

    async def a_level(k):
        shadow.append("a_level")
        try:
            if aio and k == err:
                await handle_error()
            elif k > 0 or not inside:
                if aio:
                    await asyncio.sleep(0)
                else:
                    await trio.lowlevel.checkpoint()
            if k == 0:
                if inside:
                    s_leaf()
                else:
                    box["parked"].set()
                    await box["go"].wait()
                return
            s_level(k)
        finally:
            shadow.pop()

    class Deferred:
        def __init__(self, coro):
            self.coro = coro

        def __await__(self):
            shadow.append("__await__")
            try:
                return (yield from self.coro.__await__())
            finally:
                shadow.pop()

    def s_level(k):
        shadow.append("s_level")
        try:
            greenback.await_(Deferred(a_level(k - 1)) if awt else a_level(k - 1))
        finally:
            shadow.pop()

    async def target():
        shadow.append("target")
        try:
            box["task"] = asyncio.current_task() if aio else trio.lowlevel.current_task()
            if portal:
                await greenback.ensure_portal()
            await a_level(n)
        finally:
            shadow.pop()

    if aio:
        async def main():
            box["parked"], box["go"] = asyncio.Event(), asyncio.Event()
            t = asyncio.create_task(target())
            if not inside:
                await box["parked"].wait()
                box["shadow"] = list(shadow)
                box["stack"] = stackscope.extract(the_coro(), with_contexts=False)
                box["go"].set()
            await t
        asyncio.run(main())
    else:
        async def main():
            box["parked"], box["go"] = trio.Event(), trio.Event()
            async with trio.open_nursery() as nur:
                nur.start_soon(target)
                if not inside:
                    await box["parked"].wait()
                    box["shadow"] = list(shadow)
                    box["stack"] = stackscope.extract(the_coro(), with_contexts=False)
                    box["go"].set()
        trio.run(main)
    st = box["stack"]
    return {"frames": _frames_of(st),
            "error": None if st.error is None else repr(st.error)[:200],
            "leaf": None if st.leaf is None else repr(st.leaf)[:80],
            "shadow": box["shadow"]}


def gb_oracle(desc, obs, unlinked_await=None):
    """unlinked_await = k: the k-th __await__ of the shadow stack is expected to be absent (see
    extra_legs).  property text: frames continue through every bridge (= the shadow call stack), the caller's
    own frames are present, bridging internals hidden, no error"""
    if obs["error"] is not None:
        return "error %s" % obs["error"]
    vis = [nm for nm, hid, _ in obs["frames"] if not hid and nm not in IGNORED_VISIBLE]
    user = [nm for nm in vis if nm in USER]
    if unlinked_await is not None:
        idx = [i for i, nm in enumerate(obs["shadow"]) if nm == "__await__"][unlinked_await]
        obs = dict(obs, shadow=obs["shadow"][:idx] + obs["shadow"][idx + 1:])
    if user != obs["shadow"]:
        return "user frames %r, the call stack at that moment is %r" % (user, obs["shadow"])
    bad = [nm for nm in vis if nm in BRIDGE]
    if bad:
        return "bridging frames visible: %r" % bad
    other = [nm for nm in vis if nm not in USER and nm not in ALLOWED_VISIBLE]
    if other:
        return "unexpected visible frames %r" % other
    if desc["inside"] and (not vis or vis[-1] != "probe"):
        return "the caller's own frames are missing: innermost visible frame %r" % (vis[-1:] or None)
    if any(nm.startswith("extract") or nm.startswith("unwrap_") for nm, _, _ in obs["frames"]):
        return "stackscope's own frames in the result"
    if desc.get("awt") and vis.count("adapt_awaitable") != desc["n"]:
        return "%d adapt_awaitable frames for %d awaitables handed to await_" % (vis.count("adapt_awaitable"), desc["n"])
    if desc["n"] and not any(nm == "await_" and hid for nm, hid, _ in obs["frames"]):
        return "no hidden await_ frame although n=%d" % desc["n"]
    return None


_GBK = {"greenback_shim": "FShimCoro", "_greenback_shim": "FShim", "trampoline": "FTramp",
        "Value.send": "FSend", "Error.send": "FSendE", "adapt_awaitable": "FAdapt", "__await__": "FDunder",
        "target": "FTarget", "s_leaf": "FLeaf", "nested": "FNested", "probe": "FProbe", "wait": "FWait",
        "wait_task_rescheduled": "FWTR", "switch": "FSwitch"}
_GBL = {"a_level": "FA", "s_level": "FS", "await_": "FAwait"}


def gb_coq(desc, obs):
    cnt = {}
    ents = []
    for nm, hid, kind in obs["frames"]:
        if nm in IGNORED_VISIBLE and not hid:
            continue
        nm = kind if nm == "send" else nm
        if nm in _GBL:
            i = cnt.get(nm, 0)
            cnt[nm] = i + 1
            lvl = desc["n"] - i
            ents.append("(%s %d, %s)" % (_GBL[nm], lvl if lvl >= 0 else 99, cbool(hid)))
        elif nm in _GBK:
            ents.append("(%s, %s)" % (_GBK[nm], cbool(hid)))
        else:
            ents.append("(FSwitch, false)")          # unknown frame: never produced by the model
    res = ("GErr %s" if obs["error"] is not None else "GOk %s") % clist(ents)
    err = desc.get("err")
    return "(Build_scenario %s %d %d %s %s %s, %s)" % (cbool(desc["inside"]), desc["n"], desc["j"],
                                                       copt(None if err is None else str(err)),
                                                       cbool(desc.get("host") == "asyncio"),
                                                       cbool(bool(desc.get("awt"))), res)


def extra_legs(tier, seed):
    """greenback without a portal at alternation depth 0 (no bridge at all): plain coroutine stack"""
    viol, n = [], 0
    for inside in (True, False):
        for j in (0, 1):
            d = {"inside": inside, "n": 0, "j": j}
            obs = gb_scenario(inside, 0, j, portal=False)
            n += 1
            msg = gb_oracle(d, obs)
            if msg:
                viol.append({"what": "no-portal task, %r: %s" % (d, msg), "input": d, "observed": obs})
    # non-coroutine awaitables with a level below the top resumed by throw(): the __await__ generator
    # the exception passed through is not in the frame chain (CPython), everything else must be there
    m = 0
    for depth in ((1, 2) if tier == "quick" else (1, 2, 3)):
        for err in range(depth):
            for inside in (False, True):
                d = {"inside": inside, "n": depth, "j": 0, "host": "asyncio", "awt": True, "err": err,
                     "how": ["cancel", "timeout"][(depth + err) % 2]}
                obs = gb_scenario(inside, depth, 0, host="asyncio", err=err, how=d["how"], awt=True)
                m += 1
                # (from outside with err = 0 the level-0 coroutine is suspended again: its chain is walked
                #  through cr_await / gi_yieldfrom, where the generator is present)
                msg = gb_oracle(dict(d, awt=False), obs,
                                unlinked_await=(depth - err - 1) if (inside or err >= 1) else None)
                if msg:
                    viol.append({"what": "awaitables + throw() below the top level, %r: %s" % (d, msg), "input": d,
                                 "observed": obs})
    return dict(evaluations=n + m, violations=viol,
                info={"no_portal_runs": n, "awaitable_throw_through_runs": m}, known_reproduced=[])
