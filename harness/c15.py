"""C15 -- greenlet stacks (suspended, current, dead, unstarted, running in another thread) and
greenback bridges.

Correspondence (kind main): real greenlet trees.  A 'susp' chain is run inside nested greenlets
and parked (its innermost greenlet switches back to the thread's main greenlet), then an 'asker'
chain -- itself possibly split into nested greenlets -- calls the real extract(g) from its
innermost frame for every greenlet g in sight: itself, each ancestor up to the thread's main
greenlet, every parked greenlet (asker = outside / sibling / child / descendant), a two-frame
sibling, a dead and a never-started greenlet, and three greenlets of another thread (running
there, suspended there, that thread's main greenlet).  The asker's world is abstracted as in C04
and Coq evaluates M_Greenlet.unwrap_greenlet on it.  Direct oracle: gr_frame / f_back walk.
Runtime leg: greenback await_ alternation depth 0..M inside a trio task, extracted from outside
the task and from inside it, against a shadow call log."""
from __future__ import annotations

import random
import sys
import threading

from .common import cbool, clist, copt
from . import c04 as _c04

PROP = "C15"
SHARD = 8
KINDS = {"main": dict(imports="From Coq Require Import ZArith String.\nFrom SS Require Import Base M_Slice M_Greenlet.",
                      type="glet_case", mismatch="gmismatches", nontrivial="gcount_nontrivial")}
RULE = ("parked greenlet chains (0..3 nested greenlets, call depth 1..3 in each) x asker chains (0..3 nested greenlets, "
        "plain/generator/coroutine/stackscope-named frames) x base {fresh thread, main thread}; per scenario every "
        "greenlet in sight is extracted from the asker's innermost frame (current, ancestors, parked = outside/sibling/"
        "child/descendant view, dead, unstarted, running / suspended in another thread). non-trivial = some query yields "
        ">= 2 frames or the other-thread error. greenback leg: alternation depth 0..3 (thorough 0..5), outside and inside")
CONFIG = dict(
    coq=["C15"], level="proof",
    claim=("Coq theorems about the executable model of unwrap_greenlet composed with the C04 model of unwrap_stackslice "
           "(one theorem per lifecycle state; asker independence for suspended greenlets), tied to the code by differential "
           "comparison inside Coq on real greenlet trees from every asker position, plus a runtime differential leg for greenback."),
    design_ref="DESIGN.md section 5 C15",
    trusted_base=["models M_Greenlet.v / M_Slice.v are hand-written",
                  "harness/stackgen.py + c15.py abstract live greenlets to (gr_frame, bool, is-current, parent.gr_frame) and f_back chains"],
    assumptions=["CPython; a greenlet's f_back chain ends at its run function (greenlet >= 1.0 behaviour)",
                 "the greenlet tree does not change during one extraction"],
    unproved_legs=["greenback in Coq: greenback bridges (elaborate_trampoline / elaborate_greenback_shim / elaborate_greenback_await): no Coq model; "
                   "C15_greenback_n of the design is replaced by the runtime differential leg (alternation depth 0..M, outside and "
                   "inside the task, shadow call log oracle, bridging frames hidden)",
                   "C15_suspended for an ancestor of the asker is proved under the hypothesis that the ancestor's chain is one of "
                   "the parent chains of the asker's world (true by construction of the world)"],
    timeout={"quick": 900, "thorough": 3600},
    NOTES="greenback part is runtime-only (time budget); lifecycle part follows the design.",
)


SUSP = ["", "Gp", "Gpp", "GpGp", "GppGpp", "GpGpGp", "GpgGpc", "GpGppp"]
ASKER = ["p", "pp", "Gp", "pGp", "GpGp", "pGpGp", "GpGpGp", "gGpc", "Gm", "pGpm", "GpdGp", "cGpg", "pUp"]


def make_inputs(tier, seed):
    rng = random.Random(seed * 7919 + 15)
    k = 0
    for s in SUSP:
        for a in ASKER:
            k += 1
            if tier == "quick" and (k + seed) % 2:
                continue
            yield dict(susp=s, asker=a, base="main" if k % 5 == 0 else "thread")
    n = 10 if tier == "quick" else 150
    for _ in range(n):
        def rnd(lo, hi, must_g):
            s = ""
            for j in range(rng.randint(lo, hi)):
                kd = rng.choice("pppgcm")
                g = "G" if (kd in "pm" and (rng.random() < 0.4 or (must_g and j == 0))) else ""
                if must_g and j == 0 and not g:
                    kd, g = "p", "G"
                s += g + kd
            return s
        yield dict(susp=rnd(0, 6, True) if rng.random() < 0.8 else "", asker=rnd(1, 6, False), base="thread")


LEAF_SUSP = "ctx.shadow.append(sys._getframe(0))\nctx.owner.parked.append(ctx.greenlet.getcurrent())\nctx.thread_main.switch()\n"


def _classes():
    from . import stackgen

    class BlockedG(stackgen.Blocked):
        """helper thread: main greenlet in b1, one greenlet parked in s1, one running b2 -> b3 -> acquire"""

        def b1(self):
            import greenlet
            self.frames.append(sys._getframe(0))
            self.g_main = greenlet.getcurrent()

            def s1():
                self.g_main.switch()
            self.g_susp = greenlet.greenlet(s1)
            self.g_susp.switch()
            self.g_run = greenlet.greenlet(self.b2)
            self.g_run.switch()
            self.g_susp.switch()

    class Sub:
        """ctx seen by the parked chain"""

        def __init__(self, owner, chain):
            self.owner = owner
            self.fns, self.sd, self.links = stackgen.build(chain, LEAF_SUSP)
            self.shadow = []
            self.greenlet = owner.greenlet
            self.thread_main = owner.greenlet.getcurrent()

        def new_greenlet(self, fn):
            g = self.greenlet.greenlet(fn)
            self.owner.susp_glets.append(g)
            return g

    class C(stackgen.Ctx):
        def __init__(self, desc):
            super().__init__(desc["asker"])
            self.desc = desc
            self.susp_glets = []
            self.parked = []
            self.asker_glets = []
            g = self.greenlet.greenlet

            def mk(fn):
                x = g(fn)
                self.asker_glets.append(x)
                return x
            self.new_greenlet = mk

        def run(self, base="thread"):
            orig = stackgen.Blocked
            stackgen.Blocked = BlockedG
            try:
                return super().run(base)
            finally:
                stackgen.Blocked = orig

        def setup_foreign(self):
            super().setup_foreign()
            self.dead = self.greenlet.greenlet(lambda: None)
            self.dead.switch()
            self.unstarted = self.greenlet.greenlet(lambda: None)
            if self.desc["susp"]:
                self.sub = Sub(self, self.desc["susp"])
                self.sub.fns[0](self.sub)

        def teardown_foreign(self):
            if self.parked:
                self.parked[-1].switch()
            super().teardown_foreign()

        def make_queries(self, n):
            ss = self.stackscope
            cur = self.greenlet.getcurrent()
            tg = [("cur", cur)]
            g, k = cur.parent, 1
            while g is not None:
                tg.append(("anc%d" % k, g))
                g, k = g.parent, k + 1
            tg += [("susp%d" % j, x) for j, x in enumerate(self.susp_glets)]
            tg += [("sib", self.sib), ("dead", self.dead), ("unstarted", self.unstarted)]
            b = self.blocked
            tg += [("t_running", b.g_run), ("t_susp", b.g_susp), ("t_main", b.g_main)]
            self.targets = tg
            # ids for chains hanging off gr_frame of targets that are not yet known
            nxt = 400
            for _, x in tg:
                fr = x.gr_frame
                if fr is not None and id(fr) not in self.ids:
                    ch = []
                    while fr is not None:
                        ch.append(fr)
                        fr = fr.f_back
                    for f in ch:
                        self.ids[id(f)] = nxt
                        nxt += 1
                    self.other_chains.append(ch)
            self.queries = [(ss.extract, (x,), {"with_contexts": False}, name) for name, x in tg]
            self.gdesc = []
            for name, x in tg:
                fr = x.gr_frame
                own = []
                while fr is not None:
                    own.append(self.ids[id(fr)])
                    fr = fr.f_back
                par = None
                if x.parent is not None:
                    pf = x.parent.gr_frame
                    par = [self.ids.get(id(pf), 3998) if pf is not None else None]
                self.gdesc.append(dict(name=name, frame=(own[0] if own else None), active=bool(x),
                                       current=x is cur, parent=par, own=own[::-1]))

        def internal_chain(self):
            recs = sorted(set(self.records))
            if not recs:
                return []
            if len({a for _, a in recs}) > 1 or recs[0][1] != len(self.full) - 1:
                self.problems.append("get_true_caller calls do not hang off the calling frame: %r" % (recs[:3],))
            for ch, _ in recs:
                if ch and ch[0][0] == "unwrap_greenlet":
                    return list(ch)
            return list(recs[0][0])

        def encode(self, r):
            if isinstance(r, BaseException):
                return ["R", type(r).__name__]
            fr = [self.ids.get(id(f.pyframe), 3999) for f in r.frames]
            e = r.error
            if e is None:
                if r.leaf is not None:
                    return ["X", fr, "leaf"]
                return ["F", fr]
            if isinstance(e, RuntimeError) and "running in another thread" in str(e) and not fr:
                return ["T", fr]
            if isinstance(e, RuntimeError) and "Couldn't find where" in str(e):
                return ["E", fr]
            if isinstance(e, AssertionError):
                return ["A", fr]
            return ["X", fr, type(e).__name__]
    return C


def run_case(desc):
    c = _classes()(desc)
    c.run(desc["base"])
    internal = c.internal_chain()
    cur = [(500 + k, m, sd) for k, (_, m, sd) in enumerate(internal)] + c.frame_names(c.segs[0])
    return {
        "cur": cur, "internal": [x[0] for x in internal],
        "parent_active": c.parent_active,
        "parents": [[c.ids[id(f)] for f in seg] for seg in c.segs[1:]],
        "threads": [[me, [c.ids[id(f)] for f in ch]] for me, ch in c.threads],
        "chains": [[c.ids[id(f)] for f in ch] for ch in c.other_chains],
        "n": len(c.full), "tc": c.tc,
        "own_cur": [c.ids[id(f)] for f in c.segs[0] if c.ids[id(f)] <= (c.tc if c.tc is not None else -1)][::-1],
        "glets": c.gdesc,
        "results": [c.encode(r) for r in c.results],
        "problems": c.problems,
    }


def _glet(g):
    par = "None" if g["parent"] is None else "(Some %s)" % copt(None if g["parent"][0] is None else str(g["parent"][0]))
    return "(Build_glet %s %s %s %s)" % (copt(None if g["frame"] is None else str(g["frame"])), cbool(g["active"]),
                                         cbool(g["current"]), par)


def _gres(r):
    fr = clist(str(x) for x in r[1]) if r[0] != "R" else ""
    if r[0] == "F":
        return "GEmpty" if not r[1] else "GSlice (SFrames %s)" % fr
    if r[0] == "T":
        return "GRaise"
    if r[0] == "E":
        return "GSlice (SError %s)" % fr
    if r[0] == "A" and not r[1]:
        return "GAssert"
    return "GSlice (SFrames [3999])"


def coq_case(desc, obs):
    qs = clist("(%s, %s)" % (_glet(g), _gres(r)) for g, r in zip(obs["glets"], obs["results"]))
    return "(%s,\n %s)" % (_c04._world(obs), qs)


def direct_oracle(desc, obs):
    if obs["problems"]:
        return "harness self-check failed: " + "; ".join(obs["problems"])
    if obs["tc"] is None or obs["tc"] < (obs["cur"][-1][0] if obs["cur"] else 0):
        return None     # the asking greenlet has no frame that is not stackscope's own: outside the property
    for g, r in zip(obs["glets"], obs["results"]):
        if g["frame"] is not None:
            exp = ["F", g["own"]]            # suspended: entry function .. switch point, whoever asks
        elif not g["active"]:
            exp = ["F", []]                  # unstarted / dead
        elif not g["current"]:
            exp = ["T", []]                  # running in another thread: an error, not some other stack
        else:
            exp = ["F", obs["own_cur"]]      # the caller's own portion of the running stack
        if r != exp:
            return "extract(<greenlet %s>) returned %r, expected %r" % (g["name"], r, exp)
    return None


def classify(desc, obs):
    labs = ["asker-segments=%d" % (1 + len(obs["parents"])), "base:" + desc["base"],
            "parked=%d" % sum(1 for g in obs["glets"] if g["name"].startswith("susp"))]
    for g, r in zip(obs["glets"], obs["results"]):
        labs.append("%s:%s" % (g["name"].rstrip("0123456789"), r[0]))
    return labs


# ------------------------------------------------------------------ greenback runtime leg
def _greenback_leg(depth_max):
    """sync/async alternation through greenback.await_ inside a trio task; the stack of the task is
    extracted from outside (another task, target parked) and from inside (innermost frame)."""
    import greenback
    import trio
    import stackscope

    viol, n = [], 0

    def names(stack):
        return [(f.pyframe.f_code.co_name, bool(f.hide)) for f in stack.frames]

    for depth in range(depth_max + 1):
        for where in ("inside", "outside"):
            log = []
            box = {}

            async def a_level(k):
                log.append("a%d" % k)
                if k == 0:
                    if where == "inside":
                        box["stack"] = stackscope.extract(box["task"].coro, with_contexts=False)
                    else:
                        box["parked"].set()
                        await box["go"].wait()
                    return
                await trio.lowlevel.checkpoint()
                s_level(k)

            def s_level(k):
                log.append("s%d" % k)
                greenback.await_(a_level(k - 1))

            async def target():
                box["task"] = trio.lowlevel.current_task()
                if depth:
                    await greenback.ensure_portal()
                await a_level(depth)

            async def main():
                box["parked"], box["go"] = trio.Event(), trio.Event()
                async with trio.open_nursery() as nur:
                    nur.start_soon(target)
                    if where == "outside":
                        await box["parked"].wait()
                        box["stack"] = stackscope.extract(box["task"].coro, with_contexts=False)
                        box["go"].set()
            trio.run(main)
            n += 1
            st = box["stack"]
            got = names(st)
            vis = [nm for nm, hid in got if not hid]
            user = [nm for nm in vis if nm in ("a_level", "s_level", "target")]
            exp = ["target"]
            for k in range(depth, -1, -1):
                exp.append("a_level")
                if k:
                    exp.append("s_level")
            bridge = {"await_", "_greenback_shim", "trampoline", "switch", "adapt_awaitable"}
            bad = None
            if st.error is not None:
                bad = "error %r" % (st.error,)
            elif user != exp:
                bad = "user frames %r, call log says %r" % (user, exp)
            elif any(nm in bridge for nm in vis):
                bad = "bridging frame visible: %r" % ([nm for nm in vis if nm in bridge],)
            elif depth and not any(nm == "await_" and hid for nm, hid in got):
                bad = "no hidden await_ frame although depth=%d" % depth
            elif where == "inside" and any(nm.startswith("extract") or nm == "unwrap_stackslice" for nm, _ in got):
                bad = "stackscope's own frames in the result"
            if bad:
                viol.append({"what": "greenback alternation depth %d extracted from %s: %s" % (depth, where, bad),
                             "input": {"depth": depth, "where": where, "frames": got}})
    return n, viol


def extra_legs(tier, seed):
    n, viol = _greenback_leg(3 if tier == "quick" else 5)
    return dict(evaluations=n, violations=viol, info={"greenback_alternation_runs": n}, known_reproduced=[])
