"""Source facts for C17 (glue installation), re-extracted from stackscope/_extract.py with `ast`.
Fail-closed: an unrecognised shape yields False.

  c17_scan_at_every_entry   every public extraction entry point starts with a scan for new glue:
      * `extract_iter` (the generator every entry point drives) calls `add_glue_as_needed()`
        (as `_glue.add_glue_as_needed()` or a bare name) in a top-level expression statement of its
        body that precedes the first statement containing a `yield`, and is not nested in any
        conditional / loop / try;
      * `extract_child` and `extract_outermost` call `extract_iter(...)`; `extract` calls
        `extract_child(...)` or `extract_iter(...)`; `extract_since` and `extract_until` call
        `extract(...)`.
  This is the hypothesis behind the thread model of M_Glue (an extraction = a thread step from
  PIdle into the installation routine) and hence behind C17_timely: "every extraction starts with
  a scan".  Names of locals and the rest of the bodies do not matter.
"""
from __future__ import annotations

import ast
import os

from .common import REPO


def _calls(node, name, via=None):
    for x in ast.walk(node):
        if isinstance(x, ast.Call):
            f = x.func
            if isinstance(f, ast.Name) and f.id == name:
                return True
            if via and isinstance(f, ast.Attribute) and f.attr == name and isinstance(f.value, ast.Name) and f.value.id == via:
                return True
    return False


def _has_yield(node):
    return any(isinstance(x, (ast.Yield, ast.YieldFrom)) for x in ast.walk(node))


def compute():
    try:
        with open(os.path.join(REPO, "stackscope", "_extract.py")) as fh:
            tree = ast.parse(fh.read())
    except Exception:
        return {"c17_scan_at_every_entry": False}
    fns = {n.name: n for n in tree.body if isinstance(n, ast.FunctionDef)}
    ok = all(k in fns for k in ("extract_iter", "extract", "extract_child", "extract_outermost", "extract_since", "extract_until"))
    if ok:
        scan_first = False
        for stmt in fns["extract_iter"].body:
            if _has_yield(stmt):
                break
            if isinstance(stmt, ast.Expr) and isinstance(stmt.value, ast.Call) and _calls(stmt, "add_glue_as_needed", via="_glue"):
                scan_first = True
                break
        ok = (scan_first
              and _calls(fns["extract_child"], "extract_iter") and _calls(fns["extract_outermost"], "extract_iter")
              and (_calls(fns["extract"], "extract_child") or _calls(fns["extract"], "extract_iter"))
              and _calls(fns["extract_since"], "extract") and _calls(fns["extract_until"], "extract"))
    return {"c17_scan_at_every_entry": bool(ok)}
