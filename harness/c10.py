"""C10 — frame hooks: unwrap to a fixpoint; elaborate_frame edits only the inward rest.
Correspondence: synthetic item classes / frames with hooks registered through the public API
(unwrap_stackitem.register, elaborate_frame.register, yields_frames); real extract() vs the Coq
model M_Frames.extract, compared inside Coq (frames, hide flags, origins, leaf, ordered errors)."""
import itertools
import random

from . import frames_gen as G

PROP = "C10"
# One Eval per cases file checks, for every case: implementation = model (ecase_ok), implementation =
# reference interpretation (ref_case_ok), and the generator's claim "this table is rank-ordered below n and
# its explicit fuel bound is within the model's default fuel" (rank_claim_ok), which is the hypothesis of
# C10_model_eq_ref_total / C10_fuel_sufficient.
KINDS = {"main": dict(imports="From SS Require Import Base M_Frames M_FramesRef.", type="rcase",
                      mismatch="mismatches3", nontrivial="count_nontrivial3")}
RULE = ("rank-ordered (acyclic) random unwrap/elaborate tables over 5 objects x 5 frames (sparse) and densely connected nested tables "
        "rooted at object 0 over 3-4 objects x 5-7 frames (frames at several depths; hooks that prune/replace/insert frames that edit again), result alphabets "
        "{None, item, tuple, list (None entries), iterator (yielding None first / in between / last / several, +raise), raise, empty} x {None, PRUNE, replace, insert-before, single item, raise}, "
        "plus linear chains around the 100-step guard and a self-loop; thorough adds the exhaustive small scope "
        "(3 objects x 2 frames). distinct = distinct descriptors; non-trivial = model run yields >= 2 frames, a leaf or an error")
SHARD = 250
CONFIG = dict(
    coq=["C10"], level="proof",
    claim=("Coq theorems (all hook tables, all roots, all fuel values) that the executable model of extract_iter "
           "(M_Frames.run/extract, the functions the cases evaluate) returns exactly the result of an independent, "
           "deterministic big-step reference interpretation of the documented unwrap/elaborate rules (M_FramesRef.Ref: "
           "None / item / sequence / iterator unwrapping with the 100-step progress guard; keep / PRUNE / replace / "
           "insert-before with depth bookkeeping; leaf rule), plus per-rule theorems (prune removes exactly the maximal "
           "following run with depth >= d, replace, insert, all-None = flattening, raising iterator keeps its prefix, "
           "guard for the regenerated constant). Tied to the code by differential comparison evaluated inside Coq on "
           "generated hook tables run through the real extract(): each case is compared with BOTH the model and the "
           "executable reference (ref_run, proved sound for Ref)."),
    design_ref="DESIGN.md section 5 C10",
    trusted_base=["model M_Frames.v (extract_iter) is hand-written; hook behaviour is abstracted to finite stateless tables",
                  "reference interpretation M_FramesRef.v is the formal reading of the hook documentation (incl. the min-depth rule "
                  "for next_inner in the insert form, /repo commit 448262b)"],
    assumptions=["hook results are tuples/lists/FrameIterators of frames and objects; hooks are deterministic",
                 "unwrap tables are rank-ordered (acyclic) apart from the linear self-loop (a branching cyclic unwrap does not terminate and is outside 'item trees')",
                 "every generated table that is rank-ordered carries the claim `ranked n` + `fuel_bound <= default_fuel`, re-checked inside Coq (rank_claim_ok); "
                 "frames may share a code object (frame kind samecode / second generator instance gen2): they share one elaborate_frame row",
                 "theorem domain `plain`: no injected faults, with_contexts=False, the three hook call sites guarded (guards regenerated from source: C10_guards_regenerated)"],
    unproved_legs=["C10_prefix_local of the design is not stated separately (it follows from C10_frame_rule: the continuation depends only on the edited sequence)",
                   "fuel sufficiency (C10_fuel_sufficient / C10_model_eq_ref_total) needs `ranked n c root`: tables with a non-final next_inner, the guard "
                   "chains/self-loop and generator objects are outside it (for those C10_model_eq_ref keeps the side condition extract <> OutOfFuel; the guard chain "
                   "has its own C10_guard_any_fuel)",
                   "contexts / faults / origins are outside these theorems (C05, C16)"],
    NOTES=("Deviation from DESIGN: the reference re-unwraps the re-queued rest after a replace/insert (as the code does: a leaf whose hook raises "
           "reports its error again, an item stopped by the guard may unwrap further), so model=reference holds without side conditions; "
           "insert form: next_inner's depth becomes min(d, own) per /repo 448262b instead of 'untouched'."),
)


def specials():
    out = [G.chain_case(n) for n in (1, 2, 99, 100, 101, 102)]
    out += [G.chain_case(n, self_loop=True) for n in (1, 5)]
    # insert inside insert, then prune from the inserted frame (finding F7), insert on innermost (F6)
    base = {"nf": 5, "no": 3, "frames": {str(i): ["plain"] for i in range(5)}, "attr": {}, "ctxs": {}, "fill": {},
            "faults": [], "with_ctx": False, "mode": "extract"}
    out.append(dict(base, root=["O", 0], unwrap={"0": ["seq", [["F", 0], ["F", 2], ["F", 3]], "tuple"]},
                    elab={"0": ["seq", [["I", ["F", 1]], ["N"]], False], "2": ["seq", [], False]}))
    out.append(dict(base, root=["O", 0], unwrap={"0": ["seq", [["F", 0], ["O", 1]], "list"], "1": ["seq", [["F", 2], ["F", 3]], "tuple"]},
                    elab={"0": ["seq", [["I", ["F", 1]], ["N"]], True], "1": ["seq", [["I", ["F", 4]], ["N"]], False],
                          "2": ["seq", [], False]}))
    out.append(dict(base, root=["F", 0], unwrap={}, elab={"0": ["seq", [["I", ["F", 1]], ["N"]], False]}))
    out.append(dict(base, root=["F", 0], unwrap={}, elab={"0": ["seq", [["N"], ["I", ["F", 1]]], False]}))
    out.append(dict(base, root=["O", 0], unwrap={"0": ["seq", [["F", 0], ["O", 1], ["F", 1]], "tuple"]},
                    elab={"0": ["one", ["I", ["O", 1]], False]}))
    # insert before a next_inner that is further OUT than the inserting frame (keeps its depth: its PRUNE
    # still reaches its callee F3) ...
    out.append(dict(base, root=["O", 0], unwrap={"0": ["seq", [["O", 1], ["F", 2], ["F", 3]], "tuple"], "1": ["seq", [["F", 0]], "list"]},
                    elab={"0": ["seq", [["I", ["F", 1]], ["N"]], False], "2": ["seq", [], False]}))
    # ... and before one nested more deeply (brought out to the inserter's depth: a PRUNE from within the
    # inserted object's frames must not remove it)
    out.append(dict(base, root=["O", 0], unwrap={"0": ["seq", [["F", 0], ["O", 1]], "tuple"], "1": ["seq", [["F", 3], ["F", 4]], "list"],
                                                 "2": ["seq", [["F", 1], ["F", 2]], "tuple"]},
                    elab={"0": ["seq", [["I", ["O", 2]], ["N"]], False], "2": ["seq", [], False]}))
    # an inserted frame's own PRUNE removes next_inner at the same depth; replacement items sit at the frame's depth
    out.append(dict(base, root=["O", 0], unwrap={"0": ["seq", [["F", 0], ["F", 2]], "tuple"]},
                    elab={"0": ["seq", [["I", ["F", 1]], ["N"]], False], "1": ["seq", [], False]}))
    out.append(dict(base, root=["O", 0], unwrap={"0": ["seq", [["F", 0], ["F", 3], ["F", 4]], "tuple"]},
                    elab={"0": ["seq", [["I", ["F", 1]], ["I", ["F", 2]]], False], "1": ["seq", [], False]}))
    # last item equal to (all synthetic objects compare equal) but not identical with next_inner: replace, not insert
    out.append(dict(base, root=["O", 0], unwrap={"0": ["seq", [["F", 0], ["O", 1], ["F", 1]], "tuple"]},
                    elab={"0": ["seq", [["I", ["F", 2]], ["I", ["O", 2]]], False]}))
    # hook rows installed through customize(): every flag combination x {no elaborate=, None, PRUNE/()/[], replace,
    # insert, single item, raise} on a frame that has a callee and a leaf behind it
    f4 = dict(base, nf=4, no=2, frames={str(i): ["plain"] for i in range(4)}, root=["O", 0],
              unwrap={"0": ["seq", [["F", 0], ["F", 1], ["O", 1]], "tuple"], "1": ["none"]})
    rows = [["none", None, True], ["one", ["Z"], False], ["seq", [], False, "tuple"], ["seq", [], True, "list"],
            ["seq", [["I", ["F", 2]]], False], ["seq", [["I", ["F", 2]], ["N"]], True], ["one", ["I", ["F", 3]], False],
            ["raise", None, True], ["seq", [["N"]], False], ["one", ["N"], False]]
    k = 0
    for row in rows:
        for hide in (False, True):
            for hl in (False, True):
                for prune in (False, True):
                    if row[0] == "one" and row[1][0] == "N" and prune:
                        continue
                    k += 1
                    out.append(dict(f4, elab={"0": row}, cust={"0": {"hide": hide, "hide_line": hl, "prune": prune,
                                                                     "form": "decorator" if k % 2 else "target"}}))
    # the bare next_inner / (next_inner,) / [next_inner] is the same as None: everything inward stays
    for row in (["one", ["N"], False], ["seq", [["N"]], False, "tuple"], ["seq", [["N"]], True, "list"]):
        out.append(dict(f4, elab={"0": row}))
        out.append(dict(f4, elab={"1": row}))
        out.append(dict(f4, unwrap={"0": ["seq", [["F", 0], ["O", 1]], "tuple"], "1": ["seq", [["F", 1], ["F", 2], ["F", 3]], "list"]},
                        elab={"0": row, "1": row}))
    # a @yields_frames iterator may yield None (an absent link) at any position: skipped like a None entry of a
    # returned sequence, everything after it is kept; also when the iterator raises afterwards
    f3 = dict(base, nf=3, no=3, frames={str(i): ["plain"] for i in range(3)}, root=["O", 0], elab={})
    for items in ([None, ["F", 0], ["F", 1], ["F", 2]], [["F", 0], None, ["F", 1], ["F", 2]], [["F", 0], ["F", 1], None, ["O", 1]],
                  [None, None, ["F", 0], None, ["F", 1], None], [None], [None, None], [["F", 0], None], [None, ["O", 1]]):
        for raises in (False, True):
            out.append(dict(f3, unwrap={"0": ["iter", items, raises], "1": ["none"]}))
            out.append(dict(f3, unwrap={"0": ["seq", [["O", 2], ["F", 2]], "tuple"], "2": ["iter", items, raises], "1": ["none"]}))
    # where the progress counter is reset (frame / irreducible item) and where it is not (empty results)
    out += [G.chain_mid_case(60, 60, mid, end) for mid in ("frame", "leaf") for end in ("frame", "leaf")]
    out += [G.chain_mid_case(99, 99, "frame", "leaf"), G.chain_mid_case(50, 101, "leaf", "frame")]
    out += [G.empties_case(n) for n in (98, 99, 100, 101, 105)]
    return out


# iter_none: iterator results that yield None (first / in the middle).  Off by default: c05 reuses exhaustive()
# with injected faults, where every yielded None would cost a next() tick that the abstraction does not count.
ALPH_U = lambda o, no, nf, iter_none=False: (
    [["none"], ["raise"], ["seq", [], "tuple"]]
    + [["one", it] for it in _items(o, no, nf)]
    + [["seq", [a, b], "list"] for a in _items(o, no, nf) for b in _items(o, no, nf)]
    + [["iter", [a], r] for a in _items(o, no, nf) for r in (False, True)]
    + ([["iter", [None, a], False] for a in _items(o, no, nf)] if iter_none else [])
    + ([["iter", [a, None, b], True] for a in _items(o, no, nf) for b in _items(o, no, nf)] if iter_none and o == 0 else []))
ALPH_E = lambda f, no, nf: (
    [["none", None, True], ["seq", [], False], ["raise", None, True], ["seq", [["N"]], False]]
    + [["seq", [["I", a]], False] for a in _items(f, no, nf)]
    + [["seq", [["I", a], ["N"]], False] for a in _items(f, no, nf)]
    + [["one", ["I", a], False] for a in _items(f, no, nf)])


def _items(lo, no, nf):
    return [["O", i] for i in range(lo + 1, no)] + [["F", i] for i in range(lo + 1, nf)]


def exhaustive(no=3, nf=2, stride=1, offset=0, iter_none=False):
    us = [ALPH_U(o, no, nf, iter_none) for o in range(no)]
    es = [ALPH_E(f, no, nf) for f in range(nf)]
    n = 0
    for combo in itertools.product(*us, *es):
        n += 1
        if (n + offset) % stride:
            continue
        yield {"nf": nf, "no": no, "frames": {str(i): ["plain"] for i in range(nf)},
               "unwrap": {str(o): combo[o] for o in range(no)},
               "elab": {str(f): combo[no + f] for f in range(nf)},
               "attr": {}, "ctxs": {}, "fill": {}, "faults": [], "with_ctx": False, "root": ["O", 0], "mode": "extract"}


def exhaustive_samecode(no=3, stride=1, offset=0):
    """2 frames that are two live frames of ONE function: a single hook row serves both."""
    us = [ALPH_U(o, no, 2, True) for o in range(no)]
    n = 0
    for combo in itertools.product(*us, ALPH_E(1, no, 2)):
        n += 1
        if (n + offset) % stride:
            continue
        yield {"nf": 2, "no": no, "frames": {"0": ["plain"], "1": ["samecode", 0]},
               "unwrap": {str(o): combo[o] for o in range(no)}, "elab": {"0": combo[no]},
               "attr": {}, "ctxs": {}, "fill": {}, "faults": [], "with_ctx": False, "root": ["O", 0], "mode": "extract"}


def exhaustive_customize(stride=1, offset=0):
    """2 objects x 2 frames, frame 0's row installed through customize() with all 8 flag combinations."""
    us = [ALPH_U(o, 2, 2, True) for o in range(2)]
    rows0 = ALPH_E(0, 2, 2) + [["one", ["Z"], False], ["one", ["N"], False]]
    n = 0
    for combo in itertools.product(*us, rows0, ALPH_E(1, 2, 2)):
        for flags in itertools.product((False, True), repeat=3):
            if combo[2][0] == "one" and combo[2][1][0] == "N" and flags[2]:
                continue
            n += 1
            if (n + offset) % stride:
                continue
            yield {"nf": 2, "no": 2, "frames": {"0": ["plain"], "1": ["plain"]},
                   "unwrap": {"0": combo[0], "1": combo[1]}, "elab": {"0": combo[2], "1": combo[3]},
                   "cust": {"0": {"hide": flags[0], "hide_line": flags[1], "prune": flags[2],
                                  "form": "decorator" if n % 2 else "target"}},
                   "attr": {}, "ctxs": {}, "fill": {}, "faults": [], "with_ctx": False, "root": ["O", 0], "mode": "extract"}


def make_inputs(tier, seed):
    rng = random.Random(seed * 7919 + 10)
    yield from specials()
    n = 1500 if tier == "quick" else 12000
    for _ in range(n):
        yield G.gen_case(rng, nf=5, no=5, iter_none=True, customize=True)
    for _ in range(n // 5):
        yield G.gen_case(rng, nf=3, no=8, iter_none=True, customize=True)
    rng2 = random.Random(seed * 7919 + 11)
    for _ in range(n):
        yield G.gen_dense(rng2, nf=rng2.choice([5, 7]), no=rng2.choice([3, 4]))
    # real generator objects (frames that share a code object: two instances of one generator function)
    rng3 = random.Random(seed * 7919 + 12)
    made = 0
    while made < n // 5:
        d = G.gen_case(rng3, nf=5, no=5, gens=True, weird=False, gen2=True, iter_none=True, customize=True)
        if G.acyclic(d):
            made += 1
            yield d
            # also rooted at every generator object (the items below it are reached under its origin)
            for o, sp in d["unwrap"].items():
                if sp[0] == "gen" and ["O", int(o)] != d["root"]:
                    yield dict(d, root=["O", int(o)])
    if tier == "thorough":
        yield from exhaustive(3, 2, iter_none=True)
        yield from exhaustive_samecode(3)
        yield from exhaustive_customize()
    else:
        yield from exhaustive(3, 2, stride=97, offset=seed, iter_none=True)
        yield from exhaustive_samecode(3, stride=11, offset=seed)
        yield from exhaustive_customize(stride=19, offset=seed)


class Hang(BaseException):
    """not an Exception: extract_iter's `except Exception` guards must not swallow it"""


def run_case(desc):
    """One implementation run under a per-case watchdog: an input on which extract() does not terminate (it
    has no fuel) is reported for THAT input and the remaining cases are still compared."""
    import signal

    def on_alarm(signum, frame):
        raise Hang()
    old = signal.signal(signal.SIGALRM, on_alarm)
    signal.setitimer(signal.ITIMER_REAL, 60.0)
    try:
        return G.run_impl(desc)
    except Hang:
        return {"kind": "raised", "exc": "HANG: extract() did not return within 60 s on this input"}
    finally:
        signal.setitimer(signal.ITIMER_REAL, 0)
        signal.signal(signal.SIGALRM, old)


def ranked_below(desc):
    """n such that the table is `ranked n` in the sense of M_FramesRef (0 = no claim): every unwrap result of
    object o / effective elaborate payload of frame f names only items of index > o / > f, next_inner only as
    the last element of a sequence or as the bare result.  False for the guard chains (they end in frame 0 or
    in a self-loop), for tables with a non-final next_inner and for generator objects."""
    n = max(desc["nf"], desc["no"])

    def above(lo, it):
        return lo < it[1] < n
    for o, sp in desc["unwrap"].items():
        o = int(o)
        if sp[0] == "one":
            items = [sp[1]]
        elif sp[0] in ("seq", "iter"):
            items = [i for i in sp[1] if i]
        elif sp[0] in ("none", "raise"):
            items = []
        else:
            return 0
        if not all(above(o, i) for i in items):
            return 0
    for f in range(desc["nf"]):
        sp = G.eff_elab(desc, f)
        pl = [sp[1]] if sp[0] == "one" else (sp[1] if sp[0] == "seq" else [])
        for idx, r in enumerate(pl):
            if r[0] == "N" and idx != len(pl) - 1:
                return 0
            if r[0] == "I" and not above(f, r[1]):
                return 0
    for f in desc["elab"]:
        if int(f) >= desc["nf"]:
            return 0
    return n if desc["root"][1] < n else 0


def coq_case(desc, obs):
    return f"({ranked_below(desc)}, {G.c_case(desc, obs)})"


def direct_oracle(desc, obs):
    if obs.get("kind") == "raised":
        return "extract() raised: " + obs.get("exc", "")
    # Frame.hide_line (not part of the model): set exactly on frames customize()d with hide_line=True
    cust = desc.get("cust", {})
    for fr in obs.get("frames", []):
        if fr["f"] < desc["nf"]:
            want = bool(cust.get(str(G.code_rep(desc, fr["f"])), {}).get("hide_line", False))
            if fr.get("hide_line", False) != want:
                return "frame %d: hide_line is %r, customize() asked for %r" % (fr["f"], fr.get("hide_line"), want)
    return None


def classify(desc, obs):
    labs = ["ranked" if ranked_below(desc) else "not-ranked",
            "shared-code" if any(v[0] == "samecode" for v in desc["frames"].values()) else "own-code",
            "customize()" if desc.get("cust") else "register()"]
    labs += ["elab:" + ",".join(sorted({v[0] for v in desc["elab"].values()})) if desc["nf"] <= 2 else "random"]
    if obs.get("kind") == "ok":
        labs.append("errs=%d" % min(len(obs["errs"]), 3))
        labs.append("frames=%d" % min(len(obs["frames"]), 6))
        labs.append("leaf:" + obs["leaf"][0])
    return labs
